"""Explicit-state breadth-first search over the real transition function (DESIGN.md 2.2).

A state is the event history that reaches it; it is rebuilt by replay on a freshly reset world.
The search is level-synchronous so that a level's frontier can be spread over the worker pool:
    phase A  every frontier history is replayed and canonicalised  -> key
    phase B  every *new* key has its invariants checked (destructive: the world is discarded) and is
             expanded with the enabled events.
A system object provides
    build(hist) -> w             reset world, replay hist on the real code
    canon(w, hist) -> hashable   canonical digest of everything a future can observe
    check(ctx, w, hist)          evaluate invariants, call ctx.violation(...)
    enabled(w, hist) -> [ev]     finite menu, simplest first
    deviations(hist) -> int
"""

import time

from . import harness


def _phase_a(ctx, shard):
    system = _SYS["system"]
    out = []
    for hist in shard:
        w = system.build(hist)
        ctx.count("transitions", len(hist))
        out.append((hist, system.canon(w, hist)))
    ctx.notes.setdefault("keys", []).extend(out)


def _phase_b(ctx, shard):
    system = _SYS["system"]
    bound = _SYS["bound"]
    out = []
    for hist in shard:
        w = system.build(hist)
        ctx.count("transitions", len(hist))
        evs = []
        if len(hist) < bound["depth"]:
            for ev in system.enabled(w, hist):
                h2 = hist + (ev,)
                if system.deviations(h2) <= bound["dev"]:
                    evs.append(h2)
        system.check(ctx, w, hist)
        ctx.count("states_checked")
        out.append((hist, evs))
    ctx.notes.setdefault("succ", []).extend(out)


_SYS = {}


class _Collect(harness.Ctx):
    pass


def explore(ctx, system, depth, dev, deadline=None, chunk=64):
    """Returns dict(states, merged, max_depth, completed_depth, capped)."""
    _SYS["system"] = system
    _SYS["bound"] = {"depth": depth, "dev": dev}
    seen = {}
    frontier = [()]
    level = 0
    merged = 0
    capped = False
    completed = -1
    maximal = 0
    while frontier:
        if deadline and time.time() > deadline:
            capped = True
            break
        # phase A: canonical keys
        try:
            keys = _gather(ctx, _phase_a, frontier, chunk, "keys", deadline)
        except _Capped:
            capped = True
            break
        # worker completion order must not influence which history represents a state
        keys.sort(key=lambda hk: repr(hk[0]))
        fresh = []
        for hist, key in keys:
            if key in seen:
                merged += 1
                continue
            seen[key] = hist
            fresh.append(hist)
        # phase B: invariants + expansion on distinct states only
        try:
            succ = _gather(ctx, _phase_b, fresh, max(1, chunk // 4), "succ", deadline)
        except _Capped:
            capped = True  # violations found in the part of the level that was checked are kept; the level is not counted
            break
        nxt = []
        for hist, evs in succ:
            if not evs:
                maximal += 1
            nxt.extend(evs)
        completed = level
        level += 1
        # deterministic order regardless of worker scheduling
        frontier = sorted(set(nxt), key=repr)
    ctx.counters["traces"] += maximal
    return {
        "bfs_states": len(seen),
        "bfs_merged": merged,
        "bfs_completed_depth": completed,
        "bfs_depth_bound": depth,
        "bfs_deviation_bound": dev,
        "bfs_capped": capped,
        "bfs_maximal_histories": maximal,
    }


class _Capped(Exception):
    pass


def _gather(ctx, func, items, chunk, note, deadline=None):
    if not items:
        return []
    shards = [items[i : i + chunk] for i in range(0, len(items), chunk)]
    sub = harness.Ctx(ctx.prop, ctx.tier, ctx.seed)
    # collect per-shard notes: workers return notes[note] lists; merge() would overwrite, so gather
    results = []

    def merge_hook(ex):
        results.extend(ex["notes"].pop(note, []))
        harness.Ctx.merge(sub, ex)

    try:
        _pmap_collect(sub, func, shards, merge_hook, deadline)
    finally:
        # fold sub into ctx (without the bulky notes) - also when the level was cut short by the deadline
        ex = sub.export()
        ex["notes"] = {k: v for k, v in ex["notes"].items() if k.startswith("worker_error_")}
        ctx.merge(ex)
    return results


def _pmap_collect(sub, func, shards, merge_hook, deadline=None):
    import multiprocessing as mp

    nproc = harness.NPROC
    if nproc <= 1 or len(shards) <= 1:
        for s in shards:
            c = harness.Ctx(sub.prop, sub.tier, sub.seed)
            func(c, s)
            merge_hook(c.export())
        return
    harness._WORK["func"] = func
    harness._WORK["proto"] = sub
    with mp.get_context("fork").Pool(min(nproc, len(shards))) as pool:
        for ex in pool.imap_unordered(harness._worker, list(enumerate(shards)), chunksize=1):
            errs = [v for k, v in ex["notes"].items() if k.startswith("worker_error_")]
            if errs:
                raise harness.HarnessError("worker crashed:\n" + errs[0])
            merge_hook(ex)
            if deadline and time.time() > deadline:
                pool.terminate()
                raise _Capped()
