"""Check harness: violation bookkeeping, known findings, evidence, replay files, worker pool.

A check module exposes
    PROPERTY = "C12"
    def run(ctx): ...            # explores, calls ctx.violation(...) / ctx.count(...) / ctx.outcome(...)
    def replay(case) -> list     # re-executes one recorded case/history, returns [(key, detail), ...]
Everything here is harness-side; nothing is written at run time except evidence/ and replays/.
"""

import collections
import fnmatch
import hashlib
import json
import multiprocessing as mp
import os
import subprocess
import sys
import time
import traceback

VERIF = os.path.dirname(os.path.dirname(os.path.abspath(__file__)))
KNOWN_FILE = os.environ.get("VERIF_KNOWN_FILE", os.path.join(VERIF, "known_findings.json"))
MAX_SAMPLES = 12
NPROC = int(os.environ.get("VERIF_NPROC", "16"))


def jsonable(x):
    """Best-effort conversion of a case/observation to JSON-serialisable data."""
    import numpy as np

    if isinstance(x, (str, int, bool)) or x is None:
        return x
    if isinstance(x, float):
        return x if x == x and abs(x) != float("inf") else repr(x)
    if isinstance(x, (list, tuple)):
        return [jsonable(i) for i in x]
    if isinstance(x, dict):
        return {str(k): jsonable(v) for k, v in x.items()}
    if isinstance(x, (np.integer,)):
        return int(x)
    if isinstance(x, (np.floating,)):
        return jsonable(float(x))
    if isinstance(x, np.ndarray):
        return {"ndarray": jsonable(x.tolist()), "dtype": str(x.dtype)}
    return repr(x)


class Ctx:
    """Per-process collector.  Workers create their own and the parent merges them."""

    def __init__(self, prop, tier, seed):
        self.prop = prop
        self.tier = tier
        self.seed = seed
        self.counters = collections.Counter()
        self.violations = {}  # key -> {"count": n, "case": ..., "expected": ..., "observed": ...}
        self.outcomes = set()  # 64-bit digests of canonical outcomes
        self.nontrivial = set()  # 64-bit digests of distinct decided cases
        self.samples = []
        self.notes = {}
        self.sets = collections.defaultdict(set)  # named small sets (outcome classes etc.)

    # -- recording ------------------------------------------------------------------------------
    def count(self, name, n=1):
        self.counters[name] += n

    @staticmethod
    def _h(obj):
        return int.from_bytes(hashlib.blake2b(repr(obj).encode(), digest_size=8).digest(), "big")

    def outcome(self, obj):
        self.outcomes.add(self._h(obj))

    def decided(self, obj):
        """Record a distinct case that reached the oracle with a decided verdict."""
        self.counters["oracle_comparisons"] += 1
        self.nontrivial.add(self._h(obj))

    def sample(self, obj):
        if len(self.samples) < MAX_SAMPLES:
            self.samples.append(jsonable(obj))

    def note_set(self, name, item):
        s = self.sets[name]
        if len(s) < 5000:
            s.add(item)

    def violation(self, key, case, expected=None, observed=None):
        v = self.violations.get(key)
        if v is None:
            self.violations[key] = {
                "count": 1,
                "case": jsonable(case),
                "expected": jsonable(expected),
                "observed": jsonable(observed),
            }
        else:
            v["count"] += 1

    # -- merging --------------------------------------------------------------------------------
    def export(self):
        return {
            "counters": dict(self.counters),
            "violations": self.violations,
            "outcomes": self.outcomes,
            "nontrivial": self.nontrivial,
            "samples": self.samples,
            "sets": {k: set(v) for k, v in self.sets.items()},
            "notes": self.notes,
        }

    def merge(self, ex):
        self.counters.update(ex["counters"])
        for k, v in ex["violations"].items():
            if k in self.violations:
                self.violations[k]["count"] += v["count"]
            else:
                self.violations[k] = v
        self.outcomes |= ex["outcomes"]
        self.nontrivial |= ex["nontrivial"]
        for s in ex["samples"]:
            if len(self.samples) < MAX_SAMPLES:
                self.samples.append(s)
        for k, v in ex["sets"].items():
            self.sets[k] |= v
        self.notes.update(ex["notes"])


# ---- worker pool ----------------------------------------------------------------------------------
_WORK = {}


def _worker(args):
    idx, shard = args
    func = _WORK["func"]
    p = _WORK["proto"]
    ctx = Ctx(p.prop, p.tier, p.seed)
    try:
        func(ctx, shard)
    except Exception:
        ctx.notes["worker_error_%d" % idx] = traceback.format_exc()
    return ctx.export()


def pmap(ctx, func, shards, nproc=None):
    """Run func(worker_ctx, shard) for every shard on a fork pool and merge into ctx.

    Shard order is permuted by the seed (never the content).  Workers are forked once.
    """
    shards = list(shards)
    if ctx.seed:
        import random

        random.Random(ctx.seed).shuffle(shards)
    nproc = nproc or NPROC
    if nproc <= 1 or len(shards) <= 1:
        for s in shards:
            func(ctx, s)
        return
    _WORK["func"] = func
    _WORK["proto"] = ctx
    mpctx = mp.get_context("fork")
    with mpctx.Pool(min(nproc, len(shards))) as pool:
        for ex in pool.imap_unordered(_worker, list(enumerate(shards)), chunksize=1):
            ctx.merge(ex)
    errs = [v for k, v in ctx.notes.items() if k.startswith("worker_error_")]
    if errs:
        raise HarnessError("worker crashed:\n" + errs[0])


class HarnessError(Exception):
    pass


# ---- known findings -------------------------------------------------------------------------------
def load_known():
    if not os.path.exists(KNOWN_FILE):
        return []
    with open(KNOWN_FILE) as f:
        data = json.load(f)
    out = []
    for e in data.get("entries", []):
        if e.get("status") == "known":
            key = e["key"]
            mode = key.rsplit("|mode=", 1)[-1] if "|mode=" in key else ""
            if "*" in mode:
                raise HarnessError("known finding wildcards the failure mode: " + key)
            out.append(e)
    return out


def match_known(key, known, prop):
    for e in known:
        if e["property"] != prop:
            continue
        if e["key"] == key or ("*" in e["key"] and fnmatch.fnmatchcase(key, e["key"])):
            return e
    return None


# ---- evidence / replay ----------------------------------------------------------------------------
def write_replay(prop, key, v, tier, seed):
    from mc import world

    d = os.path.join(os.environ.get("VERIF_REPLAY_DIR", os.path.join(VERIF, "replays")), prop)
    os.makedirs(d, exist_ok=True)
    h = hashlib.md5(key.encode()).hexdigest()[:12]
    path = os.path.join(d, h + ".json")
    with open(path, "w") as f:
        json.dump(
            {
                "property": prop,
                "key": key,
                "tier": tier,
                "seed": seed,
                "tree_digest": world.tree_digest(),
                "case": v["case"],
                "expected": v["expected"],
                "observed": v["observed"],
                "count": v["count"],
            },
            f,
            indent=1,
            sort_keys=True,
        )
    return path


def validate_evidence(path):
    """Validate with python3-vt's jsonschema when available; returns None or an error string."""
    schema = "/root/.vp/EVIDENCE.schema.json"
    if not os.path.exists(schema):
        return None
    code = (
        "import json,sys,jsonschema;"
        "s=json.load(open(sys.argv[1]));d=json.load(open(sys.argv[2]));"
        "jsonschema.Draft202012Validator(s).validate(d)"
    )
    for exe in ("python3-vt", "/opt/veriftools/pyvenv/bin/python"):
        try:
            r = subprocess.run(
                [exe, "-c", code, schema, path], capture_output=True, text=True, timeout=60
            )
        except (OSError, subprocess.TimeoutExpired):
            continue
        if r.returncode == 0:
            return None
        if "ModuleNotFoundError" in r.stderr:
            continue
        return r.stderr.strip().splitlines()[-1] if r.stderr.strip() else "invalid"
    return None


def finish(ctx, mod, t0, coverage_extra=None, assumptions=None, exhaustive=True):
    """Classify violations, print lines, write evidence, return exit status."""
    prop = ctx.prop
    known = load_known()
    new, matched = [], collections.OrderedDict()
    for key in sorted(ctx.violations):
        v = ctx.violations[key]
        e = match_known(key, known, prop)
        if e is None:
            new.append((key, v))
        else:
            m = matched.setdefault(e["key"], {"entry": e, "cases": 0, "keys": 0})
            m["cases"] += v["count"]
            m["keys"] += 1
    for m in matched.values():
        print(f"KNOWN-FINDING: property={prop} {m['entry']['what']} [{m['cases']} cases]")
    stale = [
        e["key"]
        for e in known
        if e["property"] == prop
        and e["key"] not in matched
        and ctx.tier in e.get("tiers", ["quick", "thorough"])
    ]
    status = 0
    MAXV = int(os.environ.get("VERIF_MAXV", "40"))
    if len(new) > MAXV:
        print(f"({len(new)} distinct violation keys; the first {MAXV} are written out, all are counted in the evidence)")
    for key, v in new[:MAXV]:
        path = write_replay(prop, key, v, ctx.tier, ctx.seed)
        print(f"VIOLATION property={prop} replay={path}")
        print(f"  key={key} cases={v['count']}")
        print(f"  expected={json.dumps(v['expected'])[:300]}")
        print(f"  observed={json.dumps(v['observed'])[:300]}")
        status = 1
    if new:
        status = 1
    cov = {
        "states": max(1, len(ctx.outcomes)),
        "transitions": max(1, int(ctx.counters.get("transitions", ctx.counters.get("evaluations", 0)))),
        "traces_validated_against_impl": int(
            ctx.counters.get("traces", ctx.counters.get("evaluations", 0))
        ),
        # executions run; a check that counts one execution per explored state but compares several observations per state
        # reports the number of executed comparisons when that is larger
        "evaluations": max(int(ctx.counters.get("evaluations", 0)), int(ctx.counters.get("oracle_comparisons", 0))),
        "distinct_nontrivial": len(ctx.nontrivial),
        "distinct_outcomes": len(ctx.outcomes),
        "exhaustive": bool(exhaustive),
        "samples": ctx.samples or ["(no sample recorded)"],
        "counters": {k: int(v) for k, v in sorted(ctx.counters.items())},
        "known_findings_matched": {k: m["cases"] for k, m in matched.items()},
        "stale_known_findings": stale,
        "new_violation_keys": [k for k, _ in new][:50],
        "sets": {k: sorted(map(str, v))[:200] for k, v in sorted(ctx.sets.items())},
    }
    if coverage_extra:
        cov.update(coverage_extra)
    ev = {
        "property_id": prop,
        "tier": ctx.tier,
        "seed": int(ctx.seed),
        "level": "model_checking",
        "coverage": cov,
        "assumptions": assumptions or [],
        "wall_s": round(time.time() - t0, 3),
        "violations": len(new),
    }
    evdir = os.environ.get("VERIF_EVIDENCE_DIR", os.path.join(VERIF, "evidence"))  # seeded-change runs write elsewhere
    os.makedirs(evdir, exist_ok=True)
    path = os.path.join(evdir, prop + ".json")
    with open(path, "w") as f:
        json.dump(ev, f, indent=1, sort_keys=True)
    err = validate_evidence(path)
    if err:
        print(f"HARNESS-ERROR evidence does not validate: {err}")
        return 2
    print(
        f"{prop} tier={ctx.tier} seed={ctx.seed} evaluations={cov['evaluations']} "
        f"states={cov['states']} transitions={cov['transitions']} "
        f"distinct_nontrivial={cov['distinct_nontrivial']} known={len(matched)} "
        f"violations={len(new)} wall={ev['wall_s']}s"
    )
    return status
