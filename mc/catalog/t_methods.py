"""Catalogue part 4: ndarray methods called on unyt arrays (same call on the bare ndarray is the reference)."""

import numpy as np

from .core import I, T
from .t_reduce import unary


def meth(name, kws, shapes, args=(), gen="f", cls="same", **flags):
    unary("ndarray." + name, (lambda a, **kw: getattr(a, name)(*args, **kw)), kws, shapes, gen=gen, cls=cls, tag=(repr(args).replace(" ", "") + ":" if args else ""), **flags)


AX = [{}, {"axis": 0}, {"axis": 1}, {"axis": -1, "keepdims": True}]
for m in ("sum", "mean", "max", "min"):
    meth(m, AX, [(), (4,), (2, 3)], dts="fi")
meth("std", [{}, {"axis": 0}, {"ddof": 1}], [(4,), (2, 3)])
meth("var", [{}, {"axis": 0}, {"ddof": 1}], [(4,), (2, 3)], cls="other")
meth("prod", [{}, {"axis": 0}, {"axis": 1}], [(4,), (2, 3)], cls="other")
meth("cumsum", [{}, {"axis": 0}, {"axis": 1}], [(4,), (2, 3)])
meth("cumprod", [{"axis": 0}], [(4,)], cls="other")
for m in ("argmax", "argmin", "argsort"):
    meth(m, [{}, {"axis": 0}, {"axis": 1}], [(4,), (2, 3)], cls="bare")
meth("argsort", [{"kind": "stable"}], [(4,)], cls="bare")
# ties only show the sort algorithm on arrays too long for NumPy's insertion-sort cut-off (16)
meth("argsort", [{"kind": "stable"}, {"kind": "stable", "axis": 0}, {"kind": "mergesort", "axis": -1}, {"kind": "stable", "axis": None}], [(64,), (40, 2)], gen="dup", cls="bare")
meth("argsort", [{}], [(64,)], args=(-1, "stable"), gen="dup", cls="bare")
meth("sort", [{"kind": "stable"}], [(64,)], gen="dup", cls="none", inplace=("a",))
meth("argpartition", [{}], [(4,)], args=(1,), cls="bare")
meth("nonzero", [{}], [(4,), (2, 3)], gen="dup", cls="bare")
meth("all", [{}, {"axis": 0}], [(4,), (2, 3)], gen="dup", cls="bare")
meth("any", [{}, {"axis": 0}], [(4,), (2, 3)], gen="dup", cls="bare")
meth("round", [{}, {"decimals": 1}], [(), (4,), (2, 3)], noncov="rounding is not scale-covariant")
meth("round", [{}], [(4,)], args=(1,), noncov="rounding is not scale-covariant")
meth("conj", [{}], [(4,)], dts="fc")
meth("conjugate", [{}], [(4,)], dts="fc")
meth("reshape", [{}], [(2, 3), (6,)], args=((3, 2),))
meth("reshape", [{}], [(2, 3)], args=(3, 2))
meth("reshape", [{"order": "F"}], [(2, 3)], args=(-1,))
meth("reshape", [{}], [(1,), (1, 1)], args=((),))
meth("ravel", [{}, {"order": "F"}], [(), (4,), (2, 3)])
meth("flatten", [{}, {"order": "F"}], [(), (4,), (2, 3)])
meth("transpose", [{}], [(4,), (2, 3)])
meth("transpose", [{}], [(2, 1, 3)], args=(1, 0, 2))
meth("swapaxes", [{}], [(2, 3)], args=(0, 1))
meth("squeeze", [{}], [(1,), (1, 1), (1, 3), (2, 1, 3), (4,)])
meth("squeeze", [{"axis": 1}], [(2, 1, 3)])
meth("repeat", [{}, {"axis": 0}], [(), (4,), (2, 3)], args=(2,))
meth("diagonal", [{}, {"offset": 1}], [(3, 3), (2, 3)])
meth("trace", [{}, {"offset": 1}], [(3, 3), (2, 3)])
meth("take", [{}, {"axis": 1}, {"axis": 0, "mode": "wrap"}], [(2, 3)], args=([0, 1],))
meth("take", [{"mode": "clip"}], [(4,)], args=([9, 1],))
meth("copy", [{}, {"order": "F"}], [(), (4,), (2, 3)], dts="fic")
meth("astype", [{}], [(4,), (2, 3)], args=(np.float32,))
meth("astype", [{"copy": False}], [(4,)], args=(np.float64,))
meth("clip", [{}], [(4,)], args=(-1.0, 2.0), noncov="bare bounds are read in the array's current unit")
meth("tolist", [{}], [(), (4,), (2, 3)], cls="bare", noncov="python numbers in the array's current unit")
meth("item", [{}], [(), (1,)], cls="bare", noncov="python number in the array's current unit")
meth("__len__", [{}], [(4,), (2, 3)], cls="bare")
meth("__abs__", [{}], [(), (4,)])
meth("__neg__", [{}], [(), (4,)])
meth("__pos__", [{}], [(), (4,)])
meth("__getitem__", [{}], [(4,), (2, 3)], args=(0,))
meth("__getitem__", [{}], [(4,), (2, 3)], args=(slice(0, 2),))
meth("__getitem__", [{}], [(2, 3)], args=((Ellipsis, 1),))
meth("__getitem__", [{}], [(2, 3)], args=((1, 2),))
meth("__getitem__", [{}], [(4,)], args=([0, 2],))
meth("__getitem__", [{}], [(4,)], args=(None,))
meth("searchsorted", [{}, {"side": "right"}], [(4,)], args=(0.5,), gen="sorted", cls="bare", noncov="bare needle is read in the array's current unit")
T("ndarray.searchsorted", "q-needle|(4,)", lambda a, v: a.searchsorted(v), {"a": I("X", (4,), "sorted"), "v": I("X", (3,))}, cls="bare")
T("ndarray.searchsorted", "q-needle,right|(4,)", lambda a, v: a.searchsorted(v, side="right"), {"a": I("X", (4,), "sorted"), "v": I("X", ())}, cls="bare")
T("ndarray.clip", "q-bounds|(4,)", lambda a, lo, hi: a.clip(lo, hi), {"a": I("X", (4,)), "lo": I("X", ()), "hi": I("X", (), "pos")})
T("ndarray.dot", "XY|(2,3)(3,)", lambda a, b: a.dot(b), {"a": I("X", (2, 3)), "b": I("Y", (3,))}, cls="other")
T("ndarray.dot", "XX|(3,)(3,)", lambda a, b: a.dot(b), {"a": I("X", (3,)), "b": I("X", (3,))}, cls="other")
T("ndarray.dot", "Xbare|(2,3)(3,2)", lambda a, b: a.dot(b), {"a": I("X", (2, 3)), "b": I(None, (3, 2))}, cls="same")
T("ndarray.__matmul__", "XY|(2,3)(3,2)", lambda a, b: a @ b, {"a": I("X", (2, 3)), "b": I("Y", (3, 2))}, cls="other")
T("ndarray.compress", "plain|(4,)", lambda a, c: a.compress(c), {"a": I("X", (4,)), "c": I(None, (4,), "bool")})
T("ndarray.compress", "axis1|(2,3)", lambda a, c: a.compress(c, axis=1), {"a": I("X", (2, 3)), "c": I(None, (3,), "bool")})
T("ndarray.choose", "plain|(4,)", lambda i, x, y, z: i.choose([x, y, z]), {"i": I(None, (4,), "idx"), "x": I("X", (4,)), "y": I("X", (4,)), "z": I("X", (4,))})
T("ndarray.__iter__", "list|(4,)", lambda a: list(a), {"a": I("X", (4,))})
T("ndarray.__iter__", "list|(2,3)", lambda a: list(a), {"a": I("X", (2, 3))})
T("ndarray.flat", "index|(2,3)", lambda a: a.flat[4], {"a": I("X", (2, 3))})
T("ndarray.T", "prop|(2,3)", lambda a: a.T, {"a": I("X", (2, 3))})
T("ndarray.real", "prop|(4,)", lambda a: a.real, {"a": I("X", (4,))}, dts="fc")
T("ndarray.imag", "prop|(4,)", lambda a: a.imag, {"a": I("X", (4,))}, dts="fc")


def _sort(a, **kw):
    a.sort(**kw)


def _fill(a, v):
    a.fill(v)


def _put(a, v):
    a.put([0, 2], v)


def _partition(a):
    a.partition(1)


def _setitem(a, v, idx):
    a[idx] = v


def _resize(a):
    a.resize((2, 2), refcheck=False)


T("ndarray.sort", "inplace|(4,)", lambda a: _sort(a), {"a": I("X", (4,))}, cls="none", inplace=("a",))
T("ndarray.sort", "inplace,axis0|(2,3)", lambda a: _sort(a, axis=0), {"a": I("X", (2, 3))}, cls="none", inplace=("a",))
T("ndarray.partition", "inplace|(4,)", lambda a: _partition(a), {"a": I("X", (4,))}, cls="none", inplace=("a",))
T("ndarray.fill", "q|(4,)", lambda a, v: _fill(a, v), {"a": I("X", (4,)), "v": I("X", ())}, cls="none", inplace=("a",))
T("ndarray.fill", "bare|(4,)", lambda a: _fill(a, 2.5), {"a": I("X", (4,))}, cls="none", inplace=("a",), noncov="bare value is read in the array's current unit")
T("ndarray.put", "q|(4,)", lambda a, v: _put(a, v), {"a": I("X", (4,)), "v": I("X", (2,))}, cls="none", inplace=("a",))
T("ndarray.__setitem__", "int,q|(4,)", lambda a, v: _setitem(a, v, 1), {"a": I("X", (4,)), "v": I("X", ())}, cls="none", inplace=("a",))
T("ndarray.__setitem__", "slice,q|(4,)", lambda a, v: _setitem(a, v, slice(1, 3)), {"a": I("X", (4,)), "v": I("X", (2,))}, cls="none", inplace=("a",))
T("ndarray.__setitem__", "mask,q|(4,)", lambda a, v, m: _setitem(a, v, m), {"a": I("X", (4,)), "v": I("X", ()), "m": I(None, (4,), "bool")}, cls="none", inplace=("a",))
T("ndarray.__setitem__", "fancy,q|(2,3)", lambda a, v: _setitem(a, v, ([0, 1], [2, 0])), {"a": I("X", (2, 3)), "v": I("X", (2,))}, cls="none", inplace=("a",))
for m, sh, kw in (("sum", (2, 3), {"axis": 0}), ("mean", (2, 3), {"axis": 0}), ("max", (2, 3), {"axis": 0}), ("cumsum", (4,), {})):
    T("ndarray." + m, f"out|{sh}", (lambda a, out, m=m, kw=kw: getattr(a, m)(out=out, **kw)), {"a": I("X", sh), "out": I("X", (3,) if sh == (2, 3) else sh, "zeros")}, inplace=("out",))
meth("take", [{"mode": "clip"}], [(4,)], args=([-1, 2],))

# ---- .dot with operands of three dimensions: NumPy's dot is not matmul there ------------------------------------------------
T("ndarray.dot", "3d.3d|(2,3,4)(2,4,5)", lambda a, b: a.dot(b), {"a": I("X", (2, 3, 4)), "b": I("Y", (2, 4, 5))}, cls="other")
T("ndarray.dot", "2d.3d|(3,4)(2,4,5)", lambda a, b: a.dot(b), {"a": I("X", (3, 4)), "b": I("Y", (2, 4, 5))}, cls="other")
T("ndarray.dot", "3d.1d|(2,3,4)(4,)", lambda a, b: a.dot(b), {"a": I("X", (2, 3, 4)), "b": I("Y", (4,))}, cls="other")
T("ndarray.dot", "3d.3d,out|(2,3,4)(2,4,5)", lambda a, b, out: a.dot(b, out=out), {"a": I("X", (2, 3, 4)), "b": I("Y", (2, 4, 5)), "out": I("X", (2, 3, 2, 5), "zeros")}, cls="other", inplace=("out",))
T("np.dot", "3d.3d|(2,3,4)(2,4,5)", lambda a, b: np.dot(a, b), {"a": I("X", (2, 3, 4)), "b": I("Y", (2, 4, 5))}, cls="other")
T("np.dot", "bare.3d|(3,4)(2,4,5)", lambda a, b: np.dot(a, b), {"a": I(None, (3, 4)), "b": I("Y", (2, 4, 5))}, cls="other")
T("np.matmul", "3d.3d|(2,3,4)(2,4,5)", lambda a, b: np.matmul(a, b), {"a": I("X", (2, 3, 4)), "b": I("Y", (2, 4, 5))}, cls="other")
T("np.inner", "2d.3d|(3,4)(2,5,4)", lambda a, b: np.inner(a, b), {"a": I("X", (3, 4)), "b": I("Y", (2, 5, 4))}, cls="other")
T("np.tensordot", "axes1|(2,3,4)(4,5)", lambda a, b: np.tensordot(a, b, axes=1), {"a": I("X", (2, 3, 4)), "b": I("Y", (4, 5))}, cls="other")
