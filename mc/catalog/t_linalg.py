"""Catalogue part 3: products, linear algebra, FFT, covariance, unsupported functions."""

import numpy as np

from .core import I, T
from .t_reduce import unary

LA = np.linalg

# ---- products of two operands ----------------------------------------------------------------------------
PAIRS = {
    "np.dot": (np.dot, [((3,), (3,)), ((2, 3), (3,)), ((2, 3), (3, 2)), ((), (3,))]),
    "np.vdot": (np.vdot, [((3,), (3,)), ((2, 3), (2, 3))]),
    "np.inner": (np.inner, [((3,), (3,)), ((2, 3), (3,)), ((), (3,))]),
    "np.outer": (np.outer, [((3,), (2,)), ((2, 3), (2,))]),
    "np.kron": (np.kron, [((2,), (3,)), ((2, 2), (2, 3))]),
    "np.cross": (np.cross, [((3,), (3,)), ((2, 3), (2, 3)), ((2, 3), (3,))]),
    "np.tensordot": (np.tensordot, [((2, 3), (2, 3)), ((3, 3), (3, 3))]),
    "np.matmul": (np.matmul, [((2, 3), (3, 2)), ((3,), (3,)), ((2, 3), (3,))]),
    "np.linalg.matmul": (LA.matmul, [((2, 3), (3, 2))]),
    "np.linalg.outer": (LA.outer, [((3,), (2,))]),
    "np.linalg.cross": (LA.cross, [((3,), (3,)), ((2, 3), (2, 3))]),
    "np.linalg.tensordot": (LA.tensordot, [((2, 3), (2, 3))]),
    "np.linalg.vecdot": (LA.vecdot, [((3,), (3,)), ((2, 3), (2, 3))]),
    "np.vecdot": (np.vecdot, [((3,), (3,)), ((2, 3), (2, 3))]),
}
for func, (f, shapes) in PAIRS.items():
    for sa, sb in shapes:
        T(func, f"XY|{sa}{sb}", (lambda a, b, f=f: f(a, b)), {"a": I("X", sa), "b": I("Y", sb)}, cls="other", dts="fic" if func in ("np.dot", "np.vdot", "np.matmul") else "f")
        T(func, f"XX|{sa}{sb}", (lambda a, b, f=f: f(a, b)), {"a": I("X", sa), "b": I("X", sb)}, cls="other")
        T(func, f"Xbare|{sa}{sb}", (lambda a, b, f=f: f(a, b)), {"a": I("X", sa), "b": I(None, sb)}, cls="same")
        T(func, f"bareX|{sa}{sb}", (lambda a, b, f=f: f(a, b)), {"a": I(None, sa), "b": I("X", sb)}, cls="same")
T("np.dot", "out|(2,3)(3,2)", lambda a, b, out: np.dot(a, b, out=out), {"a": I("X", (2, 3)), "b": I("Y", (3, 2)), "out": I("X", (2, 2), "zeros")}, cls="other", inplace=("out",))
T("np.outer", "out|(3,)(2,)", lambda a, b, out: np.outer(a, b, out), {"a": I("X", (3,)), "b": I("Y", (2,)), "out": I("X", (3, 2), "zeros")}, cls="other", inplace=("out",))
T("np.cross", "axis|(3,2)(3,2)", lambda a, b: np.cross(a, b, axisa=0, axisb=0, axisc=0), {"a": I("X", (3, 2)), "b": I("Y", (3, 2))}, cls="other")
T("np.tensordot", "axes1|(2,3)(3,2)", lambda a, b: np.tensordot(a, b, axes=1), {"a": I("X", (2, 3)), "b": I("Y", (3, 2))}, cls="other")
T("np.tensordot", "axes-pairs|(2,3)(3,2)", lambda a, b: np.tensordot(a, b, axes=([0, 1], [1, 0])), {"a": I("X", (2, 3)), "b": I("Y", (3, 2))}, cls="other")
T("np.tensordot", "axes0|(2,)(3,)", lambda a, b: np.tensordot(a, b, 0), {"a": I("X", (2,)), "b": I("Y", (3,))}, cls="other")
T("np.linalg.vecdot", "axis0|(3,2)(3,2)", lambda a, b: LA.vecdot(a, b, axis=0), {"a": I("X", (3, 2)), "b": I("Y", (3, 2))}, cls="other")
T("np.linalg.multi_dot", "three", lambda a, b, c: LA.multi_dot([a, b, c]), {"a": I("X", (2, 3)), "b": I("Y", (3, 3)), "c": I("W", (3, 2))}, cls="other")
T("np.linalg.multi_dot", "two-same", lambda a, b: LA.multi_dot([a, b]), {"a": I("X", (2, 3)), "b": I("X", (3, 2))}, cls="other")

# ---- einsum ----------------------------------------------------------------------------------------------
T("np.einsum", "trace|(3,3)", lambda a: np.einsum("ii", a), {"a": I("X", (3, 3))})
T("np.einsum", "transpose|(2,3)", lambda a: np.einsum("ij->ji", a), {"a": I("X", (2, 3))})
T("np.einsum", "sum-axis|(2,3)", lambda a: np.einsum("ij->i", a), {"a": I("X", (2, 3))})
T("np.einsum", "matmul-XX|(2,3)(3,2)", lambda a, b: np.einsum("ij,jk->ik", a, b), {"a": I("X", (2, 3)), "b": I("X", (3, 2))}, cls="other")
T("np.einsum", "matmul-XY|(2,3)(3,2)", lambda a, b: np.einsum("ij,jk->ik", a, b), {"a": I("X", (2, 3)), "b": I("Y", (3, 2))}, cls="other")
T("np.einsum", "inner-XX|(3,)(3,)", lambda a, b: np.einsum("i,i", a, b), {"a": I("X", (3,)), "b": I("X", (3,))}, cls="other")
T("np.einsum", "outer-Xbare|(3,)(2,)", lambda a, b: np.einsum("i,j->ij", a, b), {"a": I("X", (3,)), "b": I(None, (2,))}, cls="same")
T("np.einsum", "out|(2,3)", lambda a, out: np.einsum("ij->ji", a, out=out), {"a": I("X", (2, 3)), "out": I("X", (3, 2), "zeros")}, inplace=("out",))
T("np.einsum", "optimize|(2,3)", lambda a: np.einsum("ij->j", a, optimize=True), {"a": I("X", (2, 3))})
T("np.einsum_path", "matmul", lambda a, b: np.einsum_path("ij,jk->ik", a, b)[0], {"a": I("X", (2, 3)), "b": I("X", (3, 2))}, cls="bare")

# ---- decompositions, inverses, solves --------------------------------------------------------------------
unary("np.linalg.det", LA.det, [{}], [(2, 2), (3, 3), (2, 3, 3), (3, 2, 2)], gen="inv", cls="other", tol=True)
unary("np.linalg.slogdet", LA.slogdet, [{}], [(3, 3)], gen="inv", cls="bare", tol=True, noncov="log-determinant: undefined units (documented)")
unary("np.linalg.inv", LA.inv, [{}], [(3, 3), (2, 3, 3)], gen="inv", cls="other", tol=True)
unary("np.linalg.pinv", LA.pinv, [{}, {"hermitian": False}], [(3, 3), (2, 3)], gen="inv", cls="other", tol=True)
unary("np.linalg.pinv", lambda a: LA.pinv(a, rcond=1e-10), [{}], [(2, 3)], gen="inv", cls="other", tol=True)
unary("np.linalg.tensorinv", lambda a: LA.tensorinv(a.reshape(4, 2, 2) if False else a, ind=1), [{}], [(4, 2, 2)], gen="f", cls="other", tol=True)
unary("np.linalg.matrix_power", lambda a: LA.matrix_power(a, 2), [{}], [(3, 3)], cls="other", tol=True)
unary("np.linalg.matrix_power", lambda a: LA.matrix_power(a, 3), [{}], [(2, 2)], cls="other", tol=True)
unary("np.linalg.matrix_power", lambda a: LA.matrix_power(a, -1), [{}], [(3, 3)], gen="inv", cls="other", tol=True)
unary("np.linalg.cholesky", LA.cholesky, [{}, {"upper": True}], [(3, 3), (2, 3, 3)], gen="spd", cls="other", tol=True)
unary("np.linalg.qr", LA.qr, [{}, {"mode": "r"}, {"mode": "complete"}], [(3, 3), (3, 2)], gen="inv", cls="other", tol=True)
unary("np.linalg.svd", LA.svd, [{}, {"full_matrices": False}, {"compute_uv": False}, {"hermitian": False}], [(3, 3), (2, 3)], gen="inv", cls="other", tol=True)
unary("np.linalg.svd", lambda a: LA.svd(a, False, False), [{}], [(2, 3)], gen="inv", tol=True)
unary("np.linalg.svdvals", LA.svdvals, [{}], [(3, 3), (2, 3)], gen="inv", tol=True)
unary("np.linalg.eig", LA.eig, [{}], [(3, 3)], gen="spd", cls="other", tol=True)
unary("np.linalg.eigh", LA.eigh, [{}, {"UPLO": "U"}], [(3, 3)], gen="spd", cls="other", tol=True)
unary("np.linalg.eigvals", LA.eigvals, [{}], [(3, 3), (2, 3, 3)], gen="spd", tol=True)
unary("np.linalg.eigvalsh", LA.eigvalsh, [{}, {"UPLO": "U"}], [(3, 3)], gen="spd", tol=True)
unary("np.linalg.norm", LA.norm, [{}, {"axis": 0}, {"axis": 1, "keepdims": True}], [(4,), (2, 3)], dts="fc")
unary("np.linalg.norm", LA.norm, [{"ord": 1}, {"ord": np.inf}, {"ord": "fro"}, {"ord": "nuc"}, {"ord": 2}], [(3, 3)], tol=True)
unary("np.linalg.norm", LA.norm, [{"ord": 1}], [(4,)])
unary("np.linalg.norm", LA.norm, [{"ord": 3}], [(4,)], tol=True)  # pow/root: not bit-exact under rescaling
unary("np.linalg.norm", LA.norm, [{"ord": 0}], [(4,)], gen="dup", cls="bare", noncov="ord=0 counts non-zero entries")
unary("np.linalg.vector_norm", LA.vector_norm, [{}, {"axis": 0}, {"ord": 1}, {"keepdims": True}], [(4,), (2, 3)])
unary("np.linalg.matrix_norm", LA.matrix_norm, [{}, {"ord": 1}, {"keepdims": True}], [(3, 3), (2, 3)])
unary("np.linalg.cond", LA.cond, [{}, {"p": 1}], [(3, 3)], gen="inv", cls="bare", tol=True)
unary("np.linalg.matrix_rank", LA.matrix_rank, [{}], [(3, 3), (2, 3)], gen="inv", cls="bare")
unary("np.linalg.matrix_rank", lambda a: LA.matrix_rank(a, tol=1e-8), [{}], [(3, 3)], gen="inv", cls="bare", noncov="bare tolerance is read in the array's current unit")
for sb in ((3,), (3, 2)):
    T("np.linalg.solve", f"XY|{sb}", lambda a, b: LA.solve(a, b), {"a": I("X", (3, 3), "inv"), "b": I("Y", sb)}, cls="other", tol=True)
    T("np.linalg.solve", f"Xbare|{sb}", lambda a, b: LA.solve(a, b), {"a": I("X", (3, 3), "inv"), "b": I(None, sb)}, cls="other", tol=True)
    T("np.linalg.solve", f"bareY|{sb}", lambda a, b: LA.solve(a, b), {"a": I(None, (3, 3), "inv"), "b": I("Y", sb)}, cls="same", same_slot="Y", tol=True)
    T("np.linalg.lstsq", f"XY|{sb}", lambda a, b: LA.lstsq(a, b, rcond=None), {"a": I("X", (4, 3), "inv"), "b": I("Y", (4,) + sb[1:])}, cls="other", tol=True)
T("np.linalg.lstsq", "XX|(4,)", lambda a, b: LA.lstsq(a, b, rcond=None), {"a": I("X", (4, 3), "inv"), "b": I("X", (4,))}, cls="other", tol=True)
T("np.linalg.tensorsolve", "XY", lambda a, b: LA.tensorsolve(a, b), {"a": I("X", (2, 2, 4), "f"), "b": I("Y", (2, 2))}, cls="other", tol=True)

# ---- covariance / correlation ----------------------------------------------------------------------------
unary("np.cov", np.cov, [{}, {"rowvar": False}, {"ddof": 0}, {"bias": True}], [(2, 4)], cls="other")
T("np.cov", "xy|(4,)(4,)", lambda x, y: np.cov(x, y), {"x": I("X", (4,)), "y": I("X", (4,))}, cls="other")
unary("np.corrcoef", np.corrcoef, [{}, {"rowvar": False}], [(2, 4)], cls="bare")
T("np.corrcoef", "xy|(4,)(4,)", lambda x, y: np.corrcoef(x, y), {"x": I("X", (4,)), "y": I("Y", (4,))}, cls="bare")

# ---- FFT (linear in the input: result has the input's dimension) -----------------------------------------
for name in ("fft", "ifft", "rfft", "ihfft", "hfft", "irfft"):
    f = getattr(np.fft, name)
    cplx_in = name in ("hfft", "irfft")
    unary("np.fft." + name, f, [{}, {"n": 6}, {"norm": "ortho"}, {"axis": 0}], [(4,), (2, 4)], tol=True, dts="c" if cplx_in else "fc" if name in ("fft", "ifft") else "f")
for name in ("fft2", "ifft2", "fftn", "ifftn", "rfft2", "rfftn", "irfft2", "irfftn"):
    f = getattr(np.fft, name)
    unary("np.fft." + name, f, [{}, {"norm": "forward"}, {"axes": (0, 1)}], [(2, 4), (4, 4)], tol=True, dts="c" if name.startswith("irfft") else "f")
unary("np.fft.fft2", lambda a: np.fft.fft2(a, s=(2, 2)), [{}], [(4, 4)], tol=True)

# ---- unsupported functions must refuse with TypeError ----------------------------------------------------
T("np.poly", "refuse", lambda a: np.poly(a), {"a": I("X", (3,))}, cls="refuse")
T("np.polyadd", "refuse", lambda a, b: np.polyadd(a, b), {"a": I("X", (3,)), "b": I("X", (3,))}, cls="refuse")
T("np.polysub", "refuse", lambda a, b: np.polysub(a, b), {"a": I("X", (3,)), "b": I("X", (3,))}, cls="refuse")
T("np.polymul", "refuse", lambda a, b: np.polymul(a, b), {"a": I("X", (3,)), "b": I("X", (3,))}, cls="refuse")
T("np.polydiv", "refuse", lambda a, b: np.polydiv(a, b), {"a": I("X", (3,), "pos"), "b": I("X", (2,), "pos")}, cls="refuse")
T("np.polyder", "refuse", lambda a: np.polyder(a), {"a": I("X", (3,))}, cls="refuse")
T("np.polyint", "refuse", lambda a: np.polyint(a), {"a": I("X", (3,))}, cls="refuse")
T("np.polyval", "refuse", lambda a, x: np.polyval(a, x), {"a": I("X", (3,)), "x": I("X", (2,))}, cls="refuse")
T("np.polyfit", "refuse", lambda x, y: np.polyfit(x, y, 1), {"x": I("X", (4,), "sorted"), "y": I("Y", (4,))}, cls="refuse")
T("np.roots", "refuse", lambda a: np.roots(a), {"a": I("X", (3,), "pos")}, cls="refuse")
T("np.vander", "refuse", lambda a: np.vander(a, 3), {"a": I("X", (3,))}, cls="refuse")
T("np.piecewise", "refuse", lambda a: np.piecewise(a, [a < 0 * a, a >= 0 * a], [lambda v: -v, lambda v: v]), {"a": I("X", (4,))}, cls="refuse")
T("np.ix_", "refuse", lambda a, b: np.ix_(a, b), {"a": I("X", (2,), "nnint"), "b": I("X", (2,), "nnint")}, cls="refuse")
T("np.packbits", "refuse", lambda a: np.packbits(a), {"a": I("X", (8,), "bool")}, cls="refuse")
T("np.unpackbits", "refuse", lambda a: np.unpackbits(a.astype(np.uint8)), {"a": I("X", (2,), "nnint")}, cls="refuse")
T("np.datetime_as_string", "refuse", lambda a: np.datetime_as_string(a), {"a": I("X", (2,), "nnint")}, cls="refuse")
T("np.busday_count", "refuse", lambda a: np.busday_count(a, a), {"a": I("X", (2,), "nnint")}, cls="refuse")
T("np.busday_offset", "refuse", lambda a: np.busday_offset(a, 1), {"a": I("X", (2,), "nnint")}, cls="refuse")
T("np.is_busday", "refuse", lambda a: np.is_busday(a), {"a": I("X", (2,), "nnint")}, cls="refuse")

# ---- out= forms with operands that do not commute but fit either way round --------------------------------------------------
T("np.dot", "out,square|(3,3)(3,3)", lambda a, b, out: np.dot(a, b, out=out), {"a": I("X", (3, 3)), "b": I("Y", (3, 3)), "out": I("X", (3, 3), "zeros")}, cls="other", inplace=("out",))
T("np.dot", "bare-out,square|(3,3)(3,3)", lambda a, b, out: np.dot(a, b, out=out), {"a": I("X", (3, 3)), "b": I("Y", (3, 3)), "out": I(None, (3, 3), "zeros")}, cls="other", inplace=("out",), noncov="a bare buffer holds the numbers in the inputs' current units")
T("np.outer", "out|(3,)(3,)", lambda a, b, out: np.outer(a, b, out=out), {"a": I("X", (3,)), "b": I("Y", (3,)), "out": I("X", (3, 3), "zeros")}, cls="other", inplace=("out",))
T("np.matmul", "out,square|(3,3)(3,3)", lambda a, b, out: np.matmul(a, b, out=out), {"a": I("X", (3, 3)), "b": I("Y", (3, 3)), "out": I("X", (3, 3), "zeros")}, cls="other", inplace=("out",))
T("ndarray.dot", "out,square|(3,3)(3,3)", lambda a, b, out: a.dot(b, out=out), {"a": I("X", (3, 3)), "b": I("Y", (3, 3)), "out": I("X", (3, 3), "zeros")}, cls="other", inplace=("out",))
T("np.kron", "XY|(2,2)(2,2)", lambda a, b: np.kron(a, b), {"a": I("X", (2, 2)), "b": I("Y", (2, 2))}, cls="other")
T("np.cross", "XY|(3,)(3,)", lambda a, b: np.cross(a, b), {"a": I("X", (3,)), "b": I("Y", (3,))}, cls="other")

# ---- keyword arguments of einsum reach NumPy (hunt round: dtype / casting / order were dropped) ---------------------------
T("np.einsum", "dtype-complex|(2,3)", lambda a: np.einsum("ij->i", a, dtype=complex), {"a": I("X", (2, 3))})
T("np.einsum", "dtype-f4|(2,3)", lambda a: np.einsum("ij->i", a * 1.000000123, dtype=np.float32, casting="same_kind"), {"a": I("X", (2, 3))})
T("np.einsum", "order-F|(2,3)", lambda a: np.einsum("ij->ji", a, order="F"), {"a": I("X", (2, 3))})
