"""Catalogue part 6: binary/unary ufuncs on operands that carry the SAME unit through two separate Unit objects
(integer data incl. zero divisors): the numbers must be NumPy's on the bare data."""

import operator

import numpy as np

from .core import I, T

BIN = {
    "floor_divide": ("other", np.floor_divide, operator.floordiv),
    "remainder": ("same", np.remainder, operator.mod),
    "fmod": ("same", np.fmod, None),
    "true_divide": ("other", np.true_divide, operator.truediv),
    "add": ("same", np.add, operator.add),
    "subtract": ("same", np.subtract, operator.sub),
    "multiply": ("other", np.multiply, operator.mul),
    "maximum": ("same", np.maximum, None),
    "minimum": ("same", np.minimum, None),
    "hypot": ("same", np.hypot, None),
    "less": ("bare", np.less, operator.lt),
    "equal": ("bare", np.equal, operator.eq),
    "arctan2": ("other", np.arctan2, None),
}
for name, (cls, uf, op) in BIN.items():
    for sh in [(4,), (2, 3), ()]:
        for slot_b, tag in (("X", "shared-unit"), ("Xc", "separate-unit-object")):
            T("ufunc." + name, f"call,{tag}|{sh}", (lambda a, b, uf=uf: uf(a, b)), {"a": I("X", sh, "f"), "b": I(slot_b, sh, "dup")}, cls=cls, dts="fi")
            if op is not None:
                T("ufunc." + name, f"operator,{tag}|{sh}", (lambda a, b, op=op: op(a, b)), {"a": I("X", sh, "f"), "b": I(slot_b, sh, "dup")}, cls=cls, dts="fi")
    T("ufunc." + name, "reflected-bare-left|(4,)", (lambda a, b, uf=uf: uf(np.asarray(a) if not hasattr(a, "units") else a, b)), {"a": I("X", (4,), "f"), "b": I("Xc", (4,), "pos")}, cls=cls, dts="fi")
T("ufunc.divmod", "call,separate-unit-object|(4,)", lambda a, b: np.divmod(a, b), {"a": I("X", (4,), "f"), "b": I("Xc", (4,), "pos")}, cls="other", dts="fi")
T("ufunc.floor_divide", "inplace,separate-unit-object|(4,)", lambda a, b: operator.ifloordiv(a, b), {"a": I("X", (4,), "pos"), "b": I("Xc", (4,), "pos")}, cls="other", dts="fi", inplace=("a",))
for name in ("negative", "absolute", "sign", "square", "sqrt", "reciprocal", "rint", "floor", "ceil", "trunc", "isfinite", "isnan", "signbit", "positive", "conjugate"):
    uf = getattr(np, name)
    cls = "bare" if name in ("isfinite", "isnan", "signbit", "sign") else ("same" if name in ("negative", "absolute", "positive", "conjugate", "rint", "floor", "ceil", "trunc") else "other")  # rint: unyt's tests pin it to a bare result - judged, and listed as a known finding
    for sh in [(4,), ()]:
        T("ufunc." + name, f"call|{sh}", (lambda a, uf=uf: uf(a)), {"a": I("X", sh, "pos" if name in ("sqrt", "reciprocal") else "f")}, cls=cls, dts="fi" if name not in ("sqrt", "reciprocal") else "f", **({"noncov": "rounding is not scale-covariant"} if name in ("rint", "floor", "ceil", "trunc") else {}))
