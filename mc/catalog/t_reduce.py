"""Catalogue part 1: reductions, statistics, cumulative functions, sorting/searching, predicates."""

import numpy as np

from .core import I, T

S_ANY = [(), (1,), (4,), (2, 3), (3, 3), (0,)]
S_ND = [(1,), (4,), (2, 3), (3, 3)]
S_2D = [(2, 3), (3, 3)]


def kwid(kw):
    return ",".join(f"{k}={v}" for k, v in kw.items()) or "plain"


def unary(func, f, kws, shapes, gen="f", cls="same", tag="", **flags):
    for sh in shapes:
        for kw in kws:
            ax = kw.get("axis")
            if isinstance(ax, int) and not (-len(sh) <= ax < len(sh)):
                continue
            T(func, f"{tag}{kwid(kw)}|{sh}", (lambda a, kw=kw, f=f: f(a, **kw)), {"a": I("X", sh, gen)}, cls=cls, **flags)


def with_out(func, f, kw, sh, outsh, gen="f", cls="same", outgen="zeros", **flags):
    T(
        func,
        f"out,{kwid(kw)}|{sh}",
        (lambda a, out, kw=kw, f=f: f(a, out=out, **kw)),
        {"a": I("X", sh, gen), "out": I("X", outsh, outgen)},
        cls=cls,
        inplace=("out",),
        **flags,
    )


AX = [{}, {"axis": 0}, {"axis": 1}, {"axis": -1, "keepdims": True}]

# ---- sums, extrema, location ----------------------------------------------------------------------------
for name in ("sum", "max", "min", "amax", "amin", "mean", "median", "nansum", "nanmax", "nanmin", "nanmean", "nanmedian"):
    f = getattr(np, name)
    nan = name.startswith("nan")
    shapes = S_ANY if name in ("sum", "mean", "nansum", "nanmean") else [s for s in S_ANY if s != (0,)]
    unary("np." + name, f, AX, shapes, gen="nan" if nan else "f", dts="f" if nan else "fic" if name in ("sum", "mean") else "fi")
    with_out("np." + name, f, {"axis": 0}, (2, 3), (3,), gen="nan" if nan else "f")
unary("np.sum", np.sum, [{"axis": (0, 1)}, {"where": np.array([True, False, True])}], [(2, 3)])
unary("np.sum", np.sum, [{"initial": 2.0}], [(2, 3)], noncov="bare initial= is read in the array's current unit")
unary("np.max", np.max, [{"initial": 100.0, "where": np.array([True, False, True])}], [(2, 3)], noncov="bare initial= is read in the array's current unit")
unary("np.mean", np.mean, [{"dtype": np.float32}], [(4,)])
unary("np.median", np.median, [{"overwrite_input": False, "axis": 0}], [(3, 3)])
unary("np.average", np.average, [{}, {"axis": 0}, {"axis": 1, "keepdims": True}], S_ND, dts="fic")
T("np.average", "weights|(2,3)", lambda a, w: np.average(a, axis=1, weights=w), {"a": I("X", (2, 3)), "w": I(None, (3,), "pos")})
T("np.average", "qweights|(2,3)", lambda a, w: np.average(a, axis=1, weights=w), {"a": I("X", (2, 3)), "w": I("W", (3,), "pos")})
T("np.average", "returned|(4,)", lambda a, w: np.average(a, weights=w, returned=True), {"a": I("X", (4,)), "w": I(None, (4,), "pos")}, cls="other")

# ---- spread ----------------------------------------------------------------------------------------------
SP = [{}, {"axis": 0}, {"ddof": 1}, {"axis": 1, "keepdims": True}]
for name in ("std", "nanstd"):
    unary("np." + name, getattr(np, name), SP, [(4,), (2, 3), (3, 3)], gen="nan" if "nan" in name else "f", dts="f" if "nan" in name else "fic")
for name in ("var", "nanvar"):
    unary("np." + name, getattr(np, name), SP, [(4,), (2, 3), (3, 3)], gen="nan" if "nan" in name else "f", cls="other", dts="f" if "nan" in name else "fic")
unary("np.var", np.var, [{}], [()], cls="other")
unary("np.ptp", np.ptp, [{}, {"axis": 0}, {"axis": 1, "keepdims": True}], [(4,), (2, 3)], dts="fi")
with_out("np.std", np.std, {"axis": 0}, (2, 3), (3,))

# ---- products --------------------------------------------------------------------------------------------
unary("np.prod", np.prod, [{}, {"axis": 0}, {"axis": 1}, {"axis": 1, "keepdims": True}], [(), (1,), (4,), (2, 3), (3, 3)], cls="other", dts="fic")
unary("np.nanprod", np.nanprod, [{}, {"axis": 0}, {"axis": 1}], [(4,), (2, 3)], gen="nan", cls="other")
unary("np.prod", np.prod, [{"axis": (0, 1)}, {"initial": 2.0}], [(2, 3)], cls="other")
for name in ("cumprod", "cumulative_prod", "nancumprod"):
    unary("np." + name, getattr(np, name), [{"axis": 0}], [(4,)], cls="other")

# ---- cumulative sums, differences ------------------------------------------------------------------------
unary("np.cumsum", np.cumsum, [{}, {"axis": 0}, {"axis": 1}], [(4,), (2, 3)], dts="fic")
unary("np.nancumsum", np.nancumsum, [{}, {"axis": 1}], [(4,), (2, 3)], gen="nan")
unary("np.cumulative_sum", np.cumulative_sum, [{"axis": 0}, {"axis": 1, "include_initial": True}], [(4,), (2, 3)])
with_out("np.cumsum", np.cumsum, {"axis": 0}, (2, 3), (2, 3))
unary("np.diff", np.diff, [{}, {"n": 2}, {"axis": 0}], [(4,), (2, 3), (3, 3)], dts="fi")
T("np.diff", "prepend|(4,)", lambda a, p: np.diff(a, prepend=p), {"a": I("X", (4,)), "p": I("X", (1,))}, dts="fi")
T("np.diff", "append|(4,)", lambda a, p: np.diff(a, append=p), {"a": I("X", (4,)), "p": I("X", (2,))}, dts="fi")
unary("np.ediff1d", np.ediff1d, [{}], [(4,), (2, 3)])
T("np.ediff1d", "to_end-positional|(4,)", lambda a, e: np.ediff1d(a, e), {"a": I("X", (4,)), "e": I("X", ())})
T("np.ediff1d", "to_end,to_begin-positional|(4,)", lambda a, e, b: np.ediff1d(a, e, b), {"a": I("X", (4,)), "e": I("X", (2,)), "b": I("X", ())})
T("np.ediff1d", "keywords|(4,)", lambda a, e, b: np.ediff1d(a, to_begin=b, to_end=e), {"a": I("X", (4,)), "e": I("X", (2,)), "b": I("X", ())})
T("np.ediff1d", "positional-end,keyword-begin|(4,)", lambda a, e, b: np.ediff1d(a, e, to_begin=b), {"a": I("X", (4,)), "e": I("X", ()), "b": I("X", (2,))})
T("np.ediff1d", "to_end|(4,)", lambda a, p: np.ediff1d(a, to_end=p), {"a": I("X", (4,)), "p": I("X", (2,))})
T("np.ediff1d", "to_begin|(4,)", lambda a, p: np.ediff1d(a, to_begin=p), {"a": I("X", (4,)), "p": I("X", (1,))})
unary("np.gradient", np.gradient, [{}, {"axis": 0}, {"edge_order": 2}], [(4,), (3, 3)], cls="other")
T("np.gradient", "dx-scalar|(4,)", lambda a: np.gradient(a, 2.0), {"a": I("X", (4,))})
T("np.gradient", "dx-quantity|(4,)", lambda a, h: np.gradient(a, h), {"a": I("X", (4,)), "h": I("Y", (), "pos")}, cls="other")
T("np.gradient", "x-coords|(4,)", lambda a, x: np.gradient(a, x), {"a": I("X", (4,)), "x": I("Y", (4,), "sorted")}, cls="other")
T("np.trapezoid", "plain|(4,)", lambda y: np.trapezoid(y), {"y": I("X", (4,))}, cls="same")
T("np.trapezoid", "x|(4,)", lambda y, x: np.trapezoid(y, x), {"y": I("X", (4,)), "x": I("Y", (4,), "sorted")}, cls="other")
T("np.trapezoid", "x-kw|(2,3)", lambda y, x: np.trapezoid(y, x=x, axis=1), {"y": I("X", (2, 3)), "x": I("Y", (3,), "sorted")}, cls="other")
T("np.trapezoid", "dx-q|(4,)", lambda y, dx: np.trapezoid(y, dx=dx), {"y": I("X", (4,)), "dx": I("Y", (), "pos")}, cls="other")
T("np.trapezoid", "dx-bare|(2,3)", lambda y: np.trapezoid(y, dx=0.5, axis=0), {"y": I("X", (2, 3))}, cls="same")
T("np.trapezoid", "x-bare|(4,)", lambda y, x: np.trapezoid(y, x), {"y": I("X", (4,)), "x": I(None, (4,), "sorted")}, cls="same")

# ---- percentiles -----------------------------------------------------------------------------------------
for name in ("percentile", "nanpercentile"):
    g = "nan" if "nan" in name else "f"
    f = getattr(np, name)
    for sh in [(4,), (2, 3)]:
        T("np." + name, f"q50|{sh}", lambda a, f=f: f(a, 50), {"a": I("X", sh, g)})
        T("np." + name, f"q-list,axis0|{sh}", lambda a, f=f: f(a, [25, 60], axis=0), {"a": I("X", sh, g)})
        T("np." + name, f"method-lower,keepdims|{sh}", lambda a, f=f: f(a, 30, method="lower", keepdims=True), {"a": I("X", sh, g)})
for name in ("quantile", "nanquantile"):
    g = "nan" if "nan" in name else "f"
    f = getattr(np, name)
    for sh in [(4,), (2, 3)]:
        T("np." + name, f"q.5|{sh}", lambda a, f=f: f(a, 0.5), {"a": I("X", sh, g)})
        T("np." + name, f"q-list,axis-1|{sh}", lambda a, f=f: f(a, [0.25, 0.6], axis=-1), {"a": I("X", sh, g)})
        T("np." + name, f"method-higher|{sh}", lambda a, f=f: f(a, 0.3, method="higher"), {"a": I("X", sh, g)})
T("np.percentile", "out|(2,3)", lambda a, out: np.percentile(a, 50, axis=0, out=out), {"a": I("X", (2, 3)), "out": I("X", (3,), "zeros")}, inplace=("out",))

# ---- sorting, searching, counting ------------------------------------------------------------------------
unary("np.sort", np.sort, [{}, {"axis": 0}, {"axis": None}, {"kind": "stable"}], [(4,), (2, 3), (0,)], dts="fi")
unary("np.sort_complex", np.sort_complex, [{}], [(4,)], dts="fc")
unary("np.partition", lambda a, **kw: np.partition(a, 1, **kw), [{}, {"axis": 0}], [(4,), (2, 3)])
unary("np.argpartition", lambda a, **kw: np.argpartition(a, 1, **kw), [{}, {"axis": 0}], [(4,), (2, 3)], cls="bare")
for name in ("argsort", "argmax", "argmin", "nanargmax", "nanargmin"):
    unary("np." + name, getattr(np, name), [{}, {"axis": 0}, {"axis": 1}], [(4,), (2, 3)], cls="bare", dts="fi")
unary("np.argmax", np.argmax, [{"axis": 1, "keepdims": True}], [(2, 3)], cls="bare")
unary("np.argsort", np.argsort, [{"kind": "stable"}, {"stable": True}, {"kind": "stable", "axis": 0}], [(64,), (40, 2)], gen="dup", cls="bare")
unary("np.sort", np.sort, [{"kind": "stable"}, {"stable": True}], [(64,)], gen="dup")
for name in ("nonzero", "flatnonzero", "argwhere", "count_nonzero"):
    unary("np." + name, getattr(np, name), [{}], [(4,), (2, 3)], gen="dup", cls="bare")
unary("np.count_nonzero", np.count_nonzero, [{"axis": 0}, {"axis": 1, "keepdims": True}], [(2, 3)], gen="dup", cls="bare")
for sh, vs in (((4,), ()), ((4,), (3,)), ((3,), (2, 2))):
    T("np.searchsorted", f"left|{sh}{vs}", lambda a, v: np.searchsorted(a, v), {"a": I("X", sh, "sorted"), "v": I("X", vs)}, cls="bare")
    T("np.searchsorted", f"right|{sh}{vs}", lambda a, v: np.searchsorted(a, v, side="right"), {"a": I("X", sh, "sorted"), "v": I("X", vs)}, cls="bare")
T("np.searchsorted", "sorter|(4,)", lambda a, v, s: np.searchsorted(a, v, sorter=s), {"a": I("X", (4,), "sorted"), "v": I("X", (3,)), "s": I(None, (4,), "idx")}, cls="bare")
T("np.digitize", "plain|(4,)", lambda x, bins: np.digitize(x, bins), {"x": I("X", (4,)), "bins": I("X", (3,), "sorted")}, cls="bare")
T("np.digitize", "right|(2,3)", lambda x, bins: np.digitize(x, bins, right=True), {"x": I("X", (2, 3)), "bins": I("X", (3,), "sorted")}, cls="bare")
T("np.lexsort", "keys|(4,)", lambda a, b: np.lexsort((a, b)), {"a": I("X", (4,), "dup"), "b": I("X", (4,), "dup")}, cls="bare")
T("np.bincount", "weights|(4,)", lambda x, w: np.bincount(x, weights=w), {"x": I(None, (4,), "nnint"), "w": I("X", (4,))}, cls="same")
T("np.bincount", "weights,minlength|(4,)", lambda x, w: np.bincount(x, w, minlength=5), {"x": I(None, (4,), "nnint"), "w": I("X", (4,))}, cls="same")

# ---- unique / set operations -----------------------------------------------------------------------------
unary("np.unique", np.unique, [{}, {"axis": 0}], [(4,), (2, 3)], gen="dup", dts="fi")
unary("np.unique", np.unique, [{"return_index": True, "return_inverse": True, "return_counts": True}], [(4,)], gen="dup", cls="other")
for name in ("unique_values", "unique_all", "unique_counts", "unique_inverse"):
    unary("np." + name, getattr(np, name), [{}], [(4,)], gen="dup", cls="same" if name == "unique_values" else "other")
for name in ("intersect1d", "union1d", "setdiff1d", "setxor1d"):
    f = getattr(np, name)
    T("np." + name, "plain|(4,)(3,)", lambda a, b, f=f: f(a, b), {"a": I("X", (4,), "dup"), "b": I("X", (3,), "dup")})
T("np.intersect1d", "indices|(4,)(3,)", lambda a, b: np.intersect1d(a, b, return_indices=True), {"a": I("X", (4,), "dup"), "b": I("X", (3,), "dup")}, cls="other")
T("np.intersect1d", "assume_unique|(4,)(3,)", lambda a, b: np.intersect1d(a, b, assume_unique=True), {"a": I("X", (4,), "sorted"), "b": I("X", (3,), "sorted")})
T("np.setdiff1d", "assume_unique|(4,)(3,)", lambda a, b: np.setdiff1d(a, b, assume_unique=True), {"a": I("X", (4,), "sorted"), "b": I("X", (3,), "sorted")})
T("np.isin", "plain|(2,3)(3,)", lambda a, b: np.isin(a, b), {"a": I("X", (2, 3), "dup"), "b": I("X", (3,), "dup")}, cls="bare")
T("np.isin", "invert|(4,)(3,)", lambda a, b: np.isin(a, b, invert=True), {"a": I("X", (4,), "dup"), "b": I("X", (3,), "dup")}, cls="bare")

# ---- predicates and metadata -----------------------------------------------------------------------------
for name in ("all", "any"):
    unary("np." + name, getattr(np, name), [{}, {"axis": 0}, {"axis": 1, "keepdims": True}], [(4,), (2, 3)], gen="dup", cls="bare")
for name in ("isreal", "iscomplex", "isrealobj", "iscomplexobj", "isneginf", "isposinf", "ndim", "shape", "size", "min_scalar_type", "common_type", "result_type"):
    unary("np." + name, getattr(np, name), [{}], [(), (4,), (2, 3)], cls="bare", dts="fc" if "complex" in name or "real" in name else "f")
T("np.size", "axis|(2,3)", lambda a: np.size(a, 1), {"a": I("X", (2, 3))}, cls="bare")
T("np.can_cast", "f4|(4,)", lambda a: np.can_cast(a.dtype, np.float32), {"a": I("X", (4,))}, cls="bare")
T("np.shares_memory", "self-view|(4,)", lambda a: np.shares_memory(a, a[1:]), {"a": I("X", (4,))}, cls="bare")
T("np.may_share_memory", "copy|(4,)", lambda a: np.may_share_memory(a, a.copy()), {"a": I("X", (4,))}, cls="bare")
unary("np.angle", np.angle, [{}, {"deg": True}], [(4,)], cls="bare", dts="c", noncov="angle of a complex number is scale-free; compared as bare")
unary("np.real", np.real, [{}], [(4,), (2, 3)], dts="fc")
unary("np.imag", np.imag, [{}], [(4,), (2, 3)], dts="fc")
unary("np.real_if_close", np.real_if_close, [{}], [(4,)], dts="fc")
unary("np.nan_to_num", np.nan_to_num, [{}, {"copy": True}], [(4,), (2, 3)], gen="nan")
unary("np.nan_to_num", np.nan_to_num, [{"nan": 1.0}], [(4,)], gen="nan", noncov="bare nan= replacement is read in the array's current unit")
unary("np.fix", np.fix, [{}], [(4,), (2, 3)], noncov="rounding to integers is not scale-covariant")
unary("np.around", np.around, [{}, {"decimals": 1}, {"decimals": -1}], [(), (4,), (2, 3)], noncov="rounding is not scale-covariant")
unary("np.round", np.round, [{}, {"decimals": 1}], [(4,), (2, 3)], noncov="rounding is not scale-covariant")
with_out("np.around", np.around, {"decimals": 1}, (4,), (4,), noncov="rounding is not scale-covariant")
unary("np.sinc", np.sinc, [{}], [(4,)], cls="bare", noncov="documented to ignore units (transcendental)")
unary("np.i0", np.i0, [{}], [(4,)], cls="bare", noncov="transcendental; behaviour intentionally left to NumPy's default")
unary("np.unwrap", np.unwrap, [{}, {"axis": 0}], [(4,), (2, 3)], gen="angle", noncov="default period 2*pi is a bare number read in the array's unit")
T("np.unwrap", "period-q|(4,)", lambda p, per: np.unwrap(p, period=per), {"p": I("X", (4,)), "per": I("X", (), "pos")})

# ---- a shape-() result delivered through a 0-d out= buffer (the class of the returned object is still the quantity) ----
for name in ("sum", "max", "min", "mean", "median", "nansum", "nanmax", "std", "ptp", "nanmean"):
    with_out("np." + name, getattr(np, name), {}, (4,), ())
    with_out("np." + name, getattr(np, name), {"axis": None}, (2, 3), ())
with_out("np.percentile", lambda a, out: np.percentile(a, 50, out=out), {}, (4,), ())
with_out("np.quantile", lambda a, out: np.quantile(a, 0.5, out=out), {}, (4,), ())
T("np.take", "out0d,scalar-index|(4,)", lambda a, out: np.take(a, 2, out=out), {"a": I("X", (4,)), "out": I("X", (), "zeros")}, inplace=("out",))
T("ndarray.take", "out0d,scalar-index|(4,)", lambda a, out: a.take(1, out=out), {"a": I("X", (4,)), "out": I("X", (), "zeros")}, inplace=("out",))
T("np.take", "out0d,scalar-index,axis|(2,3)", lambda a, out: np.take(np.take(a, 1, axis=0), 2, out=out), {"a": I("X", (2, 3)), "out": I("X", (), "zeros")}, inplace=("out",))
T("np.trace", "out0d|(3,3)", lambda a, out: np.trace(a, out=out), {"a": I("X", (3, 3)), "out": I("X", (), "zeros")}, inplace=("out",))
T("ndarray.sum", "out0d|(4,)", lambda a, out: a.sum(out=out), {"a": I("X", (4,)), "out": I("X", (), "zeros")}, inplace=("out",))
T("ndarray.max", "out0d|(4,)", lambda a, out: a.max(out=out), {"a": I("X", (4,)), "out": I("X", (), "zeros")}, inplace=("out",))
T("ndarray.mean", "out0d|(4,)", lambda a, out: a.mean(out=out), {"a": I("X", (4,)), "out": I("X", (), "zeros")}, inplace=("out",))
T("np.dot", "out0d|(3,)(3,)", lambda a, b, out: np.dot(a, b, out=out), {"a": I("X", (3,)), "b": I("Y", (3,)), "out": I("X", (), "zeros")}, cls="other", inplace=("out",))

# ---- a quantity-valued start value of a reduction (takes part like an element: convertible on its own) -----------------
for name in ("sum", "max", "min", "nansum", "nanmax", "nanmin"):
    T("np." + name, "initial-q|(4,)", (lambda a, q, f=getattr(np, name): f(a, initial=q)), {"a": I("X", (4,)), "q": I("X", ())})
    T("np." + name, "initial-q,axis0|(2,3)", (lambda a, q, f=getattr(np, name): f(a, axis=0, initial=q)), {"a": I("X", (2, 3)), "q": I("X", ())})
for name in ("add", "maximum", "minimum", "fmax", "fmin", "hypot"):
    T("ufunc." + name + ".reduce", "initial-q|(4,)", (lambda a, q, f=getattr(np, name): f.reduce(a, initial=q)), {"a": I("X", (4,)), "q": I("X", ())}, **({"tol": True} if name == "hypot" else {}))
T("ndarray.sum", "initial-q|(4,)", lambda a, q: a.sum(initial=q), {"a": I("X", (4,)), "q": I("X", ())})
T("ndarray.max", "initial-q|(4,)", lambda a, q: a.max(initial=q), {"a": I("X", (4,)), "q": I("X", ())})

# ---- 0-d inputs with a 0-d out= buffer through the functions that wrap the result themselves (hunt round) -------------
T("np.clip", "out0d|()", lambda a, lo, hi, out: np.clip(a, lo, hi, out=out), {"a": I("X", ()), "lo": I("X", (), "neg"), "hi": I("X", (), "pos"), "out": I("X", (), "zeros")}, inplace=("out",))
T("np.clip", "bare-out0d|()", lambda a, lo, hi, out: np.clip(a, lo, hi, out=out), {"a": I("X", ()), "lo": I("X", (), "neg"), "hi": I("X", (), "pos"), "out": I(None, (), "zeros")}, cls="same", inplace=("out",))
T("np.around", "out0d|()", lambda a, out: np.around(a, 1, out=out), {"a": I("X", ()), "out": I("X", (), "zeros")}, inplace=("out",), noncov="rounding is not scale-covariant")
T("np.around", "bare-out0d|()", lambda a, out: np.around(a, 1, out=out), {"a": I("X", ()), "out": I(None, (), "zeros")}, cls="same", inplace=("out",), noncov="rounding is not scale-covariant")
T("np.choose", "out0d|()", lambda x, y, out: np.choose(1, [x, y], out=out), {"x": I("X", ()), "y": I("X", ()), "out": I("X", (), "zeros")}, inplace=("out",))
T("np.choose", "bare-out0d|()", lambda x, y, out: np.choose(0, [x, y], out=out), {"x": I("X", ()), "y": I("X", ()), "out": I(None, (), "zeros")}, cls="same", inplace=("out",))
T("np.stack", "out|(3,)", lambda x, y, out: np.stack([x, y], out=out), {"x": I("X", (3,)), "y": I("X", (3,)), "out": I("X", (2, 3), "zeros")}, inplace=("out",))
