"""Array-function catalogue core (DESIGN.md Appendix A): template registry, data generators, runner.

A template is a tiny execution   build inputs -> call one NumPy function / ndarray method -> observe.
    T(func, tid, fn, inputs, cls=..., **flags)
      func    "np.sum" / "np.linalg.det" / "ndarray.sum"   (catalogue row the template belongs to)
      tid     template id within the row (names the argument form)
      fn      callable taking the inputs by keyword; works on bare ndarrays and on unyt arrays alike
      inputs  ordered dict  name -> (slot, shape, gen)
                slot  'X','Y','W' : a quantity input of that dimension slot;  None : always bare
                shape tuple;  gen : data generator name (see GENS)
      cls     result class, typed by hand from NumPy's documentation (never from unyt's handlers):
                'same'  result has the dimension of slot X        'bare'  indices/counts/booleans/dtypes
                'other' unit-carrying, dimension depends on args   'string'/'none' (in-place, returns None)
      flags   dts='f' | 'fi' | 'fic'   dtype variants applied to gen 'f' inputs
              inplace=('a',)           inputs the call is allowed to modify
              tol=True                 C07: LAPACK/FFT/LU-backed, compare under tolerance even for dyadic units
              noncov='reason'          C07 first oracle does not apply (mathematically not scale-covariant)
              same_slot='Y'            for cls 'same': the slot whose dimension the result has (default X)
"""

import collections

import numpy as np

Template = collections.namedtuple("Template", "func tid fn inputs cls flags")
TEMPLATES = []


def I(slot, shape, gen="f"):
    return (slot, tuple(shape) if not isinstance(shape, tuple) else shape, gen)


def T(func, tid, fn, inputs, cls="same", **flags):
    TEMPLATES.append(Template(func, tid, fn, collections.OrderedDict(inputs), cls, flags))


# ---- data generators: deterministic functions of (shape, pack, salt) ------------------------------------
def _seq(n, pack, salt):
    i = np.arange(n, dtype=np.int64)
    a = ((i * 37 + 11 * pack + 5 + 7 * salt) % 23 - 11) * 0.5
    b = ((i * 13 + pack + 3 * salt) % 7) * 0.0625
    return a + b + 0.03125 * ((i + salt) % 3)


def g_f(shape, pack, salt):
    n = int(np.prod(shape)) if shape else 1
    return _seq(n, pack, salt).reshape(shape)


def g_pos(shape, pack, salt):
    return np.abs(g_f(shape, pack, salt)) + 0.5


def g_neg(shape, pack, salt):
    return -g_pos(shape, pack, salt) - 0.25


def g_sorted(shape, pack, salt):
    x = g_f(shape, pack, salt)
    return np.sort(x, axis=-1) if x.ndim else x


def g_nan(shape, pack, salt):
    x = g_f(shape, pack, salt).copy()
    if x.size:
        x.reshape(-1)[(pack + salt) % x.size] = np.nan
    return x


def g_dup(shape, pack, salt):
    """values with repetitions (unique/setops) and zeros (trim_zeros, nonzero)"""
    n = int(np.prod(shape)) if shape else 1
    i = np.arange(n, dtype=np.int64)
    return (((i * 5 + pack + salt) % 4) * 1.5 - 1.5).reshape(shape)


def g_spd(shape, pack, salt):
    n = shape[-1]
    a = g_f(shape, pack, salt)
    m = a @ np.swapaxes(a, -1, -2) if a.ndim >= 2 else a
    return m + np.eye(n) * (4.0 * n + 8)


def g_inv(shape, pack, salt):
    """well-conditioned square matrices (diagonally dominant)"""
    a = g_f(shape, pack, salt) * 0.25
    return a + np.eye(shape[-2], shape[-1]) * 8.0


def g_bool(shape, pack, salt):
    n = int(np.prod(shape)) if shape else 1
    i = np.arange(n, dtype=np.int64)
    # (i * 3) % 3 is always 0: that mask was all-True or all-False.  A pattern with runs of both values:
    return (((i * 2 + i // 3 + pack + salt) % 3) != 0).reshape(shape)


def g_idx(shape, pack, salt):
    """small non-negative integer indices in range(3)"""
    n = int(np.prod(shape)) if shape else 1
    i = np.arange(n, dtype=np.int64)
    return ((i * 2 + pack + salt) % 3).reshape(shape)


def g_cplx(shape, pack, salt):
    return g_f(shape, pack, salt) + 1j * g_f(shape, pack + 1, salt + 1)


def g_zeros(shape, pack, salt):
    return np.zeros(shape)


def g_czeros(shape, pack, salt):
    return np.zeros(shape, dtype=complex)


def g_izeros(shape, pack, salt):
    return np.zeros(shape, dtype=np.int64)


def g_nnint(shape, pack, salt):
    return g_idx(shape, pack, salt).astype(np.int64)


def g_angle(shape, pack, salt):
    return g_f(shape, pack, salt) * 0.75


GENS = {
    "f": g_f,
    "pos": g_pos,
    "neg": g_neg,
    "sorted": g_sorted,
    "nan": g_nan,
    "dup": g_dup,
    "spd": g_spd,
    "inv": g_inv,
    "bool": g_bool,
    "idx": g_idx,
    "cplx": g_cplx,
    "zeros": g_zeros,
    "czeros": g_czeros,
    "izeros": g_izeros,
    "nnint": g_nnint,
    "angle": g_angle,
}
CASTABLE = {"f", "dup", "zeros", "sorted"}  # gens that follow the dtype axis


def build_data(t, pack, dt):
    """name -> ndarray (or numpy scalar for shape ()) of bare data for template t."""
    out = collections.OrderedDict()
    for salt, (name, (slot, shape, gen)) in enumerate(t.inputs.items()):
        x = np.asarray(GENS[gen](shape, pack, salt))
        if gen in CASTABLE and slot is not None:
            if dt == "i":
                x = np.round(x * 2).astype(np.int64)
                if gen == "sorted" and x.ndim:
                    x = np.sort(x, axis=-1)
            elif dt == "c":
                x = x + 1j * np.asarray(GENS[gen](shape, pack + 1, salt + 1))
                if gen == "zeros":
                    x = np.zeros(shape, dtype=complex)
        out[name] = x
    return out


# ---- result trees --------------------------------------------------------------------------------------
def tree(res, unyt_array_cls=None):
    """Canonical, comparable form of a result: nested tuples of
    ('arr', ndarray, unit-or-None, classname) / ('val', python value) / ('none',) / ('str', s) / ('other', repr)"""
    if res is None:
        return ("none",)
    if isinstance(res, str):
        return ("str", res)
    if isinstance(res, np.ndarray):
        u = getattr(res, "units", None)
        return ("arr", np.array(res.view(np.ndarray), copy=True), u, type(res).__name__)
    if isinstance(res, (np.generic, int, float, complex, bool)):
        return ("arr", np.asarray(res), None, type(res).__name__)
    if isinstance(res, (tuple, list)):
        return ("seq", tuple(tree(r) for r in res), type(res).__name__)
    if isinstance(res, (np.dtype, type)):
        return ("val", str(res))
    if hasattr(res, "_fields") or hasattr(res, "__dataclass_fields__"):
        try:
            return ("seq", tuple(tree(r) for r in res), type(res).__name__)
        except TypeError:
            pass
    try:
        return ("seq", tuple(tree(r) for r in res), type(res).__name__)
    except TypeError:
        return ("other", repr(res))


def leaves(tr, path=()):
    if tr[0] == "seq":
        for i, c in enumerate(tr[1]):
            yield from leaves(c, path + (i,))
    else:
        yield path, tr


def call(t, kwargs):
    """Run template t; returns ('ok', result) or ('raise', exception)"""
    try:
        return ("ok", t.fn(**kwargs))
    except Exception as e:  # noqa: BLE001
        return ("raise", e)
