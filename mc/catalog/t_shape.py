"""Catalogue part 2: reshaping, joining, splitting, selection, insertion, in-place writers, creation."""

import numpy as np

from .core import I, T
from .t_reduce import unary

# ---- reshaping / data movement (result has the dimension of the input) -----------------------------------
unary("np.reshape", lambda a: np.reshape(a, (3, 2)), [{}], [(2, 3), (6,)])
unary("np.reshape", lambda a: np.reshape(a, (-1,), order="F"), [{}], [(2, 3)])
unary("np.reshape", lambda a: np.reshape(a, ()), [{}], [(1,), (1, 1)])
unary("np.ravel", np.ravel, [{}, {"order": "F"}], [(), (4,), (2, 3)], dts="fic")
unary("np.transpose", np.transpose, [{}], [(), (4,), (2, 3)])
unary("np.transpose", lambda a: np.transpose(a, (1, 0, 2)), [{}], [(2, 1, 3)])
unary("np.permute_dims", lambda a: np.permute_dims(a, (1, 0)), [{}], [(2, 3)])
unary("np.matrix_transpose", np.matrix_transpose, [{}], [(2, 3), (2, 1, 3)])
unary("np.linalg.matrix_transpose", np.linalg.matrix_transpose, [{}], [(2, 3)])
unary("np.swapaxes", lambda a: np.swapaxes(a, 0, 1), [{}], [(2, 3), (2, 1, 3)])
unary("np.moveaxis", lambda a: np.moveaxis(a, 0, -1), [{}], [(2, 3), (2, 1, 3)])
unary("np.rollaxis", lambda a: np.rollaxis(a, 1), [{}], [(2, 3), (2, 1, 3)])
unary("np.squeeze", np.squeeze, [{}], [(1,), (1, 1), (1, 3), (2, 1, 3), (4,)])
unary("np.squeeze", lambda a: np.squeeze(a, axis=1), [{}], [(2, 1, 3)])
unary("np.expand_dims", lambda a: np.expand_dims(a, 0), [{}], [(), (4,), (2, 3)])
unary("np.expand_dims", lambda a: np.expand_dims(a, (0, 2)), [{}], [(4,)])
for name in ("atleast_1d", "atleast_2d", "atleast_3d"):
    unary("np." + name, getattr(np, name), [{}], [(), (4,), (2, 3)])
T("np.atleast_1d", "two|()(4,)", lambda a, b: np.atleast_1d(a, b), {"a": I("X", ()), "b": I("X", (4,))})
unary("np.broadcast_to", lambda a: np.broadcast_to(a, (2, 3)), [{}], [(), (3,), (1, 3)])
T("np.broadcast_arrays", "two|(3,)(2,1)", lambda a, b: np.broadcast_arrays(a, b), {"a": I("X", (3,)), "b": I("X", (2, 1))})
T("np.broadcast_arrays", "mixed|(3,)(2,1)", lambda a, b: np.broadcast_arrays(a, b), {"a": I("X", (3,)), "b": I("Y", (2, 1))}, cls="other")
T("np.meshgrid", "xy|(3,)(2,)", lambda a, b: np.meshgrid(a, b), {"a": I("X", (3,)), "b": I("X", (2,))})
T("np.meshgrid", "ij,sparse|(3,)(2,)", lambda a, b: np.meshgrid(a, b, indexing="ij", sparse=True), {"a": I("X", (3,)), "b": I("Y", (2,))}, cls="other")
unary("np.flip", np.flip, [{}, {"axis": 0}, {"axis": 1}], [(4,), (2, 3)])
unary("np.fliplr", np.fliplr, [{}], [(2, 3)])
unary("np.flipud", np.flipud, [{}], [(4,), (2, 3)])
unary("np.roll", lambda a, **kw: np.roll(a, 1, **kw), [{}, {"axis": 0}, {"axis": 1}], [(4,), (2, 3)])
unary("np.roll", lambda a: np.roll(a, (1, 2), axis=(0, 1)), [{}], [(2, 3)])
unary("np.rot90", np.rot90, [{}, {"k": 2}, {"k": 3, "axes": (1, 0)}], [(2, 3)])
unary("np.repeat", lambda a, **kw: np.repeat(a, 2, **kw), [{}, {"axis": 0}, {"axis": 1}], [(), (4,), (2, 3)])
unary("np.repeat", lambda a: np.repeat(a, [1, 0, 2], axis=1), [{}], [(2, 3)])
unary("np.tile", lambda a: np.tile(a, 2), [{}], [(), (4,), (2, 3)])
unary("np.tile", lambda a: np.tile(a, (2, 1, 2)), [{}], [(2, 3)])
unary("np.resize", lambda a: np.resize(a, (2, 4)), [{}], [(4,), (2, 3)])
unary("np.copy", np.copy, [{}, {"order": "F"}], [(), (4,), (2, 3)], dts="fic")
unary("np.copy", lambda a: np.copy(a, subok=True), [{}], [(), (4,)])
unary("np.astype", lambda a: np.astype(a, np.float32), [{}], [(4,), (2, 3)])
unary("np.astype", lambda a: np.astype(a, np.float64, copy=False), [{}], [(4,)])
unary("np.trim_zeros", np.trim_zeros, [{}, {"trim": "f"}, {"trim": "b"}], [(4,), (6,)], gen="dup")
unary("np.diag", np.diag, [{}, {"k": 1}, {"k": -1}], [(3,), (3, 3), (2, 3)])
unary("np.diagflat", np.diagflat, [{}, {"k": 1}], [(3,), (2, 2)])
unary("np.diagonal", np.diagonal, [{}, {"offset": 1}, {"axis1": 1, "axis2": 0}], [(3, 3), (2, 3)])
unary("np.diagonal", lambda a: np.diagonal(a, 0, 1, 2), [{}], [(2, 3, 3)])
unary("np.linalg.diagonal", np.linalg.diagonal, [{}, {"offset": 1}], [(3, 3), (2, 3, 3)])
unary("np.trace", np.trace, [{}, {"offset": 1}, {"axis1": 1, "axis2": 0}], [(3, 3), (2, 3)], dts="fic")
unary("np.trace", lambda a: np.trace(a, 0, 1, 2), [{}], [(2, 3, 3)])
unary("np.linalg.trace", np.linalg.trace, [{}, {"offset": 1}], [(3, 3), (2, 3, 3)])
T("np.trace", "out|(2,3,3)", lambda a, out: np.trace(a, 0, 1, 2, out=out), {"a": I("X", (2, 3, 3)), "out": I("X", (2,), "zeros")}, inplace=("out",))
unary("np.triu", np.triu, [{}, {"k": 1}, {"k": -1}], [(3, 3), (2, 3)])
unary("np.tril", np.tril, [{}, {"k": 1}, {"k": -1}], [(3, 3), (2, 3)])
for name in ("tril_indices_from", "triu_indices_from", "diag_indices_from"):
    unary("np." + name, getattr(np, name), [{}], [(3, 3)], cls="bare")
unary("np.tril_indices_from", lambda a: np.tril_indices_from(a, k=1), [{}], [(3, 3)], cls="bare")
T("np.unravel_index", "plain", lambda a: np.unravel_index(3, a.shape), {"a": I("X", (2, 3))}, cls="bare")
T("np.ravel_multi_index", "plain", lambda a: np.ravel_multi_index((1, 2), a.shape), {"a": I("X", (2, 3))}, cls="bare")
unary("np.fft.fftshift", np.fft.fftshift, [{}, {"axes": 0}], [(4,), (2, 3)])
unary("np.fft.ifftshift", np.fft.ifftshift, [{}, {"axes": 0}], [(4,), (2, 3)])

# ---- *_like ----------------------------------------------------------------------------------------------
unary("np.zeros_like", np.zeros_like, [{}, {"dtype": np.float32}], [(), (4,), (2, 3)])
unary("np.ones_like", np.ones_like, [{}, {"shape": (2,)}], [(), (4,), (2, 3)], noncov="ones in the array's current unit: bare fill value")
unary("np.full_like", lambda a, **kw: np.full_like(a, 3.0, **kw), [{}, {"dtype": np.float32}], [(4,), (2, 3)], noncov="bare fill value is read in the array's current unit")
T("np.full_like", "fill-q|(4,)", lambda a, v: np.full_like(a, v), {"a": I("X", (4,)), "v": I("X", ())})
unary("np.empty_like", lambda a: np.empty_like(a).shape, [{}], [(4,), (2, 3)], cls="bare")

# ---- joining ---------------------------------------------------------------------------------------------
def join(func, f, shapes_a, shapes_b, kws=({},), **flags):
    for sa, sb in zip(shapes_a, shapes_b):
        for kw in kws:
            T(func, f"{kw or 'plain'}|{sa}{sb}", (lambda a, b, kw=kw, f=f: f([a, b], **kw)), {"a": I("X", sa), "b": I("X", sb)}, **flags)


join("np.concatenate", np.concatenate, [(4,), (2, 3), (2, 3), (0,)], [(3,), (1, 3), (2, 3), (2,)], dts="fic")
join("np.concatenate", np.concatenate, [(2, 3), (2, 3)], [(2, 2), (2, 3)], kws=({"axis": 1}, {"axis": None}))
join("np.concat", np.concat, [(4,), (2, 3)], [(3,), (2, 2)], kws=({"axis": -1},))
T("np.concatenate", "out|(2,)(3,)", lambda a, b, out: np.concatenate([a, b], out=out), {"a": I("X", (2,)), "b": I("X", (3,)), "out": I("X", (5,), "zeros")}, inplace=("out",))
T("np.concatenate", "dtype|(2,)(3,)", lambda a, b: np.concatenate([a, b], dtype=np.float32), {"a": I("X", (2,)), "b": I("X", (3,))})
T("np.concatenate", "tuple3|(2,)(3,)(1,)", lambda a, b, c: np.concatenate((a, b, c)), {"a": I("X", (2,)), "b": I("X", (3,)), "c": I("X", (1,))})
join("np.stack", np.stack, [(3,), (2, 3), ()], [(3,), (2, 3), ()], kws=({}, {"axis": -1}))
join("np.stack", np.stack, [(2, 3)], [(2, 3)], kws=({"axis": 1},))
T("np.stack", "out,axis1|(3,)(3,)", lambda a, b, out: np.stack([a, b], axis=1, out=out), {"a": I("X", (3,)), "b": I("X", (3,)), "out": I("X", (3, 2), "zeros")}, inplace=("out",))
# out= with a result shape that is symmetric under the axis move: a dropped axis= cannot hide behind a shape error
T("np.stack", "out,axis1,sym|(3,)x3", lambda a, b, c, out: np.stack([a, b, c], axis=1, out=out), {"a": I("X", (3,)), "b": I("X", (3,)), "c": I("X", (3,)), "out": I("X", (3, 3), "zeros")}, inplace=("out",))
T("np.stack", "out,axis2,sym|(2,2)x2", lambda a, b, out: np.stack([a, b], axis=2, out=out), {"a": I("X", (2, 2)), "b": I("X", (2, 2)), "out": I("X", (2, 2, 2), "zeros")}, inplace=("out",))
T("np.stack", "out,axis-1,dtype|(2,)x2", lambda a, b, out: np.stack([a, b], axis=-1, out=out, casting="same_kind"), {"a": I("X", (2,)), "b": I("X", (2,)), "out": I("X", (2, 2), "zeros")}, inplace=("out",))
T("np.stack", "axis1,sym|(3,)x3", lambda a, b, c: np.stack([a, b, c], axis=1), {"a": I("X", (3,)), "b": I("X", (3,)), "c": I("X", (3,))})
join("np.vstack", np.vstack, [(3,), (2, 3), ()], [(3,), (1, 3), ()])
join("np.hstack", np.hstack, [(3,), (2, 3), ()], [(2,), (2, 1), ()])
join("np.dstack", np.dstack, [(3,), (2, 3)], [(3,), (2, 3)])
join("np.column_stack", np.column_stack, [(3,), (3, 2)], [(3,), (3,)])
T("np.block", "nested|(2,2)x4", lambda a, b, c, d: np.block([[a, b], [c, d]]), {"a": I("X", (2, 2)), "b": I("X", (2, 1)), "c": I("X", (1, 2)), "d": I("X", (1, 1))})
T("np.block", "flat|(2,)(3,)", lambda a, b: np.block([a, b]), {"a": I("X", (2,)), "b": I("X", (3,))})
for sa, sb, kw in (((4,), (2,), {}), ((2, 3), (1, 3), {"axis": 0}), ((2, 3), (2, 1), {"axis": 1}), ((2, 3), (), {}), ((4,), (), {})):
    T("np.append", f"{kw or 'plain'}|{sa}{sb}", (lambda a, b, kw=kw: np.append(a, b, **kw)), {"a": I("X", sa), "b": I("X", sb)})

# ---- splitting -------------------------------------------------------------------------------------------
unary("np.split", lambda a: np.split(a, 2), [{}], [(4,), (2, 3)])
unary("np.split", lambda a: np.split(a, [1, 2], axis=1), [{}], [(2, 3)])
unary("np.array_split", lambda a: np.array_split(a, 3), [{}], [(4,), (2, 3)])
unary("np.array_split", lambda a: np.array_split(a, 2, axis=1), [{}], [(2, 3)])
unary("np.hsplit", lambda a: np.hsplit(a, 3), [{}], [(2, 3), (3,)])
unary("np.vsplit", lambda a: np.vsplit(a, 2), [{}], [(2, 3)])
unary("np.dsplit", lambda a: np.dsplit(a, 3), [{}], [(2, 1, 3)])
unary("np.unstack", np.unstack, [{}, {"axis": 1}], [(2, 3)])

# ---- selection -------------------------------------------------------------------------------------------
for sh, kw in (((4,), {}), ((2, 3), {}), ((2, 3), {"axis": 1}), ((2, 3), {"axis": 0, "mode": "wrap"}), ((4,), {"mode": "clip"})):
    T("np.take", f"{kw or 'plain'}|{sh}", (lambda a, kw=kw: np.take(a, [0, 3, 1] if kw.get("mode") else [0, 1], **kw)), {"a": I("X", sh)}, dts="fic")
T("np.take", "scalar-index|(4,)", lambda a: np.take(a, 2), {"a": I("X", (4,))})
T("np.take", "positional-axis|(2,3)", lambda a: np.take(a, [2, 0], 1), {"a": I("X", (2, 3))})
T("np.take", "out|(4,)", lambda a, out: np.take(a, [0, 2], out=out), {"a": I("X", (4,)), "out": I("X", (2,), "zeros")}, inplace=("out",))
T("np.take", "out,mode-clip|(2,3)", lambda a, out: np.take(a, [1, 5], axis=1, out=out, mode="clip"), {"a": I("X", (2, 3)), "out": I("X", (2, 2), "zeros")}, inplace=("out",))
T("np.take_along_axis", "axis1|(2,3)", lambda a, i: np.take_along_axis(a, i, axis=1), {"a": I("X", (2, 3)), "i": I(None, (2, 2), "idx")})
T("np.take_along_axis", "axisNone|(4,)", lambda a, i: np.take_along_axis(a, i, axis=None), {"a": I("X", (4,)), "i": I(None, (3,), "idx")})
T("np.compress", "plain|(4,)", lambda a, c: np.compress(c, a), {"a": I("X", (4,)), "c": I(None, (4,), "bool")})
T("np.compress", "axis1|(2,3)", lambda a, c: np.compress(c, a, axis=1), {"a": I("X", (2, 3)), "c": I(None, (3,), "bool")})
T("np.extract", "plain|(2,3)", lambda a, c: np.extract(c, a), {"a": I("X", (2, 3)), "c": I(None, (2, 3), "bool")})
T("np.delete", "int|(4,)", lambda a: np.delete(a, 1), {"a": I("X", (4,))})
T("np.delete", "list,axis1|(2,3)", lambda a: np.delete(a, [0, 2], axis=1), {"a": I("X", (2, 3))})
T("np.delete", "slice,axis0|(2,3)", lambda a: np.delete(a, slice(0, 1), 0), {"a": I("X", (2, 3))})
for sh, vs, kw in (((4,), (), {}), ((4,), (2,), {}), ((2, 3), (3,), {"axis": 0}), ((2, 3), (2,), {"axis": 1})):
    T("np.insert", f"{kw or 'plain'}|{sh}{vs}", (lambda a, v, kw=kw: np.insert(a, 1, v, **kw)), {"a": I("X", sh), "v": I("X", vs)})
T("np.insert", "multi-index|(4,)(2,)", lambda a, v: np.insert(a, [1, 3], v), {"a": I("X", (4,)), "v": I("X", (2,))})
T("np.insert", "bare-value|(4,)", lambda a: np.insert(a, 1, 2.5), {"a": I("X", (4,))}, noncov="bare inserted value is read in the array's current unit")
for sh in ((4,), (2, 3)):
    T("np.where", f"xy|{sh}", lambda c, x, y: np.where(c, x, y), {"c": I(None, sh, "bool"), "x": I("X", sh), "y": I("X", sh)}, dts="fic")
T("np.where", "cond-only|(4,)", lambda x: np.where(x > x.mean()), {"x": I("X", (4,))}, cls="bare")
T("np.where", "broadcast|(2,3)()", lambda c, x, y: np.where(c, x, y), {"c": I(None, (2, 3), "bool"), "x": I("X", (2, 3)), "y": I("X", ())})
T("np.select", "two|(4,)", lambda c1, c2, x, y: np.select([c1, c2], [x, y]), {"c1": I(None, (4,), "bool"), "c2": I(None, (4,), "bool"), "x": I("X", (4,)), "y": I("X", (4,))})
T("np.select", "default-q|(4,)", lambda c1, x, d: np.select([c1], [x], d), {"c1": I(None, (4,), "bool"), "x": I("X", (4,)), "d": I("X", ())})
T("np.select", "default-bare|(4,)", lambda c1, x: np.select([c1], [x], default=7.0), {"c1": I(None, (4,), "bool"), "x": I("X", (4,))}, noncov="bare default is read in the array's current unit")
T("np.choose", "plain|(4,)", lambda i, x, y, z: np.choose(i, [x, y, z]), {"i": I(None, (4,), "idx"), "x": I("X", (4,)), "y": I("X", (4,)), "z": I("X", (4,))})
T("np.choose", "mode-wrap|(4,)", lambda i, x, y: np.choose(i, [x, y], mode="wrap"), {"i": I(None, (4,), "idx"), "x": I("X", (4,)), "y": I("X", (4,))})
T("np.choose", "mode-clip-pos|(4,)", lambda i, x, y: np.choose(i, [x, y], None, "clip"), {"i": I(None, (4,), "idx"), "x": I("X", (4,)), "y": I("X", (4,))})
T("np.choose", "out|(4,)", lambda i, x, y, z, out: np.choose(i, [x, y, z], out=out), {"i": I(None, (4,), "idx"), "x": I("X", (4,)), "y": I("X", (4,)), "z": I("X", (4,)), "out": I("X", (4,), "zeros")}, inplace=("out",))
for sh in ((), (4,), (2, 3)):
    T("np.clip", f"q-bounds|{sh}", lambda a, lo, hi: np.clip(a, lo, hi), {"a": I("X", sh), "lo": I("X", (), "neg"), "hi": I("X", (), "pos")})
T("np.clip", "kw-min-only|(4,)", lambda a, lo: np.clip(a, min=lo), {"a": I("X", (4,)), "lo": I("X", ())})
T("np.clip", "kw-max-only|(4,)", lambda a, hi: np.clip(a, max=hi), {"a": I("X", (4,)), "hi": I("X", ())})
T("np.clip", "array-bounds|(4,)", lambda a, lo, hi: np.clip(a, lo, hi), {"a": I("X", (4,)), "lo": I("X", (4,)), "hi": I("X", (4,), "pos")})
T("np.clip", "out|(4,)", lambda a, lo, hi, out: np.clip(a, lo, hi, out=out), {"a": I("X", (4,)), "lo": I("X", ()), "hi": I("X", (), "pos"), "out": I("X", (4,), "zeros")}, inplace=("out",))
T("np.clip", "bare-bounds|(4,)", lambda a: np.clip(a, -1.0, 2.0), {"a": I("X", (4,))}, noncov="bare bounds are read in the array's current unit")

# ---- in-place writers (return None) ----------------------------------------------------------------------
T("np.copyto", "plain|(4,)", lambda dst, src: np.copyto(dst, src), {"dst": I("X", (4,), "zeros"), "src": I("X", (4,))}, cls="none", inplace=("dst",))
T("np.copyto", "where|(2,3)", lambda dst, src, m: np.copyto(dst, src, where=m), {"dst": I("X", (2, 3)), "src": I("X", (2, 3)), "m": I(None, (2, 3), "bool")}, cls="none", inplace=("dst",))
T("np.copyto", "broadcast|(2,3)(3,)", lambda dst, src: np.copyto(dst, src, casting="same_kind"), {"dst": I("X", (2, 3)), "src": I("X", (3,))}, cls="none", inplace=("dst",))
T("np.put", "plain|(4,)", lambda a, v: np.put(a, [0, 2], v), {"a": I("X", (4,)), "v": I("X", (2,))}, cls="none", inplace=("a",))
T("np.put", "mode-clip|(4,)", lambda a, v: np.put(a, [7, 1], v, mode="clip"), {"a": I("X", (4,)), "v": I("X", (2,))}, cls="none", inplace=("a",))
T("np.put", "mode-wrap-pos|(2,3)", lambda a, v: np.put(a, [7, -1], v, "wrap"), {"a": I("X", (2, 3)), "v": I("X", (2,))}, cls="none", inplace=("a",))
T("np.place", "plain|(2,3)", lambda a, m, v: np.place(a, m, v), {"a": I("X", (2, 3)), "m": I(None, (2, 3), "bool"), "v": I("X", (2,))}, cls="none", inplace=("a",))
T("np.putmask", "plain|(2,3)", lambda a, m, v: np.putmask(a, m, v), {"a": I("X", (2, 3)), "m": I(None, (2, 3), "bool"), "v": I("X", (2,))}, cls="none", inplace=("a",))
T("np.put_along_axis", "axis1|(2,3)", lambda a, i, v: np.put_along_axis(a, i, v, 1), {"a": I("X", (2, 3)), "i": I(None, (2, 1), "idx"), "v": I("X", (2, 1))}, cls="none", inplace=("a",))
T("np.put_along_axis", "axis0-kw|(2,3)", lambda a, i, v: np.put_along_axis(a, i, v, axis=0), {"a": I("X", (3, 2)), "i": I(None, (1, 2), "idx"), "v": I("X", (1, 2))}, cls="none", inplace=("a",))
T("np.fill_diagonal", "scalar-q|(3,3)", lambda a, v: np.fill_diagonal(a, v), {"a": I("X", (3, 3)), "v": I("X", ())}, cls="none", inplace=("a",))
T("np.fill_diagonal", "array,wrap|(4,2)", lambda a, v: np.fill_diagonal(a, v, wrap=True), {"a": I("X", (4, 2)), "v": I("X", (2,))}, cls="none", inplace=("a",))
T("np.fill_diagonal", "bare|(3,3)", lambda a: np.fill_diagonal(a, 2.5), {"a": I("X", (3, 3))}, cls="none", inplace=("a",), noncov="bare value is read in the array's current unit")

# ---- creation from quantities ----------------------------------------------------------------------------
T("np.linspace", "plain", lambda a, b: np.linspace(a, b, 5), {"a": I("X", ()), "b": I("X", (), "pos")})
T("np.linspace", "endpoint-false,retstep", lambda a, b: np.linspace(a, b, num=4, endpoint=False, retstep=True), {"a": I("X", ()), "b": I("X", (), "pos")})
T("np.linspace", "array-ends,axis", lambda a, b: np.linspace(a, b, 3, axis=1), {"a": I("X", (2,)), "b": I("X", (2,), "pos")})
T("np.linspace", "dtype", lambda a, b: np.linspace(a, b, 3, dtype=np.float32), {"a": I("X", ()), "b": I("X", (), "pos")})
T("np.geomspace", "plain", lambda a, b: np.geomspace(a, b, 4), {"a": I("X", (), "pos"), "b": I("X", (), "pos")}, tol=True)
T("np.geomspace", "endpoint-false", lambda a, b: np.geomspace(a, b, num=3, endpoint=False), {"a": I("X", (), "pos"), "b": I("X", (), "pos")}, tol=True)
T("np.logspace", "base-q", lambda b: np.logspace(0.0, 2.0, 3, base=b), {"b": I("X", (), "pos")}, cls="other", noncov="powers of a dimensional base are not scale-covariant")
T("np.logspace", "bare-exponents-unit-arg", lambda a: np.logspace(a, a + a, 3), {"a": I("X", (), "pos")}, cls="other", noncov="exponents must be dimensionless")
for sh, kw in (((4,), {}), ((2, 3), {"mode": "edge"}), ((2, 3), {"mode": "reflect"}), ((4,), {"mode": "wrap"}), ((4,), {"mode": "mean"}), ((4,), {"mode": "linear_ramp"})):
    T("np.pad", f"{kw or 'constant0'}|{sh}", (lambda a, kw=kw: np.pad(a, 1, **kw)), {"a": I("X", sh)})
T("np.pad", "widths|(2,3)", lambda a: np.pad(a, ((1, 0), (0, 2))), {"a": I("X", (2, 3))})
# fill values handed over as quantities (they become elements of the result): one value, a (before, after) pair, per-axis nested pairs
T("np.pad", "constant_values-q|(4,)", lambda a, v: np.pad(a, 1, constant_values=v), {"a": I("X", (4,)), "v": I("X", ())})
T("np.pad", "constant_values-pair|(4,)", lambda a, v, w: np.pad(a, (1, 2), constant_values=(v, w)), {"a": I("X", (4,)), "v": I("X", ()), "w": I("X", ())})
T("np.pad", "constant_values-nested|(2,3)", lambda a, v, w: np.pad(a, 1, constant_values=((v, w), (w, v))), {"a": I("X", (2, 3)), "v": I("X", ()), "w": I("X", ())})
T("np.pad", "constant_values-nested-list|(2,3)", lambda a, v, w: np.pad(a, ((1, 0), (2, 1)), constant_values=[[v, w], [w, v]]), {"a": I("X", (2, 3)), "v": I("X", ()), "w": I("X", ())})
T("np.pad", "end_values-q|(4,)", lambda a, v: np.pad(a, 2, mode="linear_ramp", end_values=v), {"a": I("X", (4,)), "v": I("X", ())})
T("np.pad", "end_values-pair|(4,)", lambda a, v, w: np.pad(a, 2, mode="linear_ramp", end_values=(v, w)), {"a": I("X", (4,)), "v": I("X", ()), "w": I("X", ())})
T("np.pad", "end_values-nested|(2,3)", lambda a, v, w: np.pad(a, 2, mode="linear_ramp", end_values=((v, w), (w, v))), {"a": I("X", (2, 3)), "v": I("X", ()), "w": I("X", ())})
T("np.pad", "constant_values-bare|(4,)", lambda a: np.pad(a, 1, constant_values=5.0), {"a": I("X", (4,))}, noncov="bare constant is read in the array's current unit")

# ---- interpolation, convolution, histograms --------------------------------------------------------------
T("np.interp", "plain|(3,)(4,)", lambda x, xp, fp: np.interp(x, xp, fp), {"x": I("X", (3,)), "xp": I("X", (4,), "sorted"), "fp": I("Y", (4,))}, cls="same", same_slot="Y")
T("np.interp", "scalar-x", lambda x, xp, fp: np.interp(x, xp, fp), {"x": I("X", ()), "xp": I("X", (4,), "sorted"), "fp": I("Y", (4,))}, cls="same", same_slot="Y")
T("np.interp", "bare-fp", lambda x, xp, fp: np.interp(x, xp, fp), {"x": I("X", (3,)), "xp": I("X", (4,), "sorted"), "fp": I(None, (4,))}, cls="bare")
T("np.interp", "left-right-q", lambda x, xp, fp, l, r: np.interp(x * 3, xp, fp, left=l, right=r), {"x": I("X", (3,)), "xp": I("X", (4,), "sorted"), "fp": I("Y", (4,)), "l": I("Y", ()), "r": I("Y", ())}, cls="same", same_slot="Y")
T("np.interp", "period-q", lambda x, xp, fp, p: np.interp(x, xp, fp, period=p), {"x": I("X", (3,)), "xp": I("X", (4,), "sorted"), "fp": I("Y", (4,)), "p": I("X", (), "pos")}, cls="same", same_slot="Y")
for name in ("convolve", "correlate"):
    f = getattr(np, name)
    T("np." + name, "plain|(4,)(3,)", lambda a, v, f=f: f(a, v), {"a": I("X", (4,)), "v": I("Y", (3,))}, cls="other")
    T("np." + name, "mode-same|(4,)(3,)", lambda a, v, f=f: f(a, v, mode="same"), {"a": I("X", (4,)), "v": I("Y", (3,))}, cls="other")
    T("np." + name, "mode-full-pos,bare-v|(4,)(3,)", lambda a, v, f=f: f(a, v, "full"), {"a": I("X", (4,)), "v": I(None, (3,))}, cls="same")
T("np.histogram", "bins4|(6,)", lambda a: np.histogram(a, bins=4), {"a": I("X", (6,))}, cls="other")
T("np.histogram", "range-q|(6,)", lambda a, lo, hi: np.histogram(a, 3, range=(lo, hi)), {"a": I("X", (6,)), "lo": I("X", (), "neg"), "hi": I("X", (), "pos")}, cls="other")
T("np.histogram", "density|(6,)", lambda a: np.histogram(a, bins=3, density=True), {"a": I("X", (6,))}, cls="other")
T("np.histogram", "weights|(6,)", lambda a, w: np.histogram(a, bins=3, weights=w), {"a": I("X", (6,)), "w": I("W", (6,), "pos")}, cls="other")
T("np.histogram", "weights,density|(6,)", lambda a, w: np.histogram(a, bins=3, weights=w, density=True), {"a": I("X", (6,)), "w": I("W", (6,), "pos")}, cls="other")
T("np.histogram", "bin-edges-q|(6,)", lambda a, b: np.histogram(a, bins=b), {"a": I("X", (6,)), "b": I("X", (4,), "sorted")}, cls="other")
T("np.histogram", "range-bare|(6,)", lambda a: np.histogram(a, 3, range=(-2.0, 4.0)), {"a": I("X", (6,))}, cls="other", noncov="bare range is read in the array's current unit")
T("np.histogram_bin_edges", "bins4|(6,)", lambda a: np.histogram_bin_edges(a, bins=4), {"a": I("X", (6,))})
T("np.histogram_bin_edges", "auto|(6,)", lambda a: np.histogram_bin_edges(a, "auto"), {"a": I("X", (6,))})
T("np.histogram2d", "bins3|(6,)", lambda x, y: np.histogram2d(x, y, bins=3), {"x": I("X", (6,)), "y": I("Y", (6,))}, cls="other")
T("np.histogram2d", "density,weights|(6,)", lambda x, y, w: np.histogram2d(x, y, bins=(2, 3), density=True, weights=w), {"x": I("X", (6,)), "y": I("Y", (6,)), "w": I("W", (6,), "pos")}, cls="other")
T("np.histogram2d", "range-q|(6,)", lambda x, y, a, b, c, d: np.histogram2d(x, y, bins=2, range=[[a, b], [c, d]]), {"x": I("X", (6,)), "y": I("Y", (6,)), "a": I("X", (), "neg"), "b": I("X", (), "pos"), "c": I("Y", (), "neg"), "d": I("Y", (), "pos")}, cls="other")
T("np.histogramdd", "range-q|(6,)x2", lambda x, y, a, b, c, d: np.histogramdd((x, y), bins=2, range=[[a, b], [c, d]]), {"x": I("X", (6,)), "y": I("Y", (6,)), "a": I("X", (), "neg"), "b": I("X", (), "pos"), "c": I("Y", (), "neg"), "d": I("Y", (), "pos")}, cls="other")
T("np.logspace", "endpoint,dtype,axis|dimless", lambda a: np.logspace(a, a + 2.0, 3, endpoint=False, dtype=np.float32, axis=0), {"a": I(None, (2,), "pos")}, cls="bare", noncov="bare exponents")
T("np.logspace", "base-q,endpoint,axis|(2,)", lambda b: np.logspace(np.array([0.0, 1.0]), np.array([2.0, 3.0]), 3, endpoint=False, base=b, axis=1), {"b": I("X", (), "pos")}, cls="other", noncov="powers of a dimensional base are not scale-covariant")
T("np.histogramdd", "density,mixed-bare-coordinate|(6,)x2", lambda x, y: np.histogramdd((x, y), bins=2, density=True), {"x": I("X", (6,)), "y": I(None, (6,), "f")}, cls="other")
T("np.histogramdd", "density,bare-first|(6,)x2", lambda x, y: np.histogramdd((y, x), bins=2, density=True), {"x": I("X", (6,)), "y": I(None, (6,), "f")}, cls="other")
T("np.histogram2d", "density,mixed-bare-coordinate|(6,)", lambda x, y: np.histogram2d(x, y, bins=2, density=True), {"x": I("X", (6,)), "y": I(None, (6,), "f")}, cls="other")
T("np.histogramdd", "bins2|(6,)x2", lambda x, y: np.histogramdd((x, y), bins=2), {"x": I("X", (6,)), "y": I("Y", (6,))}, cls="other")
T("np.histogramdd", "density,weights|(6,)x2", lambda x, y, w: np.histogramdd((x, y), bins=2, density=True, weights=w), {"x": I("X", (6,)), "y": I("Y", (6,)), "w": I("W", (6,), "pos")}, cls="other")

# ---- comparison helpers, text, io ------------------------------------------------------------------------
for name in ("allclose", "isclose", "array_equal", "array_equiv"):
    f = getattr(np, name)
    T("np." + name, "self|(4,)", lambda a, f=f: f(a, a.copy()), {"a": I("X", (4,))}, cls="bare")
    T("np." + name, "other|(4,)", lambda a, b, f=f: f(a, b), {"a": I("X", (4,)), "b": I("X", (4,))}, cls="bare")
T("np.isclose", "rtol|(4,)", lambda a: np.isclose(a, a * (1 + 1e-3), rtol=1e-2, atol=0.0), {"a": I("X", (4,))}, cls="bare")
T("np.allclose", "equal_nan|(4,)", lambda a: np.allclose(a, a.copy(), equal_nan=True), {"a": I("X", (4,), "nan")}, cls="bare")
T("np.array_equal", "equal_nan|(4,)", lambda a: np.array_equal(a, a.copy(), equal_nan=True), {"a": I("X", (4,), "nan")}, cls="bare")
for name in ("array_repr", "array_str", "array2string"):
    unary("np." + name, getattr(np, name), [{}], [(4,)], cls="string", noncov="text")
T("np.array2string", "precision|(4,)", lambda a: np.array2string(a, precision=2, separator=";"), {"a": I("X", (4,))}, cls="string", noncov="text")
T("np.array_repr", "precision|(4,)", lambda a: np.array_repr(a, precision=2), {"a": I("X", (4,))}, cls="string", noncov="text")


def _savetxt(a, **kw):
    import io

    s = io.StringIO()
    np.savetxt(s, a, **kw)
    return s.getvalue()


def _save(a):
    import io

    s = io.BytesIO()
    np.save(s, a)
    s.seek(0)
    return np.load(s)


def _savez(a, f):
    import io

    s = io.BytesIO()
    f(s, a=a)
    s.seek(0)
    return np.load(s)["a"]


unary("np.savetxt", _savetxt, [{}, {"fmt": "%.3f", "delimiter": ","}], [(4,), (2, 3)], cls="string", noncov="io")
unary("np.save", _save, [{}], [(4,)], cls="bare", noncov="io: NumPy's default behaviour, units are not stored")
unary("np.savez", lambda a: _savez(a, np.savez), [{}], [(4,)], cls="bare", noncov="io")
unary("np.savez_compressed", lambda a: _savez(a, np.savez_compressed), [{}], [(4,)], cls="bare", noncov="io")

# ---- apply_* ---------------------------------------------------------------------------------------------
unary("np.apply_along_axis", lambda a: np.apply_along_axis(np.sum, 1, a), [{}], [(2, 3)])
unary("np.apply_along_axis", lambda a: np.apply_along_axis(lambda v: v[::-1], 0, a), [{}], [(2, 3)])
unary("np.apply_over_axes", lambda a: np.apply_over_axes(np.sum, a, [0]), [{}], [(2, 3)])
unary("np.apply_over_axes", lambda a: np.apply_over_axes(np.sum, a, (0, 1)), [{}], [(2, 3), (2, 1, 3)])

# negative indices under mode="clip" select element 0 (mode="raise" would select the last): a dropped mode= changes values
T("np.take", "mode-clip-negative|(4,)", lambda a: np.take(a, [-1, 2], mode="clip"), {"a": I("X", (4,))})
T("np.take", "mode-clip-negative,axis1|(2,3)", lambda a: np.take(a, [-2, 1], axis=1, mode="clip"), {"a": I("X", (2, 3))})
T("np.put", "mode-clip-negative|(4,)", lambda a, v: np.put(a, [-1, 2], v, mode="clip"), {"a": I("X", (4,)), "v": I("X", (2,))}, cls="none", inplace=("a",))
T("np.take_along_axis", "negative|(2,3)", lambda a, i: np.take_along_axis(a, i - 2, axis=1), {"a": I("X", (2, 3)), "i": I(None, (2, 2), "idx")})

# ---- explicit range= in unyt's flat spelling [xmin, xmax, ymin, ymax] (NumPy's nested spelling on bare data); both
# coordinates of ONE dimension so that each can be re-expressed on its own -------------------------------------------------
def _rng(a, b, c, d):
    return [a, b, c, d] if hasattr(a, "units") else [[a, b], [c, d]]


_HR = {"a": I("X", (), "neg"), "b": I("X", (), "pos"), "c": I("X", (), "neg"), "d": I("X", (), "pos")}
T("np.histogram2d", "range-flat,same-dim|(6,)", lambda x, y, a, b, c, d: np.histogram2d(x, y, bins=2, range=_rng(a * 8, b * 8, c * 8, d * 8)), dict({"x": I("X", (6,)), "y": I("X", (6,))}, **_HR), cls="other")
T("np.histogramdd", "range-flat,same-dim|(6,)x2", lambda x, y, a, b, c, d: np.histogramdd((x, y), bins=2, range=_rng(a * 8, b * 8, c * 8, d * 8)), dict({"x": I("X", (6,)), "y": I("X", (6,))}, **_HR), cls="other")
_HR2 = {"a": I("X", (), "neg"), "b": I("X", (), "pos"), "c": I("Y", (), "neg"), "d": I("Y", (), "pos")}
T("np.histogram2d", "range-flat|(6,)", lambda x, y, a, b, c, d: np.histogram2d(x, y, bins=2, range=_rng(a * 8, b * 8, c * 8, d * 8)), dict({"x": I("X", (6,)), "y": I("Y", (6,))}, **_HR2), cls="other")
T("np.histogramdd", "range-flat|(6,)x2", lambda x, y, a, b, c, d: np.histogramdd((x, y), bins=2, range=_rng(a * 8, b * 8, c * 8, d * 8)), dict({"x": I("X", (6,)), "y": I("Y", (6,))}, **_HR2), cls="other")
T("np.histogram", "range-q|(6,)", lambda x, a, b: np.histogram(x, bins=3, range=(a * 8, b * 8)), {"x": I("X", (6,)), "a": I("X", (), "neg"), "b": I("X", (), "pos")}, cls="other")

# ---- operands of different dtypes: the computation is NumPy's on the bare data, whatever width the unit-carrying operand has
def _ss_int(a, **kw):
    h = np.sort(a.astype(np.int64))
    return np.searchsorted(h, h.astype(np.float64) * 1.0625, **kw)  # needles just off the integers: a cast to int moves them back


def _ss_f32(a, **kw):
    h = np.sort(a.astype(np.float32))
    return np.searchsorted(h, h.astype(np.float64) * (1 + 2.0**-30), **kw)  # needles between float32 neighbours


def _ss_int_method(a, **kw):
    h = np.sort(a.astype(np.int64))
    return h.searchsorted(h.astype(np.float64) * 1.0625, **kw)


for _kw in ({}, {"side": "right"}):
    T("np.searchsorted", f"int-array,float-needle,{_kw.get('side', 'left')}|(6,)", (lambda a, kw=_kw: _ss_int(a, **kw)), {"a": I("X", (6,))}, cls="bare", noncov="integer truncation of the sorted array is not scale-covariant")
    T("np.searchsorted", f"float32-array,float64-needle,{_kw.get('side', 'left')}|(6,)", (lambda a, kw=_kw: _ss_f32(a, **kw)), {"a": I("X", (6,))}, cls="bare", noncov="float32 rounding of the sorted array is not scale-covariant")
    T("ndarray.searchsorted", f"int-array,float-needle,{_kw.get('side', 'left')}|(6,)", (lambda a, kw=_kw: _ss_int_method(a, **kw)), {"a": I("X", (6,))}, cls="bare", noncov="integer truncation of the sorted array is not scale-covariant")
# the very same object on both sides: NaN still differs from itself
for name in ("array_equal", "array_equiv"):
    T("np." + name, "same-object,nan|(4,)", (lambda a, f=getattr(np, name): f(a, a)), {"a": I("X", (4,), "nan")}, cls="bare")
    T("np." + name, "same-object|(4,)", (lambda a, f=getattr(np, name): f(a, a)), {"a": I("X", (4,))}, cls="bare")
T("np.array_equal", "same-object,nan,equal_nan|(4,)", lambda a: np.array_equal(a, a, equal_nan=True), {"a": I("X", (4,), "nan")}, cls="bare")
T("np.array_equal", "same-object,complex-nan|(4,)", lambda a: np.array_equal(a * (1 + 0j), a * (1 + 0j)) and np.array_equal(a, a), {"a": I("X", (4,), "nan")}, cls="bare")

# ---- reflected operand order: plain data first, quantity second (nearly equal and clearly different elements) -----------
for name in ("allclose", "isclose"):
    f = getattr(np, name)
    T("np." + name, "bare-first,differs|(4,)", lambda a, b, f=f: f(a, b), {"a": I(None, (4,)), "b": I("X", (4,))}, cls="bare", noncov="bare data are read in the quantity's current unit")
    T("np." + name, "bare-first,list,nearly-equal|(4,)", lambda b, f=f: f((np.asarray(b.d if hasattr(b, "d") else b) * (1 + 1e-9)).tolist(), b), {"b": I("X", (4,))}, cls="bare", noncov="bare data are read in the quantity's current unit")
    T("np." + name, "bare-first,one-off|(4,)", lambda b, f=f: f(np.asarray(b.d if hasattr(b, "d") else b) + np.array([0.0, 0.5, 0.0, 0.0]), b), {"b": I("X", (4,))}, cls="bare", noncov="bare data are read in the quantity's current unit")
    T("np." + name, "bare-second,one-off|(4,)", lambda b, f=f: f(b, np.asarray(b.d if hasattr(b, "d") else b) + np.array([0.0, 0.5, 0.0, 0.0])), {"b": I("X", (4,))}, cls="bare", noncov="bare data are read in the quantity's current unit")
# ---- a plain ndarray as out= buffer of functions that accept one ------------------------------------------------------------
T("np.take", "bare-out|(4,)", lambda a, out: np.take(a, [0, 2], out=out), {"a": I("X", (4,)), "out": I(None, (2,), "zeros")}, cls="same", inplace=("out",), noncov="a bare buffer holds the numbers in the input's current unit")
T("np.take", "bare-out,axis,mode|(2,3)", lambda a, out: np.take(a, [1, 5], axis=1, out=out, mode="clip"), {"a": I("X", (2, 3)), "out": I(None, (2, 2), "zeros")}, cls="same", inplace=("out",), noncov="a bare buffer holds the numbers in the input's current unit")
T("ndarray.take", "bare-out|(4,)", lambda a, out: a.take([3, 1], out=out), {"a": I("X", (4,)), "out": I(None, (2,), "zeros")}, cls="same", inplace=("out",), noncov="a bare buffer holds the numbers in the input's current unit")
for name in ("sum", "max", "mean", "cumsum"):
    T("np." + name, "bare-out,axis0|(2,3)", (lambda a, out, f=getattr(np, name): f(a, axis=0, out=out)), {"a": I("X", (2, 3)), "out": I(None, (3,) if name != "cumsum" else (2, 3), "zeros")}, cls="same", inplace=("out",), noncov="a bare buffer holds the numbers in the input's current unit")
T("np.concatenate", "bare-out|(2,)(3,)", lambda a, b, out: np.concatenate([a, b], out=out), {"a": I("X", (2,)), "b": I("X", (3,)), "out": I(None, (5,), "zeros")}, cls="same", inplace=("out",), noncov="a bare buffer holds the numbers in the input's current unit")
T("np.clip", "bare-out|(4,)", lambda a, lo, hi, out: np.clip(a, lo, hi, out=out), {"a": I("X", (4,)), "lo": I("X", ()), "hi": I("X", (), "pos"), "out": I(None, (4,), "zeros")}, cls="same", inplace=("out",), noncov="a bare buffer holds the numbers in the input's current unit")
T("np.around", "bare-out|(4,)", lambda a, out: np.around(a, 1, out=out), {"a": I("X", (4,)), "out": I(None, (4,), "zeros")}, cls="same", inplace=("out",), noncov="rounding is not scale-covariant")
T("np.dot", "bare-out|(2,3)(3,2)", lambda a, b, out: np.dot(a, b, out=out), {"a": I("X", (2, 3)), "b": I("Y", (3, 2)), "out": I(None, (2, 2), "zeros")}, cls="other", inplace=("out",), noncov="a bare buffer holds the numbers in the inputs' current units")
# ---- percentile family with every argument positional ------------------------------------------------------------------------
for name in ("percentile", "quantile", "nanpercentile", "nanquantile"):
    f = getattr(np, name)
    q = 40 if "percentile" in name else 0.4
    T("np." + name, "all-positional,method|(3,5)", (lambda a, out, f=f, q=q: f(a, q, 1, out, False, "nearest")), {"a": I("X", (3, 5)), "out": I("X", (3,), "zeros")}, inplace=("out",))
    T("np." + name, "positional-axis,kw-method|(3,5)", (lambda a, f=f, q=q: f(a, q, 0, method="higher")), {"a": I("X", (3, 5))})
    T("np." + name, "all-positional,keepdims|(3,5)", (lambda a, f=f, q=q: f(a, q, None, None, False, "midpoint", True)), {"a": I("X", (3, 5))})

# ---- np.histogramdd on ONE (N, D) array of N points (hunt round: the handler iterated the rows) --------------------------
T("np.histogramdd", "array-sample|(5,2)", lambda s: np.histogramdd(s, bins=2), {"s": I("X", (5, 2))}, cls="other")
T("np.histogramdd", "array-sample|(3,3)", lambda s: np.histogramdd(s, bins=2), {"s": I("X", (3, 3))}, cls="other")
T("np.histogramdd", "array-sample,density|(6,2)", lambda s: np.histogramdd(s, bins=(2, 3), density=True), {"s": I("X", (6, 2))}, cls="other")
T("np.histogramdd", "array-sample,1d|(6,)", lambda s: np.histogramdd(s, bins=3), {"s": I("X", (6,))}, cls="other")
T("np.histogramdd", "array-sample,weights|(5,2)", lambda s, w: np.histogramdd(s, bins=2, weights=w), {"s": I("X", (5, 2)), "w": I("W", (5,), "pos")}, cls="other")

# ---- limits of np.histogram_bin_edges given as quantities (hunt round: the edges came back in unit**2) ------------------
T("np.histogram_bin_edges", "range-q|(6,)", lambda a, lo, hi: np.histogram_bin_edges(a, bins=3, range=(lo * 8, hi * 8)), {"a": I("X", (6,)), "lo": I("X", (), "neg"), "hi": I("X", (), "pos")})
T("np.histogram_bin_edges", "range-q-positional|(6,)", lambda a, lo, hi: np.histogram_bin_edges(a, 3, (lo * 8, hi * 8)), {"a": I("X", (6,)), "lo": I("X", (), "neg"), "hi": I("X", (), "pos")})
T("np.histogram_bin_edges", "weights|(6,)", lambda a, w: np.histogram_bin_edges(a, bins=3, weights=w), {"a": I("X", (6,)), "w": I("W", (6,), "pos")})
