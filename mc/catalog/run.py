"""Runner for catalogue templates: build bare / unyt inputs, execute, snapshot."""

import numpy as np

from . import core
from . import t_reduce, t_shape, t_linalg, t_methods, t_helpers, t_ufuncs  # noqa: F401  (fill core.TEMPLATES)

import unyt
from unyt import unyt_array, unyt_quantity

TEMPLATES = core.TEMPLATES
_seen = {}
for _i, _t in enumerate(TEMPLATES):
    _k = (_t.func, _t.tid)
    if _k in _seen:  # make template ids unique (needed for replay): suffix the later ones
        _seen[_k] += 1
        TEMPLATES[_i] = _t._replace(tid=_t.tid.replace("|", f"#{_seen[_k]}|", 1) if "|" in _t.tid else _t.tid + f"#{_seen[_k]}")
    else:
        _seen[_k] = 0
assert len({(t.func, t.tid) for t in TEMPLATES}) == len(TEMPLATES)
DTS = {"f": "float64", "i": "int64", "c": "complex128"}


def template_dts(t):
    return t.flags.get("dts", "f")


def mk_bare(data):
    return {k: (v.copy() if v.ndim else v[()]) for k, v in data.items()}


def mk_unyt(t, data, units, registry=None, factors=None, by_name=None):
    """units: slot -> unit (string or Unit); factors: slot -> number the bare data is multiplied by
    (exact rescaling used by C07 so that the physical quantity is unchanged)."""
    out = {}
    for name, (slot, shape, gen) in t.inputs.items():
        v = data[name]
        distinct = bool(slot) and slot.endswith("c")  # "Xc": slot X, but labelled with a separate, equal Unit OBJECT
        slot = slot[0] if slot else slot
        if slot is None or slot not in units or v.dtype.kind == "b" and False:
            out[name] = v.copy() if v.ndim else v[()]
            continue
        x = v.copy()
        if factors and slot in factors and factors[slot] != 1:
            x = x * factors[slot]
        u = units[slot]
        if by_name and name in by_name:
            # this one input re-expressed on its own: (unit, factor)
            u = by_name[name][0]
            x = v.copy() * by_name[name][1] if by_name[name][1] != 1 else v.copy()
        if distinct:
            from unyt.unit_object import Unit as _U

            u = _U(u, registry=registry).copy()
        if x.ndim == 0:
            out[name] = unyt_quantity(x[()], u, registry=registry)
        else:
            out[name] = unyt_array(x, u, registry=registry)
    return out


def snap(kwargs):
    """name -> (bytes-equal-comparable ndarray copy, dtype, unit digest, class)"""
    out = {}
    for k, v in kwargs.items():
        a = np.asarray(v)
        u = getattr(v, "units", None)
        out[k] = (np.array(a, copy=True), str(a.dtype), None if u is None else (str(u.expr), float(u.base_value), str(u.dimensions)), type(v).__name__)
    return out


def same_arr(a, b):
    if a.shape != b.shape or a.dtype != b.dtype:
        return False
    return a.tobytes() == b.tobytes() or bool(np.array_equal(a, b, equal_nan=a.dtype.kind in "fc"))


def execute(t, kwargs):
    import warnings

    with warnings.catch_warnings():
        warnings.simplefilter("ignore")
        st, res = core.call(t, kwargs)
    if st == "ok":
        return st, core.tree(res), res
    return st, res, None
