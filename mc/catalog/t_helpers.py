"""Catalogue part 5: unyt's own array helpers (unyt.array.u*), checked against the NumPy function they wrap."""

import numpy as np

from .core import I, T


def _h(name):
    import unyt.array as ua

    return getattr(ua, name)


def _dispatch(uname, npf):
    """call the unyt helper on unyt input, the NumPy function on bare input"""

    def f(*args, **kw):
        flat = []
        for a in args:
            flat += list(a) if isinstance(a, (list, tuple)) else [a]
        if any(hasattr(x, "units") for x in flat):
            return _h(uname)(*args, **kw)
        return npf(*args, **kw)

    return f


uconcatenate = _dispatch("uconcatenate", np.concatenate)
T("unyt.uconcatenate", "plain|(2,)(3,)", lambda a, b: uconcatenate([a, b]), {"a": I("X", (2,)), "b": I("X", (3,))})
T("unyt.uconcatenate", "axis1|(2,3)(2,2)", lambda a, b: uconcatenate((a, b), axis=1), {"a": I("X", (2, 3)), "b": I("X", (2, 2))})
ucross = _dispatch("ucross", np.cross)
T("unyt.ucross", "plain|(3,)(3,)", lambda a, b: ucross(a, b), {"a": I("X", (3,)), "b": I("Y", (3,))}, cls="other")
T("unyt.ucross", "axis|(3,2)(3,2)", lambda a, b: ucross(a, b, axisa=0, axisb=0, axisc=0), {"a": I("X", (3, 2)), "b": I("Y", (3, 2))}, cls="other")
uintersect1d = _dispatch("uintersect1d", np.intersect1d)
T("unyt.uintersect1d", "plain|(4,)(3,)", lambda a, b: uintersect1d(a, b), {"a": I("X", (4,), "dup"), "b": I("X", (3,), "dup")})
T("unyt.uintersect1d", "assume_unique|(4,)(3,)", lambda a, b: uintersect1d(a, b, assume_unique=True), {"a": I("X", (4,), "sorted"), "b": I("X", (3,), "sorted")})
uunion1d = _dispatch("uunion1d", np.union1d)
T("unyt.uunion1d", "plain|(4,)(3,)", lambda a, b: uunion1d(a, b), {"a": I("X", (4,), "dup"), "b": I("X", (3,), "dup")})
unorm = _dispatch("unorm", np.linalg.norm)
T("unyt.unorm", "plain|(4,)", lambda a: unorm(a), {"a": I("X", (4,))})
T("unyt.unorm", "axis,keepdims|(2,3)", lambda a: unorm(a, axis=1, keepdims=True), {"a": I("X", (2, 3))})
T("unyt.unorm", "ord1|(2,3)", lambda a: unorm(a, ord=1, axis=0), {"a": I("X", (2, 3))})
udot = _dispatch("udot", np.dot)
T("unyt.udot", "plain|(3,)(3,)", lambda a, b: udot(a, b), {"a": I("X", (3,)), "b": I("Y", (3,))}, cls="other")
T("unyt.udot", "matrix|(2,3)(3,2)", lambda a, b: udot(a, b), {"a": I("X", (2, 3)), "b": I("Y", (3, 2))}, cls="other")
uvstack = _dispatch("uvstack", np.vstack)
T("unyt.uvstack", "plain|(3,)(3,)", lambda a, b: uvstack([a, b]), {"a": I("X", (3,)), "b": I("X", (3,))})
uhstack = _dispatch("uhstack", np.hstack)
T("unyt.uhstack", "plain|(3,)(2,)", lambda a, b: uhstack([a, b]), {"a": I("X", (3,)), "b": I("X", (2,))})
T("unyt.uhstack", "2d|(2,3)(2,1)", lambda a, b: uhstack((a, b)), {"a": I("X", (2, 3)), "b": I("X", (2, 1))})
ustack = _dispatch("ustack", np.stack)
T("unyt.ustack", "plain|(3,)(3,)", lambda a, b: ustack([a, b]), {"a": I("X", (3,)), "b": I("X", (3,))})
T("unyt.ustack", "axis1|(3,)x3", lambda a, b, c: ustack([a, b, c], axis=1), {"a": I("X", (3,)), "b": I("X", (3,)), "c": I("X", (3,))})
