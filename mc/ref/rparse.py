"""Independent recursive-descent evaluator for unit expressions.

Grammar (Python operator precedence, as the library documents it):
    expr   := term (('*' | '/') term)*
    term   := '-' term | power
    power  := atom ('**' term)?            (right associative, binds tighter than unary minus)
    atom   := NUMBER | NAME | 'sqrt' '(' expr ')' | '(' expr ')'
Result: RUnit(scale: float, offset: float, dim: RDim, coeff: Fraction|float pure-number part).
The prefix splitter is my own: exact table symbol wins; otherwise 'da' + prefixable, otherwise
one-letter prefix + prefixable.
"""

import math
import re
from fractions import Fraction

from .dims import ONE, RDim

PREFIXES = {
    "Y": Fraction(10) ** 24,
    "Z": Fraction(10) ** 21,
    "E": Fraction(10) ** 18,
    "P": Fraction(10) ** 15,
    "T": Fraction(10) ** 12,
    "G": Fraction(10) ** 9,
    "M": Fraction(10) ** 6,
    "k": Fraction(10) ** 3,
    "h": Fraction(10) ** 2,
    "da": Fraction(10),
    "d": Fraction(1, 10),
    "c": Fraction(1, 100),
    "m": Fraction(1, 1000),
    "µ": Fraction(1, 10**6),
    "u": Fraction(1, 10**6),
    "μ": Fraction(1, 10**6),
    "n": Fraction(1, 10**9),
    "p": Fraction(1, 10**12),
    "f": Fraction(1, 10**15),
    "a": Fraction(1, 10**18),
    "z": Fraction(1, 10**21),
    "y": Fraction(1, 10**24),
}
PREFIX_WORDS = {
    "yotta": "Y", "zetta": "Z", "exa": "E", "peta": "P", "tera": "T", "giga": "G", "mega": "M",
    "kilo": "k", "hecto": "h", "deca": "da", "deci": "d", "centi": "c", "milli": "m",
    "micro": "µ", "nano": "n", "pico": "p", "femto": "f", "atto": "a", "zepto": "z", "yocto": "y",
}  # fmt: skip


class RParseError(Exception):
    pass


class RUnit:
    __slots__ = ("scale", "offset", "dim", "number")

    def __init__(self, scale, dim, offset=0.0, number=False):
        self.scale = scale
        self.dim = dim
        self.offset = offset
        self.number = number  # True for a pure numeric literal (may serve as exponent)

    def __repr__(self):
        return f"RUnit({self.scale!r}, {self.dim!r}, off={self.offset!r})"


def split_prefix(name, table):
    """-> (prefix, base) or None.  Exact table entries never reach here."""
    cands = []
    if name.startswith("da"):
        cands.append(("da", name[2:]))
    elif name[:1] in PREFIXES:
        cands.append((name[:1], name[1:]))
    for p, b in cands:
        row = table.get(b)
        if row is not None and row[3]:
            return p, b
    return None


def resolve(name, table, aliases=None):
    """name -> (scale, RDim, offset).  `table`: symbol -> (scale, RDim, offset, prefixable)."""
    if aliases is not None and name in aliases:
        name = aliases[name]
    row = table.get(name)
    if row is not None:
        return float(row[0]), row[1], float(row[2])
    sp = split_prefix(name, table) if name else None
    if sp is None:
        raise RParseError(f"unknown unit {name!r}")
    p, b = sp
    row = table[b]
    return float(row[0]) * float(PREFIXES[p]), row[1], float(row[2])


_TOKEN = re.compile(
    r"\s*(?:(?P<num>(?:\d+\.\d*|\.\d+|\d+)(?:[eE][+-]?\d+)?)|(?P<name>[^\W\d][\w]*)|(?P<op>\*\*|[*/()\-+]))",
    re.UNICODE,
)


def tokenize(s):
    s = s.replace("%", "percent").replace("°", "deg")
    pos = 0
    out = []
    while pos < len(s):
        if s[pos:].strip() == "":
            break
        m = _TOKEN.match(s, pos)
        if not m:
            raise RParseError(f"bad character at {pos} in {s!r}")
        pos = m.end()
        if m.group("num") is not None:
            out.append(("num", m.group("num")))
        elif m.group("name") is not None:
            out.append(("name", m.group("name")))
        else:
            out.append(("op", m.group("op")))
    return out


class _P:
    def __init__(self, toks, table, aliases):
        self.t = toks
        self.i = 0
        self.table = table
        self.aliases = aliases

    def peek(self):
        return self.t[self.i] if self.i < len(self.t) else (None, None)

    def eat(self, kind=None, val=None):
        k, v = self.peek()
        if k is None or (kind and k != kind) or (val and v != val):
            raise RParseError(f"expected {kind} {val}, got {k} {v}")
        self.i += 1
        return v

    def expr(self):
        left = self.term()
        while self.peek() in (("op", "*"), ("op", "/")):
            op = self.eat()
            right = self.term()
            left = _mul(left, right) if op == "*" else _div(left, right)
        return left

    def term(self):
        if self.peek() == ("op", "-"):
            self.eat()
            x = self.term()
            if not x.number:
                raise RParseError("negated unit")
            return RUnit(-x.scale, ONE, 0.0, True)
        if self.peek() == ("op", "+"):
            self.eat()
            return self.term()
        return self.power()

    def power(self):
        base = self.atom()
        if self.peek() == ("op", "**"):
            self.eat()
            e = self.term()
            if not e.number:
                raise RParseError("exponent is not a number")
            return _pow(base, e.scale)
        return base

    def atom(self):
        k, v = self.peek()
        if k == "num":
            self.eat()
            return RUnit(Fraction(v), ONE, 0.0, True)
        if k == "name":
            self.eat()
            if v == "sqrt" and self.peek() == ("op", "("):
                self.eat()
                x = self.expr()
                self.eat("op", ")")
                return _pow(x, Fraction(1, 2))
            sc, dim, off = resolve(v, self.table, self.aliases)
            return RUnit(sc, dim, off, False)
        if (k, v) == ("op", "("):
            self.eat()
            x = self.expr()
            self.eat("op", ")")
            return x
        raise RParseError(f"unexpected token {k} {v}")


def _num(x):
    return x.scale if x.number else None


def _mul(a, b):
    if a.number and b.number:
        return RUnit(a.scale * b.scale, ONE, 0.0, True)
    off = 0.0
    if a.offset or b.offset:
        # affine units only combine with pure numbers / dimensionless
        if a.offset and b.dim.dimensionless:
            off = a.offset
        elif b.offset and a.dim.dimensionless:
            off = b.offset
        else:
            raise RParseError("offset unit in product")
    return RUnit(float(a.scale) * float(b.scale), a.dim * b.dim, off, False)


def _div(a, b):
    if a.number and b.number:
        return RUnit(Fraction(a.scale) / Fraction(b.scale), ONE, 0.0, True)
    off = 0.0
    if a.offset or b.offset:
        if a.offset and b.dim.dimensionless and not b.offset:
            off = a.offset
        else:
            raise RParseError("offset unit in quotient")
    return RUnit(float(a.scale) / float(b.scale), a.dim / b.dim, off, False)


def _pow(a, e):
    e = Fraction(e)
    if a.number:
        if e.denominator == 1:
            return RUnit(Fraction(a.scale) ** int(e), ONE, 0.0, True)
        return RUnit(Fraction(float(a.scale) ** float(e)), ONE, 0.0, True)
    sc = float(a.scale)
    if e.denominator == 1:
        val = sc ** int(e) if abs(int(e)) < 64 else math.pow(sc, float(e))
    else:
        if sc < 0:
            raise RParseError("fractional power of negative scale")
        val = math.pow(sc, float(e))
    return RUnit(val, a.dim**e, 0.0, False)


def parse(s, table, aliases=None):
    toks = tokenize(s)
    if not toks:
        return RUnit(1.0, ONE, 0.0, False)
    p = _P(toks, table, aliases)
    x = p.expr()
    if p.i != len(toks):
        raise RParseError("trailing tokens")
    if x.number:
        return RUnit(float(x.scale), ONE, 0.0, False)
    return RUnit(float(x.scale), x.dim, x.offset, False)


def table_from_lut(lut):
    """Bridge: unyt lut rows -> reference rows (used when the table is *input data* of a check)."""
    from .dims import dim_of

    return {k: (float(v[0]), dim_of(v[1]), float(v[2]), bool(v[4])) for k, v in lut.items()}
