"""Reference dimensions: a dimension is a dict base-dimension-name -> Fraction exponent.

`dim_of(sympy_expr)` is the only bridge to unyt's representation (it reads exponents off
`as_powers_dict()`), everything else is plain Python.
"""

from fractions import Fraction

BASE = (
    "mass",
    "length",
    "time",
    "temperature",
    "angle",
    "current_mks",
    "luminous_intensity",
    "logarithmic",
)


class RDim(dict):
    """Immutable-by-convention exponent vector."""

    def key(self):
        return tuple(sorted((k, v) for k, v in self.items() if v != 0))

    def __hash__(self):
        return hash(self.key())

    def __eq__(self, other):
        return isinstance(other, dict) and self.key() == RDim(other).key()

    def __ne__(self, other):
        return not self.__eq__(other)

    def __mul__(self, other):
        out = RDim(self)
        for k, v in other.items():
            out[k] = out.get(k, 0) + v
        return out.clean()

    def __truediv__(self, other):
        out = RDim(self)
        for k, v in other.items():
            out[k] = out.get(k, 0) - v
        return out.clean()

    def __pow__(self, p):
        p = Fraction(p)
        return RDim({k: v * p for k, v in self.items()}).clean()

    def clean(self):
        return RDim({k: Fraction(v) for k, v in self.items() if v != 0})

    @property
    def dimensionless(self):
        return not self.key()

    def __repr__(self):
        if not self.key():
            return "1"
        return "*".join(f"{k}^{v}" if v != 1 else k for k, v in self.key())


ONE = RDim()


def D(**kw):
    return RDim({k: Fraction(v) for k, v in kw.items()}).clean()


def dim_of(expr):
    """sympy dimension expression -> RDim (by structure, no unyt tables involved)."""
    import sympy

    if expr is None:
        return None
    expr = sympy.sympify(expr)
    if expr == 1:
        return RDim()
    out = {}
    for base, exp in expr.as_powers_dict().items():
        if base.is_Number:
            if base != 1:
                raise ValueError(f"numeric factor in dimension: {expr}")
            continue
        name = str(base).strip("()")
        if name not in BASE:
            raise ValueError(f"unknown base dimension {name!r} in {expr}")
        e = sympy.nsimplify(exp)
        if not e.is_Rational:
            raise ValueError(f"non-rational exponent in dimension: {expr}")
        out[name] = out.get(name, 0) + Fraction(int(e.p), int(e.q))
    return RDim(out).clean()


# Frequently used derived dimensions (typed from SI definitions).
length = D(length=1)
mass = D(mass=1)
time = D(time=1)
temperature = D(temperature=1)
angle = D(angle=1)
current = D(current_mks=1)
lumint = D(luminous_intensity=1)
logarithmic = D(logarithmic=1)
velocity = length / time
accel = velocity / time
force = mass * accel
energy = force * length
power = energy / time
pressure = force / (length**2)
frequency = ONE / time
area = length**2
volume = length**3
density = mass / volume
charge = current * time
epot = energy / charge
resistance = epot / current
capacitance = charge / epot
mag_flux = epot * time
mag_field = mag_flux / area
inductance = mag_flux / current
solid_angle = angle**2
# Gaussian (cgs) electromagnetic dimensions
charge_cgs = (energy * length) ** Fraction(1, 2)
current_cgs = charge_cgs / time
epot_cgs = energy / charge_cgs
resistance_cgs = epot_cgs / current_cgs
mag_field_cgs = (pressure) ** Fraction(1, 2)  # sqrt(erg/cm^3) = g^1/2 cm^-1/2 s^-1
mag_flux_cgs = mag_field_cgs * area
