"""Independently typed definition table for unyt's 145 table symbols and its physical constants.

Typed by hand from the legal / SI / IAU / CODATA definitions (NOT read from unyt's tables).
Row: name -> (scale_to_SI, RDim, offset, prefixable, class, rel_tol)
Classes (DESIGN.md Appendix D):
  exact       legal/SI definition, 4 eps       exact-rounded  table holds a rounded decimal (tol given)
  codata      published measured value, 2e-4   astro          IAU/NASA nominal or cited source, 1e-3
  convention  number quoted from the cited paper, exact equality
  derived     formula over the library's own constants, evaluated at check time (64 eps)
"""

import math
from fractions import Fraction as F

from . import dims as d

EPS = 2.0**-52
EXACT = 4 * EPS
PI = math.pi

lb = F("0.45359237")
g0 = F("9.80665")
ft = F("0.3048")
inch = F("0.0254")
lbf = lb * g0
gal_US = 231 * inch**3
gal_UK = F("4.54609e-3")
BTU = F("1055.05585262")
deg = PI / 180.0


def fl(x):
    return float(x)


ROWS = {}


def row(name, scale, dim, offset=0.0, prefixable=False, cls="exact", tol=None):
    if tol is None:
        tol = {"exact": EXACT, "codata": 2e-4, "astro": 1e-3, "convention": 0.0, "derived": 64 * EPS}[cls]
    ROWS[name] = (fl(scale), dim, float(offset), prefixable, cls, tol)


# --- SI base and coherent derived units -----------------------------------------------------------
row("m", 1, d.length, prefixable=True)
row("g", F(1, 1000), d.mass, prefixable=True)
row("s", 1, d.time, prefixable=True)
row("K", 1, d.temperature, prefixable=True)
row("rad", 1, d.angle, prefixable=True)
row("A", 1, d.current, prefixable=True)
row("cd", 1, d.lumint, prefixable=True)
row("mol", 6.02214076e23, d.ONE, prefixable=True, cls="codata")
row("J", 1, d.energy, prefixable=True)
row("W", 1, d.power, prefixable=True)
row("Hz", 1, d.frequency, prefixable=True)
row("N", 1, d.force, prefixable=True)
row("C", 1, d.charge, prefixable=True)
row("T", 1, d.mag_field, prefixable=True)
row("Pa", 1, d.pressure, prefixable=True)
row("bar", 10**5, d.pressure, prefixable=True)
row("V", 1, d.epot, prefixable=True)
row("F", 1, d.capacitance, prefixable=True)
row("H", 1, d.inductance, prefixable=True)
row("Ω", 1, d.resistance, prefixable=True)
row("Wb", 1, d.mag_flux, prefixable=True)
row("lm", 1, d.solid_angle * d.lumint, prefixable=True)
row("lx", 1, d.solid_angle * d.lumint / d.area, prefixable=True)
row("Sv", 1, d.energy / d.mass, prefixable=True)
row("L", F(1, 1000), d.volume, prefixable=True)
row("ha", 10**4, d.area)
row("t", 1000, d.mass)
row("Å", F(1, 10**10), d.length)
row("Jy", F(1, 10**26), d.power / d.area / d.frequency, prefixable=True)
row("nt", 1, d.lumint / d.area)
row("sr", 1, d.solid_angle)
row("Np", 1, d.logarithmic, prefixable=True)
row("B", math.log(10) / 2, d.logarithmic, prefixable=True)
# --- CGS ------------------------------------------------------------------------------------------
row("dyn", F(1, 10**5), d.force, prefixable=True)
row("erg", F(1, 10**7), d.energy, prefixable=True)
row("Ba", F(1, 10), d.pressure, prefixable=True)
row("G", math.sqrt(0.1), d.mag_field_cgs, prefixable=True)
row("statC", 10**-4.5, d.charge_cgs, prefixable=True)
row("statA", 10**-4.5, d.current_cgs, prefixable=True)
row("statV", 10**-2.5, d.epot_cgs, prefixable=True)
row("statohm", 100, d.resistance_cgs, prefixable=True)
row("Mx", 10**-4.5, d.mag_flux_cgs, prefixable=True)
# --- temperature scales ---------------------------------------------------------------------------
row("degC", 1, d.temperature, offset=-273.15, prefixable=True)
row("delta_degC", 1, d.temperature, prefixable=True)
row("degF", F(5, 9), d.temperature, offset=-459.67)
row("delta_degF", F(5, 9), d.temperature)
row("R", F(5, 9), d.temperature)
# --- international yard-pound, US / UK customary --------------------------------------------------
row("mil", inch / 1000, d.length)
row("inch", inch, d.length)
row("ft", ft, d.length)
row("yd", 3 * ft, d.length)
row("mile", 5280 * ft, d.length)
row("nmi", 1852, d.length)
row("furlong", 660 * ft, d.length)
row("smoot", 67 * inch, d.length)
row("mph", 5280 * ft / 3600, d.velocity)
row("kt", F(1852, 3600), d.velocity)
row("acre", 43560 * ft**2, d.area)
row("lb", lb, d.mass)
row("oz", lb / 16, d.mass)
row("ton", 2000 * lb, d.mass)
row("ton_UK", 2240 * lb, d.mass)
row("slug", lbf / ft, d.mass)
row("lbf", lbf, d.force)
row("kip", 1000 * lbf, d.force)
row("atm", 101325, d.pressure)
row("hp", 550 * ft * lbf, d.power)
row("psi", lbf / inch**2, d.pressure)
row("psf", lbf / ft**2, d.pressure)
row("ksi", 1000 * lbf / inch**2, d.pressure)
row("ksf", 1000 * lbf / ft**2, d.pressure)
row("pli", lbf / inch, d.force / d.length)
row("plf", lbf / ft, d.force / d.length)
row("kli", 1000 * lbf / inch, d.force / d.length)
row("klf", 1000 * lbf / ft, d.force / d.length)
row("fl_oz_US", gal_US / 128, d.volume)
row("pt_US", gal_US / 8, d.volume)
row("qt_US", gal_US / 4, d.volume)
row("gal_US", gal_US, d.volume)
row("fl_oz_UK", gal_UK / 160, d.volume)
row("pt_UK", gal_UK / 8, d.volume)
row("qt_UK", gal_UK / 4, d.volume)
row("gal_UK", gal_UK, d.volume)
# --- energy conventions ---------------------------------------------------------------------------
row("cal", F("4.184"), d.energy, prefixable=True)
row("BTU", BTU, d.energy, cls="exact-rounded", tol=1e-6)
row("MMBTU", BTU * 10**6, d.energy, cls="exact-rounded", tol=1e-6)
row("therm", BTU * 10**5, d.energy, cls="exact-rounded", tol=1e-6)
row("quad", BTU * 10**15, d.energy, cls="exact-rounded", tol=1e-6)
row("Wh", 3600, d.energy, prefixable=True)
row("foe", 10**44, d.energy)
row("bethe", 10**44, d.energy)
# --- numbers --------------------------------------------------------------------------------------
row("dimensionless", 1, d.ONE)
row("%", F(1, 100), d.ONE)
row("counts", 1, d.ONE)
row("photons", 1, d.ONE)
# --- time -----------------------------------------------------------------------------------------
row("min", 60, d.time)
row("hr", 3600, d.time)
row("day", 86400, d.time)
row("week", 7 * 86400, d.time)
row("fortnight", 14 * 86400, d.time)
row("yr", F("365.25") * 86400, d.time, prefixable=True)
# --- c, angles ------------------------------------------------------------------------------------
row("c", 299792458, d.velocity)
row("degree", deg, d.angle)
row("arcmin", deg / 60, d.angle)
row("arcsec", deg / 3600, d.angle)
row("mas", deg / 3600 / 1000, d.angle)
row("hourangle", 15 * deg, d.angle)
row("rev", 2 * PI, d.angle)
row("gradian", PI / 200, d.angle)
row("spat", 4 * PI, d.solid_angle)
row("rpm", 2 * PI / 60, d.angle / d.time)
row("lat", -deg, d.angle, offset=90.0)
row("lon", deg, d.angle, offset=-180.0)
row("rayleigh", 1e10 / (4 * PI), d.ONE / (d.solid_angle * d.area * d.time))
row("lambert", 1e4 / PI, d.lumint / d.area)
# --- astronomical lengths (IAU 2012 / 2015 exact definitions; table holds rounded reciprocals) -----
row("AU", 149597870700, d.length, cls="exact-rounded", tol=1e-8)
row("ly", 299792458 * F("365.25") * 86400, d.length, cls="exact-rounded", tol=1e-8)
row("pc", 149597870700 * 648000 / PI, d.length, prefixable=True, cls="exact-rounded", tol=1e-8)
# --- measured ("codata") ----------------------------------------------------------------------------
row("eV", 1.602176634e-19, d.energy, prefixable=True, cls="codata")
row("amu", 1.66053906660e-27, d.mass, cls="codata")
row("me", 9.1093837015e-31, d.mass, cls="codata")
row("mp", 1.67262192369e-27, d.mass, cls="codata")
row("Ry", 2.1798723611035e-18, d.energy, cls="codata")
# --- astro (nominal / cited values) ------------------------------------------------------------------
MSUN = 1.98841e30  # IAU 2015 nominal GM_sun / CODATA G
row("Msun", MSUN, d.mass, cls="astro")
row("Rsun", 6.957e8, d.length, cls="astro")
row("Lsun", 3.828e26, d.power, cls="astro")
row("Tsun", 5772.0, d.temperature, cls="astro")
row("Mjup", MSUN / 1047.3486, d.mass, cls="astro")  # Standish 1995 system mass ratio
row("Mearth", 5.9722e24, d.mass, cls="astro")  # IAU 2015 nominal terrestrial mass (GM_E / G); the Earth alone
row("Rjup", 6.9911e7, d.length, cls="astro")  # volumetric mean radius (NASA fact sheet)
row("Rearth", 6.371008e6, d.length, cls="astro")  # volumetric mean radius
# --- convention --------------------------------------------------------------------------------------
row("Zsun", 0.01295, d.ONE, cls="convention")
row("Zsun_angr", 0.01937, d.ONE, cls="convention")
row("Zsun_aspl", 0.01337, d.ONE, cls="convention")
row("Zsun_feld", 0.01909, d.ONE, cls="convention")
row("Zsun_lodd", 0.01321, d.ONE, cls="convention")

# --- derived rows: evaluated from the library's own constants at check time --------------------------
# name -> (formula over dict of SI constant magnitudes, RDim, prefixable)
DERIVED = {
    "m_pl": (lambda k: math.sqrt(k["hbar"] * k["c"] / k["G"]), d.mass),
    "l_pl": (lambda k: math.sqrt(k["hbar"] * k["G"] / k["c"] ** 3), d.length),
    "t_pl": (lambda k: math.sqrt(k["hbar"] * k["G"] / k["c"] ** 5), d.time),
    "T_pl": (lambda k: math.sqrt(k["hbar"] * k["c"] ** 5 / k["G"]) / k["kb"], d.temperature),
    "q_pl": (lambda k: math.sqrt(4 * PI * k["eps_0"] * k["hbar"] * k["c"]), d.charge),
    "E_pl": (lambda k: math.sqrt(k["hbar"] * k["c"] ** 5 / k["G"]), d.energy),
    "m_geom": (lambda k: k["Msun"], d.mass),
    "l_geom": (lambda k: k["G"] * k["Msun"] / k["c"] ** 2, d.length),
    "t_geom": (lambda k: k["G"] * k["Msun"] / k["c"] ** 3, d.time),
}
DERIVED_TOL = 64 * EPS

# --- physical constants (C15): name -> (SI magnitude, RDim, class) -----------------------------------
CONSTANTS = {
    "me": (9.1093837015e-31, d.mass, "codata"),
    # unyt defines mol as the pure number N_A, so Avogadro's constant (per mol) has SI magnitude 1
    "Na": (1.0, d.ONE, "codata"),
    "mp": (1.67262192369e-27, d.mass, "codata"),
    "mh": (1.007947 * 1.66053906660e-27, d.mass, "codata"),
    "c": (299792458.0, d.velocity, "exact"),
    "σ_T": (6.6524587321e-29, d.area, "codata"),
    "qp": (1.602176634e-19, d.charge, "codata"),
    "qe": (-1.602176634e-19, d.charge, "codata"),
    "kb": (1.380649e-23, d.energy / d.temperature, "codata"),
    "G": (6.67430e-11, d.length**3 / d.mass / d.time**2, "codata"),
    "h": (6.62607015e-34, d.energy * d.time, "codata"),
    "Tcmb": (2.726, d.temperature, "convention"),
    "Msun": (MSUN, d.mass, "astro"),
    "Mjup": (MSUN / 1047.3486, d.mass, "astro"),
    "mercury_mass": (MSUN / 6023600.0, d.mass, "astro"),
    "venus_mass": (MSUN / 408523.71, d.mass, "astro"),
    "Mearth": (5.9722e24, d.mass, "astro"),  # IAU 2015 nominal terrestrial mass (GM_E / G); NOT the Earth+Moon system
    "mars_mass": (MSUN / 3098708.0, d.mass, "astro"),
    "saturn_mass": (MSUN / 3497.898, d.mass, "astro"),
    "uranus_mass": (MSUN / 22902.98, d.mass, "astro"),
    "neptune_mass": (MSUN / 19412.24, d.mass, "astro"),
    "standard_gravity": (9.80665, d.accel, "exact"),
    "mu_0": (4e-7 * PI, d.force / d.current**2, "codata"),
    "eps_0": (8.8541878128e-12, d.charge**2 / d.force / d.area, "codata"),
    "R_inf": (10973731.568160, d.ONE / d.length, "codata-spectroscopic"),
}
# codata-spectroscopic: constants known to 1e-11 or better in every CODATA adjustment since 1986 (all adjustments agree to 2e-9)
CLASS_TOL = {"exact": EXACT, "codata": 2e-4, "astro": 1e-3, "convention": 0.0, "codata-spectroscopic": 1e-8}


def table():
    """symbol -> (scale, RDim, offset, prefixable) for rparse (non-derived rows only)."""
    return {k: (v[0], v[1], v[2], v[3]) for k, v in ROWS.items()}
