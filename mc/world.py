"""Ownership of every piece of process-global hidden state in unyt (DESIGN.md 2.1).

`reset_world()` puts the library back to the state it had right after `import unyt`;
`digest()` returns a canonical, hash-seed independent description of everything a future call can
observe that differs from pristine.  No source change in /repo is needed: every table, memo and
namespace is reachable from the outside.
"""

import hashlib

import unyt  # noqa: F401  (import fills the default registry with prefixed rows)
import unyt.array as _ua
import unyt.unit_object as _uo
import unyt.unit_registry as _ur
import unyt.unit_systems as _us
from unyt._unit_lookup_table import default_unit_symbol_lut

D = _ur.default_unit_registry

LRU_FUNCS = [
    _ua._sqrt_unit,
    _ua._cbrt_unit,
    _ua._multiply_units,
    _ua._preserve_units,
    _ua._difference_units,
    _ua._power_unit,
    _ua._square_unit,
    _ua._divide_units,
    _ua._reciprocal_unit,
    _uo._check_em_conversion,
    _ur.cached_sympify,
]


def _row_digest(row):
    # (base_value, dimensions, offset, tex, prefixable)
    return (repr(float(row[0])), str(row[1]), repr(float(row[2])), str(row[3]), bool(row[4]))


# ---- pristine snapshots, taken at import of this module (right after `import unyt`) -------------
_PRISTINE_DLUT = dict(D.lut)
_PRISTINE_TABLE = dict(default_unit_symbol_lut)
_PRISTINE_CACHE = dict(D._unit_object_cache)
_PRISTINE_SYSTEMS = {
    name: (s, dict(s.units_map), list(s._dims), dict(s.base_units))
    for name, s in _us.unit_system_registry.items()
}
_PRISTINE_UNYT_NAMES = set(vars(unyt))
_PRISTINE_TABLE_DIGEST = hashlib.md5(
    repr(sorted((k, _row_digest(v)) for k, v in _PRISTINE_TABLE.items())).encode()
).hexdigest()


def clear_lru():
    for f in LRU_FUNCS:
        f.cache_clear()


def reset_world(keep_default_cache=True):
    """Restore unyt's global state to what it was right after import.

    keep_default_cache: the default registry's string->Unit memo is restored to its import-time
    content (that *is* the pristine state); pass False to empty it instead (cold start).
    """
    # default registry table: restore in place (other objects hold references to the dict)
    D.lut.clear()
    D.lut.update(_PRISTINE_DLUT)
    default_unit_symbol_lut.clear()
    default_unit_symbol_lut.update(_PRISTINE_TABLE)
    D._unit_object_cache.clear()
    if keep_default_cache:
        D._unit_object_cache.update(_PRISTINE_CACHE)
    D._unit_system_id = None
    clear_lru()
    # unit systems
    reg = _us.unit_system_registry
    for k in list(reg):
        if k not in _PRISTINE_SYSTEMS:
            del reg[k]
    for name, (s, um, dims, bu) in _PRISTINE_SYSTEMS.items():
        reg[name] = s
        s.units_map.clear()
        s.units_map.update(um)
        s._dims[:] = dims
        s.base_units.clear()
        s.base_units.update(bu)
    # names added to the unyt module by define_unit
    for k in list(vars(unyt)):
        if k not in _PRISTINE_UNYT_NAMES:
            delattr(unyt, k)


def lut_delta(lut, base=None):
    """Sorted list of rows of `lut` that differ from `base` (default: the pristine default table)."""
    if base is None:
        base = _PRISTINE_DLUT
    out = []
    for k in sorted(set(lut) | set(base)):
        a = lut.get(k)
        b = base.get(k)
        if a is b:
            continue
        if a is None:
            out.append((k, "absent"))
        elif b is None or _row_digest(a) != _row_digest(b):
            out.append((k, _row_digest(a)))
    return tuple(out)


def unit_digest(u):
    if u is None:
        return None
    return (str(u.expr), repr(float(u.base_value)), repr(float(u.base_offset)), str(u.dimensions))


def cache_digest(reg):
    return tuple(sorted((k, unit_digest(v)) for k, v in reg._unit_object_cache.items()))


def default_table_intact():
    if len(default_unit_symbol_lut) == len(_PRISTINE_TABLE) and all(
        default_unit_symbol_lut.get(k) is v for k, v in _PRISTINE_TABLE.items()
    ):
        return True
    cur = hashlib.md5(
        repr(sorted((k, _row_digest(v)) for k, v in default_unit_symbol_lut.items())).encode()
    ).hexdigest()
    return cur == _PRISTINE_TABLE_DIGEST


def digest(extra_registries=()):
    """Canonical tuple of all readable hidden state (relative to pristine)."""
    parts = [
        ("D.lut", lut_delta(D.lut)),
        ("table_ok", default_table_intact()),
        (
            "D.cache",
            tuple(
                sorted(
                    (k, unit_digest(v))
                    for k, v in D._unit_object_cache.items()
                    if k not in _PRISTINE_CACHE
                )
            ),
        ),
        ("systems", tuple(sorted(k for k in _us.unit_system_registry if k not in _PRISTINE_SYSTEMS))),
        (
            "units_maps",
            tuple(
                (name, tuple(sorted(str(k) for k in s.units_map if k not in um)))
                for name, (s, um, _d, _b) in sorted(_PRISTINE_SYSTEMS.items())
            ),
        ),
        ("names", tuple(sorted(set(vars(unyt)) - _PRISTINE_UNYT_NAMES))),
    ]
    for i, r in enumerate(extra_registries):
        parts.append((f"R{i}.lut", lut_delta(r.lut)))
        parts.append((f"R{i}.cache", cache_digest(r)))
        parts.append((f"R{i}.sysid", r._unit_system_id is not None))
    return tuple(parts)


def tree_digest():
    """md5 of the unyt sources under test (written into replay files)."""
    import os

    h = hashlib.md5()
    root = os.path.dirname(unyt.__file__)
    for fn in sorted(os.listdir(root)):
        if fn.endswith(".py"):
            with open(os.path.join(root, fn), "rb") as f:
                h.update(fn.encode())
                h.update(f.read())
    return h.hexdigest()
