#!/venv/bin/python
"""Runner:  run.py <Cxx> [--tier quick|thorough]      run one check against /repo's working tree
            run.py --replay <replay.json>            re-execute one recorded violation

Exit 0: property held on everything explored (KNOWN-FINDING lines allowed);
exit 1: `VIOLATION property=<id> replay=<path>` printed; exit 2: harness error (not a verdict).
"""

import argparse
import importlib
import json
import os
import sys
import time

HERE = os.path.dirname(os.path.abspath(__file__))
REPO = os.environ.get("VERIF_REPO", "/repo")
PY = "/venv/bin/python"


def _reexec():
    env = dict(os.environ)
    want = {
        "PYTHONHASHSEED": "0",
        "PYTHONDONTWRITEBYTECODE": "1",
        "PYTHONPATH": REPO + os.pathsep + HERE,
        "UNYT_VERIF": "1",
        "OMP_NUM_THREADS": "1",
        "OPENBLAS_NUM_THREADS": "1",
        "MKL_NUM_THREADS": "1",
    }
    if all(env.get(k) == v for k, v in want.items()) and os.path.realpath(
        sys.executable
    ) == os.path.realpath(PY):
        return
    env.update(want)
    env["VERIF_REEXEC"] = "1"
    if os.environ.get("VERIF_REEXEC") == "1":
        return  # never loop
    os.execve(PY, [PY, os.path.abspath(__file__)] + sys.argv[1:], env)


def main():
    _reexec()
    sys.path.insert(0, HERE)
    ap = argparse.ArgumentParser()
    ap.add_argument("prop", nargs="?")
    ap.add_argument("--tier", default=os.environ.get("VERIF_TIER", "quick"))
    ap.add_argument("--replay")
    a = ap.parse_args()
    import warnings

    warnings.simplefilter("ignore")
    import unyt

    if not os.path.realpath(unyt.__file__).startswith(os.path.realpath(REPO)):
        print("HARNESS-ERROR unyt imported from", unyt.__file__)
        return 2
    from mc import harness

    if a.replay:
        with open(a.replay) as f:
            rp = json.load(f)
        mod = importlib.import_module("checks." + rp["property"].lower())
        res = mod.replay(rp["case"])
        keys = [k for k, _ in res]
        if rp["key"] in keys:
            print(f"VIOLATION property={rp['property']} replay={a.replay}")
            for k, d in res:
                if k == rp["key"]:
                    print("  key=" + k)
                    print("  " + json.dumps(harness.jsonable(d))[:600])
            return 1
        print("HOLDS (recorded violation does not reproduce); other keys:", keys[:5])
        return 0
    if not a.prop:
        ap.error("property id required")
    tier = a.tier if a.tier in ("quick", "thorough") else "quick"
    try:
        seed = int(os.environ.get("VERIF_SEED", "0"))
    except ValueError:
        seed = 0
    mod = importlib.import_module("checks." + a.prop.lower())
    ctx = harness.Ctx(a.prop.upper(), tier, seed)
    import glob

    for old in glob.glob(os.path.join(os.environ.get("VERIF_REPLAY_DIR", os.path.join(HERE, "replays")), a.prop.upper(), "*.json")):
        os.remove(old)  # replay files describe the current run only
    t0 = time.time()
    try:
        extra = mod.run(ctx) or {}
    except harness.HarnessError as e:
        print("HARNESS-ERROR", e)
        return 2
    return harness.finish(
        ctx,
        mod,
        t0,
        coverage_extra=extra.get("coverage"),
        assumptions=extra.get("assumptions"),
        exhaustive=extra.get("exhaustive", True),
    )


if __name__ == "__main__":
    sys.exit(main())
