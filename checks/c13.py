"""C13  Registries are isolated from each other and the default registry is read-only.

Explicit-state BFS over interleavings of operations on two custom registries (the second one created fresh, from a
caller-owned table, from JSON, by unpickling, by deepcopy or by Unit.copy(deep=True) of the first) and the default
registry, on the real code.  A reference model keeps one plain table of user edits per registry, changed only by events
addressed to that registry.  In every reached state every registry (and the default one) must resolve a probe set exactly
as its own reference table says, arithmetic done purely inside one registry must use that registry's definitions,
mixed-registry operations must follow the left operand's registry, the unyt namespace and built-in conversions must be
what they were, and modify/remove on the default registry must refuse.
"""

import copy
import itertools
import pickle
import time

import numpy as np

from checks import c12
from mc import explore, harness, world
from mc.ref import dims as rd
from mc.ref import rparse
from mc.ref.dims import dim_of

PROPERTY = "C13"

import unyt
from unyt.exceptions import UnitParseError
from unyt import dimensions as udims
from unyt._unit_lookup_table import default_unit_symbol_lut
from unyt.unit_object import Unit
from unyt.unit_registry import UnitRegistry, default_unit_registry
from unyt.unit_systems import UnitSystem, add_constants, add_symbols

DIMS = {"length": udims.length, "mass": udims.mass, "time": udims.time}
RDIMS = {"length": rd.length, "mass": rd.mass, "time": rd.time}
PROBES = ["foo", "kfoo", "foo/s", "foo**2", "Msun", "kMsun" if False else "Msun/foo", "m", "km", "kg", "bar2"]
ROUTES1 = ["plain", "lut", "cgs"]
DERIVE = ["fresh", "fresh-lut", "json", "pickle", "pickle-pair", "deepcopy", "deepcopy-unit", "unitcopy-deep", "from-quantity-copy", "deepcopy-of-default"]
DERIVE_QUICK = ["fresh", "json", "pickle-pair", "deepcopy", "deepcopy-unit", "deepcopy-of-default"]


def events_for(tier):
    ev = []
    for i in (1, 2):
        ev += [
            ("add", i, "foo", 2.0 + i, "length", True),
            ("modf", i, "foo", 10.0 + i),
            ("rem", i, "foo"),
            ("modf", i, "Msun", (1.0 + i) * 1e30),
            ("unit", i, "kfoo"),
            ("mul", i),
        ]
    ev += [("usys", 1), ("names", 1), ("unit", 1, "foo/s")]
    ev += [("derive", r) for r in (DERIVE if tier == "thorough" else DERIVE_QUICK)]
    ev += [("mixed", 1, 2), ("mixedD", 1), ("Dmod",), ("Drem",), ("toUnit", 1, 2), ("toD", 1), ("define", 2, "zzz")]
    if tier == "thorough":
        ev += [("prt", 1), ("toUnit", 2, 1), ("toD", 2), ("define", 1, "zzz"), ("add", 1, "bar2", 7.0, "time", False), ("add", 2, "m", 5.0, "length", False), ("rem", 2, "Msun"), ("conv", 1), ("conv", 2),
               ("usys", 2), ("names", 2), ("unit", 2, "foo/s"), ("unit", 1, "kMsun"), ("unit", 2, "kMsun"), ("mixed", 2, 1), ("jrt", 1)]
    return ev


PREFIX = (("add", 1, "foo", 3.0, "length", True),)  # registry 1 is born with one user symbol (not counted as a deviation)


def is_edit(ev):
    return ev[0] in ("add", "modf", "rem")


class W:
    pass


def new_registry(route):
    if route in ("plain", "fresh"):
        return UnitRegistry()
    if route in ("lut", "fresh-lut"):
        return UnitRegistry(lut=dict(default_unit_symbol_lut), add_default_symbols=False)
    if route == "cgs":
        return UnitRegistry(unit_system="cgs")
    raise ValueError(route)


def arr(r, s, vals=(1.0, 2.0)):
    return unyt.unyt_array(np.array(vals), s, registry=r)


def derive(w, route):
    r1 = w.regs[1]
    if route in ("fresh", "fresh-lut"):
        return new_registry(route), {}
    if route == "deepcopy-of-default":
        # an independent registry obtained by deep-copying data bound to the DEFAULT registry
        return copy.deepcopy(unyt.unyt_quantity(3.0, "km")).units.registry, {}
    if route == "json":
        r2 = UnitRegistry.from_json(r1.to_json())
    elif route == "pickle":
        q = unyt.unyt_array(np.array([1.0]), "m", registry=r1)
        r2 = pickle.loads(pickle.dumps(q)).units.registry
    elif route == "pickle-pair":
        # two objects bound to registry 1 stored by ONE dumps call: each comes back with a registry of its own
        # (registry 2 and a sibling, registry 3, which no event ever edits)
        q1 = unyt.unyt_array(np.array([1.0]), "m", registry=r1)
        q2 = unyt.unyt_quantity(2.0, "km", registry=r1)
        a, b = pickle.loads(pickle.dumps([q1, q2]))
        r2 = a.units.registry
        w.sibling = b.units.registry
    elif route == "deepcopy":
        r2 = copy.deepcopy(r1)
    elif route == "unitcopy-deep":
        r2 = Unit("m", registry=r1).copy(deep=True).registry
    elif route == "deepcopy-unit":
        r2 = copy.deepcopy(Unit("m", registry=r1)).registry
    elif route == "from-quantity-copy":
        q = unyt.unyt_array(np.array([1.0]), "m", registry=r1)
        r2 = copy.deepcopy(q).units.registry
    else:
        raise ValueError(route)
    # whether the copy carries registry 1's user content faithfully is C11's property; isolation is judged from
    # whatever the new registry holds at birth: its reference table is read off it once, here
    T = {}
    for sym in w.T[1]:
        row = r2.lut.get(sym)
        T[sym] = None if row is None else (float(row[0]), dim_of(row[1]), bool(row[4]))
    return r2, T


def ref_apply(T, ev):
    k = ev[0]
    if k == "add":
        _, _i, sym, v, dimname, pref = ev
        T[sym] = (v, RDIMS[dimname], pref)
        return "ok"
    if k == "modf":
        _, _i, sym, v = ev
        cur = ref_row(T, sym)
        if cur is None:
            return "raise"
        T[sym] = (v, cur[1], cur[2])
        return "ok"
    if k == "rem":
        _, _i, sym = ev
        if ref_row(T, sym) is None:
            return "raise"
        T[sym] = None  # tombstone: removed from this registry (also hides a default symbol)
        return "ok"
    raise ValueError(ev)


def ref_row(T, sym):
    if sym in T:
        return T[sym]
    d = c12.default_ref().get(sym)
    if d is None:
        return None
    return (d[0], d[1], d[3])


def ref_table(T):
    t = dict(c12.default_ref())
    for k, v in T.items():
        if v is None:
            t.pop(k, None)
        else:
            t[k] = (v[0], v[1], 0.0, v[2])
    return t


def resolve_ref(T, s):
    try:
        x = rparse.parse(s, ref_table(T))
    except rparse.RParseError:
        return ("unknown",)
    return ("ok", x.scale, x.offset, x.dim)


def apply_event(w, ev):
    k = ev[0]
    try:
        if k == "derive":
            if 2 in w.regs:
                return "skip"
            w.sibling = None
            w.regs[2], w.T[2] = derive(w, ev[1])
            w.T0[2] = copy.deepcopy(w.T[2])
            w.route2 = ev[1]
            if w.sibling is not None and w.sibling is not w.regs[2]:
                w.regs[3], w.T[3], w.T0[3] = w.sibling, copy.deepcopy(w.T[2]), copy.deepcopy(w.T[2])
            return "ok"
        if k in ("add", "modf", "rem", "unit", "mul", "usys", "names", "conv", "prt", "jrt"):
            i = ev[1]
            if i not in w.regs:
                return "skip"
            r = w.regs[i]
            if k == "add":
                r.add(ev[2], ev[3], DIMS[ev[4]], prefixable=ev[5])
            elif k == "modf":
                r.modify(ev[2], ev[3])
            elif k == "rem":
                r.remove(ev[2])
            elif k == "unit":
                Unit(ev[2], registry=r)
            elif k == "mul":
                a = arr(r, "foo")
                (a * a).to("m**2")
            elif k == "conv":
                arr(r, "foo").to("km")
            elif k == "usys":
                w.n += 1
                UnitSystem(f"us{w.n}_{i}", "km", "g", "s", registry=r)
            elif k == "names":
                ns = {}
                add_symbols(ns, r)
                add_constants(ns, r)
            elif k == "prt":
                pickle.loads(pickle.dumps(arr(r, "foo")))
            elif k == "jrt":
                UnitRegistry.from_json(r.to_json())
            return "ok"
        if k == "mixed":
            i, j = ev[1], ev[2]
            if i not in w.regs or j not in w.regs:
                return "skip"
            a, b = arr(w.regs[i], "foo"), arr(w.regs[j], "foo", (3.0, 4.0))
            a + b
            a * b
            return "ok"
        if k == "toUnit":
            i, j = ev[1], ev[2]
            if i not in w.regs or j not in w.regs:
                return "skip"
            a = arr(w.regs[i], "km")
            a.to(Unit("km", registry=w.regs[j]))
            a.in_units(Unit("m", registry=w.regs[j]))
            a.to_value(Unit("km", registry=w.regs[j]))
            return "ok"
        if k == "toD":
            if ev[1] not in w.regs:
                return "skip"
            a = arr(w.regs[ev[1]], "km")
            a.to(unyt.km)
            a.in_units(unyt.m)
            a.copy().convert_to_units(unyt.km)
            (a * unyt.km).to(unyt.km**2)
            return "ok"
        if k == "define":
            if ev[1] not in w.regs:
                return "skip"
            from unyt.unit_object import define_unit

            define_unit(ev[2], (2.0, "m"), registry=w.regs[ev[1]])
            w.T[ev[1]][ev[2]] = (2.0, RDIMS["length"], False)
            return "ok"
        if k == "mixedD":
            a = arr(w.regs[ev[1]], "Msun")
            b = unyt.unyt_array(np.array([3.0, 4.0]), "Msun")
            a + b
            b + a
            b * a
            return "ok"
        if k == "Dmod":
            default_unit_registry.modify("Msun", 5.0)
            return "ok"
        if k == "Drem":
            default_unit_registry.remove("Msun")
            return "ok"
    except Exception as e:  # noqa: BLE001
        return "raise:" + type(e).__name__
    raise ValueError(ev)


_NS_PROBE = None
_BUILTIN_CONV = None


def namespace_digest():
    out = []
    for n in ("m", "km", "Msun", "kg", "g", "s", "mile", "degC", "J", "erg", "eV", "pc", "G", "me", "mp", "c", "kb", "h", "qp", "Tcmb", "Msun_cgs" if hasattr(unyt, "Msun_cgs") else "mass_sun_cgs"):
        o = getattr(unyt, n, None)
        if o is None:
            continue
        if isinstance(o, Unit):
            out.append((n, world.unit_digest(o)))
        else:
            out.append((n, repr(float(np.asarray(o.d))), world.unit_digest(o.units)))
    return tuple(out)


def builtin_conversions():
    out = []
    for a, b in (("km", "m"), ("Msun", "kg"), ("mile", "km"), ("degC", "K"), ("eV", "J"), ("pc", "ly")):
        out.append(repr(float(unyt.unyt_quantity(1.0, a).to(b).d)))
    return tuple(out)


class System:
    def __init__(self, route1, events):
        self.route1 = route1
        self.events = events

    def build(self, hist):
        global _NS_PROBE, _BUILTIN_CONV
        world.reset_world()
        if _NS_PROBE is None:  # pristine world: remember what the namespace and built-in conversions look like
            _NS_PROBE = namespace_digest()
            _BUILTIN_CONV = builtin_conversions()
        w = W()
        w.regs = {1: new_registry(self.route1)}
        w.T = {1: {}}
        w.T0 = {1: {}}
        w.n = 0
        w.route2 = None
        w.log = []
        w.edit_results = []
        w.derive_index = None
        for idx, ev in enumerate(PREFIX + tuple(hist)):
            got = apply_event(w, ev)
            if ev[0] == "derive" and got == "ok":
                w.derive_index = idx
            if is_edit(ev) and ev[1] in w.T and got != "skip":
                if ev[1] == 2 and w.route2 == "deepcopy-of-default" and ev[0] in ("modf", "rem"):
                    want = "raise"  # a copy of the default registry keeps its class: modify/remove refuse by design
                else:
                    want = ref_apply(w.T[ev[1]], ev)
                w.edit_results.append((ev, want, got, idx))
            w.log.append(got.split(":")[0])
        return w

    def canon(self, w, hist):
        lru = tuple(ev for ev in hist if ev[0] in ("mul", "mixed", "mixedD", "conv", "prt"))
        return (
            tuple((i, tuple(sorted((k, repr(v)) for k, v in T.items()))) for i, T in sorted(w.T.items())),
            tuple((i, world.lut_delta(r.lut, world._PRISTINE_TABLE), world.cache_digest(r)) for i, r in sorted(w.regs.items())),
            w.route2,
            lru,
            tuple(w.log),
            world.digest()[0:4],
        )

    def deviations(self, hist):
        return sum(1 for ev in hist if is_edit(ev))

    def enabled(self, w, hist):
        out = []
        for ev in self.events:
            if ev[0] == "derive" and 2 in w.regs:
                continue
            if ev[0] in ("add", "modf", "rem", "unit", "mul", "usys", "names", "conv", "toD", "define") and ev[1] not in w.regs:
                continue
            if ev[0] == "toUnit" and 2 not in w.regs:
                continue
            if ev[0] == "mixed" and 2 not in w.regs:
                continue
            if ev in hist[-1:] and not is_edit(ev):
                continue
            out.append(ev)
        return out

    def check(self, ctx, w, hist):
        global _NS_PROBE, _BUILTIN_CONV
        ctx.count("evaluations")
        case = {"route1": self.route1, "history": [list(e) for e in hist]}
        last = hist[-1][0] if hist else "none"
        last_target = hist[-1][1] if hist and len(hist[-1]) > 1 and isinstance(hist[-1][1], int) else 0
        # 1. edit outcomes follow the reference
        for ev, want, got, _idx in w.edit_results:
            if (got == "ok") != (want == "ok"):
                ctx.violation(f"C13|edit|kind={ev[0]}|want={want}|mode=edit-outcome-{got.split(':')[0]}", case, want, got)
        # 2. default registry read-only
        for ev, got in zip(PREFIX + tuple(hist), w.log):
            if ev[0] in ("Dmod", "Drem") and got != "raise":
                ctx.violation(f"C13|default|op={ev[0]}|mode=default-registry-accepted-an-edit", case, "refusal", got)
        if world.lut_delta(default_unit_registry.lut) or not world.default_table_intact():
            ctx.violation(f"C13|default|last={last}|mode=default-table-written", case, None, str(world.lut_delta(default_unit_registry.lut))[:200])
        # exported units stay bound to the default registry; each registry's string memo hands out units bound to itself
        for n in ("km", "m", "cm", "hr", "kg"):
            if getattr(unyt, n).registry is not default_unit_registry:
                ctx.violation(f"C13|default|name={n}|last={last}|mode=exported-unit-rebound-to-another-registry", case, "default registry", None)
                break
        for i, r in sorted(w.regs.items()):
            for n in ("km", "m"):
                try:
                    own = Unit(n, registry=r)
                except UnitParseError:
                    continue  # the history made this name unknown here (m re-added as non-prefixable, ...)
                if own.registry is not r:
                    ctx.violation(f"C13|isolation|registry={i}|last={last}@{last_target}|mode=registry's-own-unit-rebound-to-another-registry", dict(case, registry=i), None, None)
                    break
        if set(vars(unyt)) - world._PRISTINE_UNYT_NAMES:
            ctx.violation(f"C13|default|last={last}|mode=name-exported-into-unyt-namespace", case, None, sorted(set(vars(unyt)) - world._PRISTINE_UNYT_NAMES)[:5])
        if namespace_digest() != _NS_PROBE:
            ctx.violation(f"C13|default|last={last}|mode=unyt-namespace-changed", case, None, None)
        if builtin_conversions() != _BUILTIN_CONV:
            ctx.violation(f"C13|default|last={last}|mode=built-in-conversion-changed", case, list(_BUILTIN_CONV), list(builtin_conversions()))
        # 3. every registry resolves its probes as its own reference table says
        for i, r in sorted(w.regs.items()):
            for s in PROBES:
                a = c12.resolve_real(r, s)
                b = resolve_ref(w.T[i], s)
                ctx.decided((self.route1, hist, i, s))
                ctx.outcome(("probe", i, s, a[0], b[0]))
                if not c12.same(a, b):
                    # staleness inside one registry after its own edit is C12's business: only report answers that
                    # cannot be explained by this registry's own history
                    own_edit = any(is_edit(e) and e[1] == i for e in hist)
                    other_edit = any(is_edit(e) and e[1] != i for e in hist)
                    if own_edit and not other_edit and w.route2 in (None, "fresh", "fresh-lut"):
                        ctx.count("own_history_staleness_left_to_C12")
                        continue
                    if _explained_by_own_history(w, i, s, a):
                        ctx.count("own_history_staleness_left_to_C12")
                        continue
                    ctx.violation(
                        f"C13|isolation|registry={i}|route2={w.route2}|probe={c12._pclass(s)}|last={last}@{last_target}|mode=resolution-differs-from-own-table",
                        dict(case, probe=s, registry=i),
                        b,
                        a,
                    )
        # default registry resolves as pristine
        for s in ("Msun", "m", "km", "kMsun" if False else "Msun/m"):
            a = c12.resolve_real(default_unit_registry, s)
            b = resolve_ref({}, s)
            if not c12.same(a, b):
                ctx.violation(f"C13|default|probe={s}|last={last}|mode=default-resolution-changed", case, b, a)
        for s in ("foo", "kfoo"):
            if c12.resolve_real(default_unit_registry, s)[0] != "unknown":
                ctx.violation(f"C13|default|probe={s}|last={last}|mode=user-symbol-visible-in-default-registry", case, "unknown", "resolves")
        # 4. arithmetic purely inside one registry uses that registry's definitions
        for i, r in sorted(w.regs.items()):
            ref = resolve_ref(w.T[i], "foo")
            if ref[0] != "ok" or c12.resolve_real(r, "foo")[0] != "ok":
                continue
            if not c12.same(c12.resolve_real(r, "foo"), ref):
                continue  # already reported / attributed above
            y = None

            def _coords():
                # the one known defect of this kind: the process-wide lru caches of unit arithmetic hand registry i a product unit
                # that is bound to a TWIN registry (one that had an equal table when the entry was cached); such cases are keyed
                # by that cause, every other failure by its full coordinates
                twin = y is not None and any(j != i and y.units.registry is rj for j, rj in w.regs.items())
                return "cause=lru-product-unit-bound-to-a-twin-registry" if twin else f"route2={w.route2}|last={last}@{last_target}"

            try:
                a = arr(r, "foo")
                y = a * a
                got = np.asarray(y.to("foo**2").d, dtype=float)
                got_m = np.asarray(y.to("m**2").d, dtype=float) if ref[3] == rd.length else None
            except Exception as e:  # noqa: BLE001
                ctx.violation(f"C13|arith|registry={i}|{_coords()}|mode=same-registry-arithmetic-fails:{type(e).__name__}", dict(case, registry=i), None, str(e)[:100])
                continue
            # a conversion to a unit system (built-in, or one bound to the OTHER registry) keeps the operand's registry
            others = [x for j, x in sorted(w.regs.items()) if j != i]
            systems = ["mks", "cgs"]
            if others:
                w.n += 1
                try:
                    systems.append(UnitSystem(f"chk{w.n}_{i}", "km", "g", "s", registry=others[0]))
                except Exception:  # noqa: BLE001
                    pass
            if any(c12.resolve_real(r, n)[0] != "ok" for n in ("cm", "km", "g", "kg")):
                systems = []  # the history re-defined the metre / gram as non-prefixable here: cgs and mks cannot be spelled in this registry
            for us in systems:
                try:
                    z = arr(r, "foo/s").in_base(us)
                    back = np.asarray(z.to("foo/s").d, dtype=float)
                    ok = np.allclose(back, [1.0, 2.0], rtol=1e-12)
                    why = back.tolist()
                except Exception as e:  # noqa: BLE001
                    ok, why = False, type(e).__name__ + ": " + str(e)[:80]
                if not ok:
                    ctx.violation(
                        f"C13|arith|registry={i}|route2={w.route2}|system={'other-registry' if not isinstance(us, str) else us}|mode=in_base-result-left-the-operand's-registry",
                        dict(case, registry=i),
                        [1.0, 2.0],
                        why,
                    )
            want = np.array([1.0, 4.0])
            if not np.allclose(got, want, rtol=1e-12) or (got_m is not None and not np.allclose(got_m, want * ref[1] ** 2 / (resolve_ref(w.T[i], "m")[1] ** 2 if resolve_ref(w.T[i], "m")[0] == "ok" else 1.0), rtol=1e-12)):
                ctx.violation(
                    f"C13|arith|registry={i}|{_coords()}|mode=result-bound-to-another-registry",
                    dict(case, registry=i),
                    {"foo**2": want.tolist(), "m**2": (want * ref[1] ** 2).tolist()},
                    {"foo**2": got.tolist(), "m**2": None if got_m is None else got_m.tolist()},
                )
        # 5. mixed operations follow the left operand and write to neither
        if 2 in w.regs:
            r1, r2 = w.regs[1], w.regs[2]
            f1, f2 = resolve_ref(w.T[1], "foo"), resolve_ref(w.T[2], "foo")
            ok1 = f1[0] == "ok" and c12.same(c12.resolve_real(r1, "foo"), f1)
            ok2 = f2[0] == "ok" and c12.same(c12.resolve_real(r2, "foo"), f2)
            if ok1 and ok2 and f1[3] == f2[3]:
                for (ra, fa, la), (rb, fb, lb) in (((r1, f1, 1), (r2, f2, 2)), ((r2, f2, 2), (r1, f1, 1))):
                    before = (world.lut_delta(ra.lut, world._PRISTINE_TABLE), world.lut_delta(rb.lut, world._PRISTINE_TABLE))
                    try:
                        a, b = arr(ra, "foo"), arr(rb, "foo", (3.0, 4.0))
                        s = a + b
                        got = np.asarray(s.to("foo").d, dtype=float)  # by name: must be the LEFT registry's foo
                    except Exception as e:  # noqa: BLE001
                        ctx.count("mixed_refused")
                        continue
                    want = (np.array([1.0, 2.0]) * fa[1] + np.array([3.0, 4.0]) * fb[1]) / fa[1]
                    ctx.decided((self.route1, hist, "mixed", la, lb))
                    # quantity (left registry) times a bare Unit of the other registry: still the left operand's registry
                    try:
                        p = arr(ra, "foo") * Unit("foo", registry=rb)
                        gp = np.asarray(p.to("foo**2").d, dtype=float)
                        wp = np.array([1.0, 2.0]) * fb[1] / fa[1]
                        if not np.allclose(gp, wp, rtol=1e-12):
                            ctx.violation(
                                f"C13|mixed|left={la}|right={lb}|route2={w.route2}|mode=quantity-times-unit-not-in-left-operand's-registry",
                                dict(case, left=la, right=lb),
                                wp.tolist(),
                                gp.tolist(),
                            )
                    except Exception:  # noqa: BLE001
                        ctx.count("mixed_refused")
                    # every product-type spelling (operators, ufuncs, methods, array functions), also with a bare right operand
                    prod_ops = {
                        "a*b": (lambda a, b: a * b, "elem"), "np.multiply": (lambda a, b: np.multiply(a, b), "elem"),
                        "a.dot(b)": (lambda a, b: a.dot(b), "dot"), "np.dot": (lambda a, b: np.dot(a, b), "dot"), "a@b": (lambda a, b: a @ b, "dot"),
                        "np.inner": (lambda a, b: np.inner(a, b), "dot"), "np.vdot": (lambda a, b: np.vdot(a, b), "dot"),
                        "np.outer": (lambda a, b: np.outer(a, b), "outer"), "a/b": (lambda a, b: a / b, "div"),
                    }
                    for oname, (of, okind) in prod_ops.items():
                        for rkind in ("quantity", "bare"):
                            try:
                                a2 = arr(ra, "foo")
                                b2 = arr(rb, "foo", (3.0, 4.0)) if rkind == "quantity" else np.array([3.0, 4.0])
                                res = of(a2, b2)
                            except Exception:  # noqa: BLE001
                                ctx.count("mixed_refused")
                                continue
                            ctx.decided((self.route1, hist, "mixed-product", oname, rkind, la, lb))
                            if isinstance(res, unyt.unyt_array) and okind == "div" and rkind == "quantity":
                                # the quotient of two namesakes (same symbol, other registry) carried on: (a/b)*a is still
                                # a quantity of the LEFT registry, readable by name there
                                try:
                                    gq = np.asarray((res * arr(ra, "foo")).to("foo").d, dtype=float)
                                except Exception as e:  # noqa: BLE001
                                    gq = type(e).__name__
                                wq = np.array([1.0 / 3.0, 1.0]) * fa[1] / fb[1]
                                if isinstance(gq, str) or not np.allclose(gq, wq, rtol=1e-12):
                                    ctx.violation(
                                        f"C13|mixed|op=(a/b)*a|right={rkind}|left={la}|route2={w.route2}|mode=product-not-in-left-operand's-registry",
                                        dict(case, left=la, right=lb, op="(a/b)*a"),
                                        wq.tolist(),
                                        gq if isinstance(gq, str) else gq.tolist(),
                                    )
                            if not isinstance(res, unyt.unyt_array) or okind == "div":
                                continue
                            # judged by behaviour, not identity (registries with identical contents share cached unit objects):
                            # read back BY NAME, the product must be in the left registry's foo
                            base_vals = {"elem": np.array([3.0, 8.0]), "dot": np.array(11.0), "outer": np.array([[3.0, 4.0], [6.0, 8.0]])}[okind]
                            try:
                                if rkind == "quantity":
                                    gotp, wantp = np.asarray(res.to("foo**2").d, dtype=float), base_vals * fb[1] / fa[1]
                                else:
                                    gotp, wantp = np.asarray(res.to("foo").d, dtype=float), base_vals
                            except Exception as e:  # noqa: BLE001
                                gotp, wantp = type(e).__name__, base_vals
                            if isinstance(gotp, str) or not np.allclose(gotp, wantp, rtol=1e-12):
                                ctx.violation(
                                    f"C13|mixed|op={oname}|right={rkind}|left={la}|route2={w.route2}|mode=product-not-in-left-operand's-registry",
                                    dict(case, left=la, right=lb, op=oname),
                                    np.asarray(wantp).tolist(),
                                    gotp if isinstance(gotp, str) else np.asarray(gotp).tolist(),
                                )
                    # an explicitly dimensionless left operand is still the LEFT operand
                    for dname, mkd in (("quantity", lambda: unyt.unyt_quantity(0.5, "", registry=ra)), ("array", lambda: unyt.unyt_array(np.array([0.5, 0.5]), "dimensionless", registry=ra))):  # (Unit * array is implemented as array * Unit: which operand is "left" there is not ours to say)
                        for oname2, of2 in (("*", lambda x, y: x * y), ("np.multiply", lambda x, y: np.multiply(x, y))):
                            if dname == "unit" and oname2 != "*":
                                continue
                            try:
                                res2 = of2(mkd(), arr(rb, "foo", (3.0, 4.0)))
                                g2 = np.asarray(res2.to("foo").d, dtype=float)
                            except Exception as e:  # noqa: BLE001
                                g2 = type(e).__name__
                            w2 = np.array([3.0, 4.0]) * (1.0 if dname == "unit" else 0.5) * fb[1] / fa[1]
                            ctx.decided((self.route1, hist, "mixed-dimless-left", dname, oname2, la, lb))
                            if isinstance(g2, str) or not np.allclose(g2, w2, rtol=1e-12):
                                ctx.violation(
                                    f"C13|mixed|op=dimensionless-{dname}{oname2}b|left={la}|route2={w.route2}|mode=product-not-in-left-operand's-registry",
                                    dict(case, left=la, right=lb),
                                    w2.tolist(),
                                    g2 if isinstance(g2, str) else g2.tolist(),
                                )
                    if not np.allclose(got, want, rtol=1e-12):
                        ctx.violation(
                            f"C13|mixed|left={la}|right={lb}|route2={w.route2}|mode=sum-not-in-left-operand's-registry",
                            dict(case, left=la, right=lb),
                            want.tolist(),
                            got.tolist(),
                        )
                    after = (world.lut_delta(ra.lut, world._PRISTINE_TABLE), world.lut_delta(rb.lut, world._PRISTINE_TABLE))
                    if _user_rows(before) != _user_rows(after):
                        ctx.violation(f"C13|mixed|left={la}|right={lb}|route2={w.route2}|mode=mixed-operation-wrote-a-registry", dict(case, left=la, right=lb), None, None)
        if len(hist) == 2:
            ctx.sample({"route1": self.route1, "history": case["history"], "registries": sorted(w.regs)})


def _user_rows(deltas):
    return tuple(tuple((k, v) for k, v in d if not any(k.startswith(p) for p in ("k", "M", "u", "m", "c", "G", "n")) or k in ("foo", "m", "Msun")) for d in deltas)


def _explained_by_own_history(w, i, s, got):
    """is the observed resolution one that an earlier version of THIS registry's own table would give (C12 staleness)?"""
    return got[0] == "ok" and any(abs(got[1] - v) <= 1e-12 * abs(v) for v in _own_values(w, i, s))


def _own_values(w, i, s, before=None):
    vals = set()
    T = copy.deepcopy(w.T0.get(i, {}))
    r0 = resolve_ref(T, s)
    if r0[0] == "ok":
        vals.add(r0[1])
    for ev, want, gotst, idx in w.edit_results:
        if ev[1] != i or (before is not None and idx >= before):
            continue
        ref_apply(T, ev)
        r = resolve_ref(T, s)
        if r[0] == "ok":
            vals.add(r[1])
    r = resolve_ref({}, s)
    if r[0] == "ok":
        vals.add(r[1])
    if i in (2, 3) and w.route2 not in (None, "fresh", "fresh-lut"):
        # a copy inherits the memo rows (and their staleness) of the registry it was copied from - up to its birth only
        vals |= _own_values(w, 1, s, before=w.derive_index)
    return vals


DEFAULT_PATHS = {
    "default_unit_registry": lambda: default_unit_registry,
    "exported-unit.registry": lambda: unyt.kg.registry,
    "Unit(str).registry": lambda: Unit("km").registry,
    "unit.copy().registry": lambda: unyt.kg.copy().registry,
    "unit.copy(deep=False).registry": lambda: unyt.m.copy(deep=False).registry,
    "copy.copy(unit).registry": lambda: copy.copy(unyt.s).registry,
    "get_base_equivalent().registry": lambda: unyt.km.get_base_equivalent("mks").registry,
    "get_cgs_equivalent().registry": lambda: unyt.km.get_cgs_equivalent().registry,
    "in_base().units.registry": lambda: (3 * unyt.kg).in_base("mks").units.registry,
    "in_units().units.registry": lambda: (3 * unyt.km).to("m").units.registry,
    "product.units.registry": lambda: (unyt.unyt_array(np.array([1.0, 2.0]), "km") * unyt.s).units.registry,
    "copy.copy(registry)": lambda: copy.copy(default_unit_registry),
    "array.copy().units.registry": lambda: unyt.unyt_array(np.array([1.0]), "km").copy().units.registry,
    "simplify().registry": lambda: (unyt.km / unyt.m).simplify().registry,
    "unit**2 .registry": lambda: (unyt.km**2).registry,
}


def part_default_paths(ctx, shard):
    """every way of getting at a registry object from default-bound data: whatever object comes back, modify and remove
    through it refuse (or act on an independent table) and the library's default table stays what it was"""
    for pname in shard:
        for op, sym in itertools.product(("modify", "remove"), ("m", "Msun", "kg")):
            world.reset_world()
            ctx.count("evaluations")
            before = float(Unit("k" + sym if sym == "m" else sym).base_value)
            conv_before = float(unyt.unyt_quantity(1.0, "km").to("m").d)
            try:
                reg = DEFAULT_PATHS[pname]()
            except Exception as e:  # noqa: BLE001
                ctx.count("path_unavailable:" + type(e).__name__)
                continue
            try:
                reg.modify(sym, 2.0) if op == "modify" else reg.remove(sym)
                st = "accepted"
            except Exception as e:  # noqa: BLE001
                st = "raise:" + type(e).__name__
            shares = reg is default_unit_registry or reg.lut is default_unit_registry.lut
            case = {"part": "default-paths", "path": pname, "op": op, "symbol": sym}
            ctx.outcome(("default-path", pname, op, st.split(":")[0], shares))
            ctx.decided(("default-path", pname, op, sym))
            base = f"C13|default-path|path={pname}|op={op}"
            if shares and st == "accepted":
                ctx.violation(base + "|mode=default-table-edited-through-this-object", case, "refusal", st)
            if world.lut_delta(default_unit_registry.lut) or not world.default_table_intact():
                ctx.violation(base + "|mode=default-table-written", case, None, str(world.lut_delta(default_unit_registry.lut))[:160])
            try:
                after = float(Unit("k" + sym if sym == "m" else sym).base_value)
                conv_after = float(unyt.unyt_quantity(1.0, "km").to("m").d)
            except Exception as e:  # noqa: BLE001
                after, conv_after = "raise:" + type(e).__name__, None
            if after != before or conv_after != conv_before:
                ctx.violation(base + "|mode=default-resolution-changed", case, (before, conv_before), (after, conv_after))
    world.reset_world()


def part_edit_arguments(ctx, shard):
    """quantities handed to a registry edit (modify / add / define_unit with a quantity value) are only read: exported
    constants, exported units and quantities bound to ANOTHER registry are what they were, bit for bit"""
    import unyt.physical_constants as pc

    for which in shard:
        world.reset_world()
        other = UnitRegistry()
        other.add("foo", 3.0, DIMS["length"])
        donors = {
            "exported-constant-cgs": lambda: pc.mass_sun_cgs,
            "exported-constant-mks": lambda: pc.clight,
            "top-level-constant": lambda: unyt.G,
            "exported-unit-product": lambda: 5.0 * unyt.km,
            "quantity-of-another-registry": lambda: unyt.unyt_quantity(2.0, "foo", registry=other),
            "held-quantity-cgs": lambda: unyt.unyt_quantity(4.0, "g"),
        }
        q = donors[which]()
        before = (np.array(np.asarray(q.d), copy=True), str(q.units), float(q.units.base_value), q.units.registry)
        for edit in ("modify", "define_unit", "modify-twice"):
            r = UnitRegistry()
            r.add("code_x", 2.0, q.units.dimensions)
            ctx.count("evaluations")
            try:
                if edit == "define_unit":
                    from unyt.unit_object import define_unit

                    define_unit("code_y", q, registry=r)
                else:
                    r.modify("code_x", q)
                    if edit == "modify-twice":
                        r.modify("code_x", q)
            except Exception:  # noqa: BLE001
                ctx.count("edit_refused")
            ctx.decided(("edit-argument", which, edit))
            after = (np.asarray(q.d), str(q.units), float(q.units.base_value), q.units.registry)
            if not np.array_equal(after[0], before[0]) or after[1] != before[1] or after[2] != before[2] or after[3] is not before[3]:
                ctx.violation(f"C13|edit-argument|donor={which}|edit={edit}|mode=argument-of-a-registry-edit-was-changed",
                              {"part": "edit-argument", "donor": which, "edit": edit}, (before[0].tolist(), before[1]), (np.asarray(after[0]).tolist(), after[1]))
        if namespace_digest() != _NS_PROBE or builtin_conversions() != _BUILTIN_CONV:
            ctx.violation(f"C13|edit-argument|donor={which}|mode=exported-names-changed", {"part": "edit-argument", "donor": which}, None, None)
    world.reset_world()


def part_ctor_cross(ctx, shard):
    """constructors handed a Unit OBJECT of one registry together with registry=<another>: the data are bound to the
    registry that was asked for (its table decides what the unit text means from then on), whether or not the two tables
    happen to be equal at that moment"""
    data = np.array([1.0, 2.0])
    for twin, warm, how, edit in shard:
        world.reset_world()
        ra, rb = UnitRegistry(), UnitRegistry()
        ra.add("foo", 3.0, DIMS["length"], prefixable=True)
        rb.add("foo", 3.0 if twin == "identical" else 6.0, DIMS["length"], prefixable=True)
        if warm:
            Unit("km", registry=rb)  # an unrelated earlier parse in the other registry (changes its table, hence its content id)
        fa0, fb0 = 3.0, (3.0 if twin == "identical" else 6.0)
        ctx.count("evaluations")
        arg = Unit("foo", registry=rb)
        try:
            if how == "array(Unit-of-b, registry=a)":
                x, bind, f_created = unyt.unyt_array(data.copy(), arg, registry=ra), "a", fa0
            elif how == "quantity(Unit-of-b, registry=a)":
                x, bind, f_created = unyt.unyt_quantity(2.0, arg, registry=ra), "a", fa0
            elif how == "array(Unit-of-b, registry=a, bypass_validation)":
                # the fast path keeps the unit's own numbers (no re-parse): bound to a, created with b's definition
                x, bind, f_created = unyt.unyt_array(data.copy(), arg, registry=ra, bypass_validation=True), "a", fb0
            elif how == "quantity(Unit-of-b, registry=a, bypass_validation)":
                x, bind, f_created = unyt.unyt_quantity(2.0, arg, registry=ra, bypass_validation=True), "a", fb0
            elif how == "array(exported-unit, registry=a, bypass_validation)":
                from unyt.unit_registry import default_unit_registry as _D

                before = (unyt.km.registry is _D, float((5 * unyt.km).to("m").d))
                ra.modify("m", 2.0)
                unyt.unyt_array(data.copy(), unyt.km, registry=ra, bypass_validation=True)
                unyt.unyt_quantity(1.0, unyt.km, registry=ra, bypass_validation=True)
                after = (unyt.km.registry is _D, float((5 * unyt.km).to("m").d))
                ctx.decided(("ctor-cross", twin, warm, how, edit))
                if after != before:
                    ctx.violation(f"C13|ctor-cross|how={how}|mode=exported-unit-rebound-to-the-custom-registry", {"part": "ctor-cross", "twin": twin, "warm": warm, "how": how, "edit": edit}, before, after)
                    unyt.km.registry = _D  # repair the process-wide object for the cases that follow
                continue
            elif how == "array(str, registry=a)":
                x, bind, f_created = unyt.unyt_array(data.copy(), "foo", registry=ra), "a", fa0
            else:  # array(Unit-of-b)
                x, bind, f_created = unyt.unyt_array(data.copy(), Unit("foo", registry=rb)), "b", fb0
        except Exception as e:  # noqa: BLE001
            ctx.count("ctor_refused:" + type(e).__name__)
            continue
        if edit == "modify-a":
            ra.modify("foo", 12.0)
        elif edit == "modify-b":
            rb.modify("foo", 12.0)
        f_now = {"a": 12.0 if edit == "modify-a" else fa0, "b": 12.0 if edit == "modify-b" else fb0}[bind]
        case = {"part": "ctor-cross", "twin": twin, "warm": warm, "how": how, "edit": edit}
        base = f"C13|ctor-cross|how={how}|tables={twin}|edit={edit}"
        ctx.decided(("ctor-cross", twin, warm, how, edit))
        want_reg = ra if bind == "a" else rb
        if arg.registry is not rb or Unit("foo", registry=rb).registry is not rb:
            ctx.violation(base + "|mode=unit-argument-rebound-to-the-other-registry", case, "b", "a")
            arg.registry = rb
            continue
        if x.units.registry is not want_reg:
            ctx.violation(base + "|mode=bound-to-the-other-registry", case, bind, "other")
            continue
        try:
            got = np.asarray(x.to("foo").d, dtype=float).reshape(-1)
        except Exception as e:  # noqa: BLE001
            ctx.violation(base + f"|mode=by-name-conversion-raises:{type(e).__name__}", case, None, str(e)[:80])
            continue
        want = np.asarray(x.d, dtype=float).reshape(-1) * 0 + (np.array([2.0]) if "quantity" in how else data) * f_created / f_now
        if not np.allclose(got, want, rtol=1e-12):
            ctx.violation(base + "|mode=by-name-conversion-reads-the-other-registry", case, want.tolist(), got.tolist())
    world.reset_world()


def run(ctx):
    t0 = time.time()
    events = events_for(ctx.tier)
    depth, dev, budget = (3, 2, 600) if ctx.tier == "quick" else (4, 3, 1500)
    stats = {}
    capped = False
    for route1 in (ROUTES1 if ctx.tier == "thorough" else ROUTES1[:1]):
        st = explore.explore(ctx, System(route1, events), depth, dev, deadline=t0 + budget)
        stats[route1] = st
        capped = capped or st["bfs_capped"]
    harness.pmap(ctx, part_default_paths, [[p] for p in DEFAULT_PATHS])
    combos = list(itertools.product(("identical", "different"), (False, True),
                                    ("array(Unit-of-b, registry=a)", "quantity(Unit-of-b, registry=a)", "array(str, registry=a)", "array(Unit-of-b)",
                                     "array(Unit-of-b, registry=a, bypass_validation)", "quantity(Unit-of-b, registry=a, bypass_validation)", "array(exported-unit, registry=a, bypass_validation)"),
                                    ("none", "modify-a", "modify-b")))
    harness.pmap(ctx, part_ctor_cross, [combos[i::8] for i in range(8)])
    harness.pmap(ctx, part_edit_arguments, [[d] for d in ("exported-constant-cgs", "exported-constant-mks", "top-level-constant", "exported-unit-product", "quantity-of-another-registry", "held-quantity-cgs")])
    return {
        "coverage": {
            "default_paths": list(DEFAULT_PATHS),
            "rule": "BFS over event histories on two custom registries + the default registry; a state is distinct by canonical digest "
            "(per-registry reference tables, table deltas, string memos, route that created registry 2, lru-touching events); "
            "a decided case = one (state, registry, probe) resolution compared with that registry's own reference table, plus "
            "same-registry arithmetic and mixed-registry sums in every state",
            "registry1_routes": ROUTES1,
            "registry2_routes": DERIVE,
            "events": [list(e) for e in events],
            "probes": PROBES,
            "bfs": stats,
            "states": sum(st["bfs_states"] for st in stats.values()),
        },
        "exhaustive": not capped,
        "assumptions": [
            "staleness of a registry's own memo after its own edit is C12's property: an answer equal to an earlier value of the same registry's table is attributed there and counted",
            "a registry built deliberately on someone else's table (lut=other.lut) or Unit.copy()'s shallow copy is an alias by request and is not created by any route here",
        ],
    }


def replay(case):
    ctx = harness.Ctx(PROPERTY, "quick", 0)
    if case.get("part") == "edit-argument":
        part_edit_arguments(ctx, [case["donor"]])
        return list(ctx.violations.items())
    if case.get("part") == "ctor-cross":
        part_ctor_cross(ctx, [(case["twin"], case["warm"], case["how"], case["edit"])])
        return list(ctx.violations.items())
    if case.get("part") == "default-paths":
        part_default_paths(ctx, [case["path"]])
        return list(ctx.violations.items())
    sysm = System(case["route1"], events_for("thorough"))
    hist = tuple(tuple(e) for e in case["history"])
    w = sysm.build(hist)
    sysm.check(ctx, w, hist)
    return list(ctx.violations.items())
