"""C04  Arithmetic results do not depend on the units the operands are written in.

All expression programs up to depth 2 (depth 3 on a small alphabet in thorough) over the arithmetic
operation alphabet, with every assignment of leaf units from the quantity alphabet, are evaluated on the
real code and by a reference interpreter that works on SI magnitudes with dimensional analysis.
"""

import itertools
import operator
from fractions import Fraction

import numpy as np

from mc import harness, world
from mc.ref.dims import ONE, RDim, dim_of

PROPERTY = "C04"

import unyt
from unyt import dimensions as udims
from unyt import unyt_array, unyt_quantity
from unyt.unit_object import Unit
from unyt.unit_registry import UnitRegistry

EPS = 2.0**-52

# ---- leaves ------------------------------------------------------------------------------------------------
LEAF_UNITS = ["m", "cm", "km", "mile", "s", "hr", "g", "kg", "m/s", "km/hr", "rad", "degree", "dimensionless", "code_length"]
SMALL_LEAVES = ["m", "km", "s", "g", "m/s", "dimensionless"]
PACKS = [((1.5, 2.25, 3.0), (0.5, 4.0, 7.0), (2.75, 0.125, 5.5)), ((7.0, 0.375, 40.0), (1.25, 3.5, 0.625), (9.0, 2.5, 0.75))]


def registry():
    r = UnitRegistry()
    r.add("code_length", 3.2, udims.length)
    return r


class Leaf:
    def __init__(self, unit, slot, pack, shape, reg):
        vals = PACKS[pack][slot % 3]
        self.unit = unit
        if shape == "scalar":
            self.q = unyt_quantity(vals[0], unit, registry=reg if unit == "code_length" else None)
        else:
            self.q = unyt_array(np.array(vals), unit, registry=reg if unit == "code_length" else None)
        self.rv = RV(np.asarray(self.q.d, dtype=float) * float(self.q.units.base_value), dim_of(self.q.units.dimensions))


class RV:
    """reference value: SI magnitudes + dimension + elementwise absolute rounding-error bound."""

    __slots__ = ("si", "dim", "bare", "err")

    def __init__(self, si, dim, bare=False, err=None):
        self.si = np.asarray(si)
        self.dim = dim
        self.bare = bare
        if err is None:
            err = 4 * EPS * np.abs(self.si) if self.si.dtype.kind in "fc" else np.zeros(self.si.shape)
        self.err = np.asarray(err, dtype=float)

    @property
    def mag(self):
        return float(np.max(np.abs(self.si))) if self.si.size and self.si.dtype.kind in "fc" else 0.0


def E(x):
    return 2 * EPS * np.abs(x)


class Invalid(Exception):
    pass


class Fragile(Exception):
    pass


def _same(a, b):
    if a.dim != b.dim:
        raise Invalid
    return a.dim


def _safe(x):
    return np.where(np.abs(x) > 0, np.abs(x), 1.0)


def _near_integer_ratio(a, b):
    with np.errstate(all="ignore"):
        r = np.asarray(a.si, dtype=float) / np.asarray(b.si, dtype=float)
        rerr = a.err / _safe(b.si) + np.abs(a.si) * b.err / _safe(b.si) ** 2
    fin = np.isfinite(r)
    return bool(np.any(np.abs(r - np.round(r))[fin] < (1e-6 * np.maximum(1.0, np.abs(r)) + 16 * rerr)[fin]))


def r_add(a, b):
    r = a.si + b.si
    return RV(r, _same(a, b), err=a.err + b.err + E(r))


def r_sub(a, b):
    r = a.si - b.si
    return RV(r, _same(a, b), err=a.err + b.err + E(r))


def r_mul(a, b):
    r = a.si * b.si
    return RV(r, a.dim * b.dim, err=np.abs(b.si) * a.err + np.abs(a.si) * b.err + E(r))


def r_div(a, b):
    with np.errstate(all="ignore"):
        r = a.si / b.si
        err = a.err / _safe(b.si) + np.abs(a.si) * b.err / _safe(b.si) ** 2 + E(r)
    return RV(r, a.dim / b.dim, err=err)


def r_floordiv(a, b):
    _same(a, b)  # floor-division of different dimensions is outside the claim
    if _near_integer_ratio(a, b):
        raise Fragile
    r = np.floor(a.si / b.si)
    # the integer may come back through a unit coefficient that is 1 only up to rounding (km/hr x s / mile)
    return RV(r, ONE, err=8 * EPS * np.abs(r))


def r_mod(a, b):
    d = _same(a, b)
    if _near_integer_ratio(a, b):
        raise Fragile
    r = np.mod(a.si, b.si)
    n = np.abs(np.floor(a.si / b.si))
    return RV(r, d, err=a.err + n * b.err + E(a.si) + E(n * b.si) + E(r))


def r_fmod(a, b):
    d = _same(a, b)
    if _near_integer_ratio(a, b):
        raise Fragile
    r = np.fmod(a.si, b.si)
    n = np.abs(np.trunc(a.si / b.si))
    return RV(r, d, err=a.err + n * b.err + E(a.si) + E(n * b.si) + E(r))


def r_divmod(a, b):
    return ("tuple", r_floordiv(a, b), r_mod(a, b))


def r_max(a, b):
    return RV(np.maximum(a.si, b.si), _same(a, b), err=np.maximum(a.err, b.err))


def r_min(a, b):
    return RV(np.minimum(a.si, b.si), _same(a, b), err=np.maximum(a.err, b.err))


def r_hypot(a, b):
    r = np.hypot(a.si, b.si)
    return RV(r, _same(a, b), err=a.err + b.err + 2 * E(r))


def r_arctan2(a, b):
    _same(a, b)
    r = np.arctan2(a.si, b.si)
    den = _safe(a.si**2 + b.si**2)
    return RV(r, ONE, err=(np.abs(b.si) * a.err + np.abs(a.si) * b.err) / den + 2 * E(r))


def _fragile_compare(a, b):
    return np.any(np.abs(a.si - b.si) <= 1e-9 * np.maximum(np.abs(a.si), np.abs(b.si)) + 16 * (a.err + b.err))


def r_lt(a, b):
    _same(a, b)
    if _fragile_compare(a, b):
        raise Fragile
    return RV(a.si < b.si, ONE, bare=True)


def r_eq(a, b):
    _same(a, b)
    if _fragile_compare(a, b):
        raise Fragile
    return RV(a.si == b.si, ONE, bare=True)


def r_dot(a, b):
    if a.si.ndim != 1 or b.si.ndim != 1:
        raise Invalid
    r = np.dot(a.si, b.si)
    err = np.sum(np.abs(b.si) * a.err + np.abs(a.si) * b.err) + a.si.size * E(np.sum(np.abs(a.si * b.si)))
    return RV(r, a.dim * b.dim, err=err)


def _pow(p):
    def f(a):
        with np.errstate(all="ignore"):
            r = np.power(a.si, p)
            err = abs(p) * np.abs(r) * a.err / _safe(a.si) + 8 * E(r)
        return RV(r, a.dim ** Fraction(p).limit_denominator(1000), err=np.where(np.isfinite(err), err, 0.0))

    return f


def r_trig(fn):
    def f(a):
        if a.dim != RDim({"angle": 1}):
            raise Invalid
        r = fn(a.si)
        amp = 1.0 + (r**2 if fn is np.tan else 0.0)
        return RV(r, ONE, bare=True, err=amp * (a.err + E(a.si)) + 4 * E(r) + 4 * EPS)

    return f


BINARY = {
    # name: (reference, operator form, ufunc, in-place operator or None)
    "add": (r_add, operator.add, np.add, operator.iadd),
    "sub": (r_sub, operator.sub, np.subtract, operator.isub),
    "mul": (r_mul, operator.mul, np.multiply, operator.imul),
    "div": (r_div, operator.truediv, np.true_divide, operator.itruediv),
    "floordiv": (r_floordiv, operator.floordiv, np.floor_divide, operator.ifloordiv),
    "mod": (r_mod, operator.mod, np.remainder, operator.imod),
    "fmod": (r_fmod, None, np.fmod, None),
    "divmod": (r_divmod, divmod, np.divmod, None),
    "maximum": (r_max, None, np.maximum, None),
    "minimum": (r_min, None, np.minimum, None),
    "fmax": (r_max, None, np.fmax, None),
    "hypot": (r_hypot, None, np.hypot, None),
    "arctan2": (r_arctan2, None, np.arctan2, None),
    "lt": (r_lt, operator.lt, np.less, None),
    "ge": (lambda a, b: RV(~r_lt(a, b).si, ONE, bare=True), operator.ge, np.greater_equal, None),
    "eq": (r_eq, operator.eq, np.equal, None),
    "dot": (r_dot, None, np.dot, None),
    "matmul": (r_dot, operator.matmul, np.matmul, None),
}
INNER_BINARY = ["add", "sub", "mul", "div", "maximum", "hypot", "mod"]
UNARY = {
    "neg": (lambda a: RV(-a.si, a.dim, err=a.err), lambda x: -x),
    "abs": (lambda a: RV(np.abs(a.si), a.dim, err=a.err), lambda x: np.abs(x)),
    "positive": (lambda a: RV(+a.si, a.dim, err=a.err), lambda x: +x),
    "conj": (lambda a: RV(np.conj(a.si), a.dim, err=a.err), lambda x: np.conj(x)),
    "sqrt": (_pow(0.5), lambda x: np.sqrt(x)),
    "cbrt": (lambda a: (lambda r: RV(r, a.dim ** Fraction(1, 3), err=np.abs(r) * a.err / _safe(a.si) / 3 + 8 * E(r)))(np.cbrt(a.si)), lambda x: np.cbrt(x)),
    "square": (_pow(2), lambda x: np.square(x)),
    "reciprocal": (_pow(-1), lambda x: np.reciprocal(x)),
    "pow2": (_pow(2), lambda x: x**2),
    "pow0.5": (_pow(0.5), lambda x: x**0.5),
    "pow-1": (_pow(-1), lambda x: x**-1),
    "pow3": (_pow(3), lambda x: np.power(x, 3)),
    "pow1.5": (_pow(1.5), lambda x: x**1.5),
    "sin": (r_trig(np.sin), lambda x: np.sin(x)),
    "cos": (r_trig(np.cos), lambda x: np.cos(x)),
    "tan": (r_trig(np.tan), lambda x: np.tan(x)),
    "mul2": (lambda a: RV(2.0 * a.si, a.dim, err=2 * a.err), lambda x: 2.0 * x),
    "rdiv2": (lambda a: (lambda r: RV(r, ONE / a.dim, err=np.abs(r) * a.err / _safe(a.si) + 2 * E(r)))(2.0 / a.si), lambda x: 2.0 / x),
}


def _sumerr(a, axis=None):
    return np.sum(a.err, axis=axis) + a.si.size * E(np.sum(np.abs(a.si), axis=axis))


REDUCE = {
    "add.reduce": (lambda a: RV(np.add.reduce(a.si), a.dim, err=_sumerr(a)), lambda x: np.add.reduce(x)),
    "sum": (lambda a: RV(np.sum(a.si), a.dim, err=_sumerr(a)), lambda x: x.sum()),
    "multiply.reduce": (
        lambda a: (lambda r: RV(r, a.dim ** a.si.size, err=np.abs(r) * np.sum(a.err / _safe(a.si)) + a.si.size * 2 * E(r)))(np.multiply.reduce(a.si)),
        lambda x: np.multiply.reduce(x),
    ),
    "add.accumulate": (
        lambda a: RV(np.add.accumulate(a.si), a.dim, err=np.add.accumulate(a.err) + a.si.size * E(np.add.accumulate(np.abs(a.si)))),
        lambda x: np.add.accumulate(x),
    ),
    "mean": (lambda a: RV(np.mean(a.si), a.dim, err=_sumerr(a)), lambda x: x.mean()),
    "np.mean": (lambda a: RV(np.mean(a.si), a.dim, err=_sumerr(a)), lambda x: np.mean(x)),
    "maximum.reduce": (lambda a: RV(np.maximum.reduce(a.si), a.dim, err=np.max(a.err)), lambda x: np.maximum.reduce(x)),
    "minimum.reduce": (lambda a: RV(np.minimum.reduce(a.si), a.dim, err=np.max(a.err)), lambda x: np.minimum.reduce(x)),
    "add.outer": (
        lambda a: (lambda r: RV(r, a.dim, err=np.add.outer(a.err, a.err) + E(r)))(np.add.outer(a.si, a.si)),
        lambda x: np.add.outer(x, x),
    ),
    "multiply.outer": (
        lambda a: (lambda r: RV(r, a.dim**2, err=np.multiply.outer(a.err, np.abs(a.si)) + np.multiply.outer(np.abs(a.si), a.err) + E(r)))(np.multiply.outer(a.si, a.si)),
        lambda x: np.multiply.outer(x, x),
    ),
    "divide.outer": (
        lambda a: (lambda r: RV(r, ONE, err=np.abs(r) * (np.add.outer(a.err / _safe(a.si), a.err / _safe(a.si))) + E(r)))(np.divide.outer(a.si, a.si)),
        lambda x: np.divide.outer(x, x),
    ),
    "mean": (lambda a: RV(np.mean(a.si), a.dim, err=_sumerr(a) / a.si.size), lambda x: x.mean()),
}


# ---- comparing a real result with the reference ----------------------------------------------------------------
def real_to_si(res):
    if isinstance(res, tuple):
        return tuple(real_to_si(r) for r in res)
    if isinstance(res, unyt_array):
        if res.units.base_offset:
            return ("offset-unit", None, None)
        return ("q", np.asarray(res.d) * float(res.units.base_value), dim_of(res.units.dimensions))
    return ("bare", np.asarray(res), ONE)


def agree(rv, got, chain_mag=None):
    kind, si, dim = got
    if kind == "offset-unit":
        return "result-carries-offset-unit"
    if dim != rv.dim:
        return "wrong-dimension"
    if np.shape(si) != np.shape(rv.si):
        return "wrong-shape"
    if rv.si.dtype == bool:
        return None if np.array_equal(np.asarray(si, dtype=bool), rv.si) and np.asarray(si).dtype == bool else "wrong-boolean"
    a = np.asarray(si, dtype=np.complex128)
    b = np.asarray(rv.si, dtype=np.complex128)
    both_nan = np.isnan(a) & np.isnan(b)
    with np.errstate(all="ignore"):
        inf_same = np.isinf(a) & np.isinf(b) & (np.sign(a.real) == np.sign(b.real))
        ok = both_nan | inf_same | (np.abs(a - b) <= 8 * rv.err + 1e-300)
    return None if np.all(ok) else "wrong-value"


def run_real(f):
    try:
        return ("ok", f())
    except Exception as e:  # noqa: BLE001
        return ("raise", type(e).__name__)


class Prog:
    """A program is a nested tuple; evaluate returns (real thunk result, reference RV, chain magnitude)."""


def eval_ref(prog, leaves):
    k = prog[0]
    if k == "leaf":
        return leaves[prog[1]].rv
    if k == "bin":
        a, b = eval_ref(prog[2], leaves), eval_ref(prog[3], leaves)
        return BINARY[prog[1]][0](a, b)
    if k == "un":
        return UNARY[prog[1]][0](eval_ref(prog[2], leaves))
    if k == "red":
        a = eval_ref(prog[2], leaves)
        if a.si.ndim == 0:
            raise Invalid
        return REDUCE[prog[1]][0](a)
    raise ValueError(prog)


def eval_real(prog, leaves, form="operator"):
    k = prog[0]
    if k == "leaf":
        return leaves[prog[1]].q
    if k == "bin":
        a, b = eval_real(prog[2], leaves), eval_real(prog[3], leaves)
        _ref, opf, uf, ipf = BINARY[prog[1]]
        if form == "method" and prog[1] == "dot" and isinstance(a, unyt_array):
            return a.dot(b)  # unyt_array.dot is separate code from np.dot's handler
        if form in ("method-out", "method-out-return", "func-out") and prog[1] == "dot" and isinstance(a, unyt_array):
            # the out= buffer and the returned object must both denote the product (w9: coefficient of cancelling units
            # applied to the returned array only)
            buf = unyt_array(np.full(np.dot(np.asarray(a), np.asarray(b)).shape, 7.0), "kg")
            r = np.dot(a, b, out=buf) if form == "func-out" else a.dot(b, out=buf)
            return r if form == "method-out-return" else buf
        if form == "helper" and prog[1] == "dot":
            from unyt.array import udot

            return udot(a, b)
        if form == "inplace-scalar" and ipf is not None and isinstance(a, unyt_array) and np.shape(a) == () and np.shape(b) == ():
            t = a.copy()  # q /= r on a 0-d quantity (w9: coefficient of cancelling units lost when the result is 0-d)
            return ipf(t, b)
        if form == "operator" and opf is not None:
            return opf(a, b)
        bshape = np.broadcast(np.asarray(a), np.asarray(b)).shape if prog[1] not in ("dot", "matmul") else None
        if form == "inplace" and ipf is not None and np.shape(a) == bshape and bshape:
            t = a.copy() if isinstance(a, unyt_array) else np.array(a)
            return ipf(t, b)
        if form == "out" and not isinstance(a, tuple) and prog[1] not in ("lt", "ge", "eq", "divmod"):
            shp = bshape
            if prog[1] not in ("dot", "matmul") and shp:
                buf = unyt_array(np.full(shp, 7.0), "kg")
                r = uf(a, b, out=buf)
                return buf if r is not None else r
        return uf(a, b)
    if k == "un":
        return UNARY[prog[1]][1](eval_real(prog[2], leaves))
    if k == "red":
        return REDUCE[prog[1]][1](eval_real(prog[2], leaves))
    raise ValueError(prog)


def shape_key(prog):
    k = prog[0]
    if k == "leaf":
        return "L"
    if k == "bin":
        return f"{prog[1]}({shape_key(prog[2])},{shape_key(prog[3])})"
    return f"{prog[1]}({shape_key(prog[2])})"


def leaf_units(prog, leaves):
    if prog[0] == "leaf":
        return [leaves[prog[1]].unit]
    out = []
    for p in prog[2:]:
        if isinstance(p, tuple):
            out += leaf_units(p, leaves)
    return out


def unit_class(units):
    """key coordinate: are the leaf units of one dimension written in different units?"""
    return "mixed-units" if len(set(units)) > 1 else "one-unit"


def check_program(ctx, prog, leaves, forms=("operator", "ufunc"), tag=None):
    try:
        rv = eval_ref(prog, leaves)
    except Invalid:
        ctx.count("filtered_dimensionally_invalid")
        return
    except Fragile:
        ctx.count("filtered_fragile_rounding")
        return
    except (FloatingPointError, ZeroDivisionError):
        return
    units = leaf_units(prog, leaves)
    top = prog[1] if prog[0] != "leaf" else "leaf"
    results = {}
    for form in forms:
        ctx.count("evaluations")
        ctx.count("transitions", shape_key(prog).count("(") or 1)
        r = run_real(lambda: eval_real(prog, leaves, form))
        results[form] = r
        case = {"prog": prog, "leaves": [(l.unit, np.asarray(l.q.d).tolist()) for l in leaves], "form": form}
        base = f"C04|prog={shape_key(prog)}|form={form}|units={tag or unit_class(units)}|custom={int('code_length' in units)}"
        ctx.outcome((shape_key(prog), form, r[0], unit_class(units)))
        if r[0] != "ok":
            # the reference type-checker accepted the program: refusing a dimensionally valid expression
            ctx.violation(base + f"|mode=valid-expression-refused:{r[1]}", case, "value", r[1])
            continue
        ctx.decided((prog, tuple(units), form))
        got = real_to_si(r[1])
        if isinstance(rv, tuple):
            # divmod: (floordiv, mod)
            if not (isinstance(r[1], tuple) and len(r[1]) == 2):
                ctx.violation(base + "|mode=not-a-pair", case, "pair", repr(r[1]))
                continue
            why = agree(rv[1], got[0]) or agree(rv[2], got[1])
            if why:
                ctx.violation(base + f"|mode={why}", case, [np.asarray(rv[1].si).tolist(), np.asarray(rv[2].si).tolist()], [str(x) for x in r[1]])
            continue
        why = agree(rv, got)
        if why:
            ctx.violation(base + f"|mode={why}", case, {"si": np.asarray(rv.si).tolist(), "dim": str(rv.dim)}, {"si": np.asarray(got[1]).tolist() if got[1] is not None else None, "dim": str(got[2]), "units": str(getattr(r[1], "units", None))})
            continue
        # sums and differences come back in the unit of the left-most quantity operand
        if prog[0] == "bin" and prog[1] in ("add", "sub") and isinstance(r[1], unyt_array):
            left = eval_real(prog[2], leaves)
            if isinstance(left, unyt_array) and str(r[1].units.expr) != str(left.units.expr) and r[1].units != left.units:
                ctx.violation(base + "|mode=sum-not-in-left-operand-unit", case, str(left.units), str(r[1].units))


def gen_programs(nleaves, depth, tier):
    L = [("leaf", i) for i in range(nleaves)]
    # depth 1
    for op in BINARY:
        yield ("bin", op, L[0], L[1])
    for op in UNARY:
        yield ("un", op, L[0])
    for op in REDUCE:
        yield ("red", op, L[0])
    if depth < 2:
        return
    for inner in INNER_BINARY:
        e = ("bin", inner, L[0], L[1])
        for op in BINARY:
            yield ("bin", op, e, L[2])
            yield ("bin", op, L[2], e)
        for op in UNARY:
            yield ("un", op, e)
        for op in REDUCE:
            yield ("red", op, e)
    for uop in ("sqrt", "square", "neg", "reciprocal", "mul2"):
        e = ("un", uop, L[0])
        for op in BINARY:
            yield ("bin", op, e, L[1])
            yield ("bin", op, L[1], e)
        for op in REDUCE:
            yield ("red", op, e)
    for rop in ("add.reduce", "maximum.reduce", "multiply.reduce"):
        e = ("red", rop, L[0])
        for op in ("add", "mul", "div", "lt", "maximum"):
            yield ("bin", op, e, L[1])


def part(ctx, shard):
    world.reset_world()
    reg = registry()
    pack = ctx.seed % len(PACKS)
    for units, shape in shard:
        leaves = [Leaf(u, i, pack, shape, reg) for i, u in enumerate(units)]
        progs = PROGS[len(units)]
        for prog in progs:
            forms = ("operator", "ufunc") if shape == "scalar" else ("operator", "ufunc", "inplace", "out")
            if prog[0] == "bin" and prog[1] == "dot":
                forms = forms + ("method", "helper", "method-out", "method-out-return", "func-out")
            check_program(ctx, prog, leaves, forms)
    ctx.sample({"leaf_units": list(shard[0][0]), "shape": shard[0][1], "programs": len(PROGS[len(shard[0][0])])})


# ---- offset-scale leaves: comparisons and max/min compare absolute magnitudes or refuse ------------------------
OFFSET_GROUPS = [["K", "R", "degC", "degF", "mK", "mdegC"], ["rad", "degree", "lon", "arcmin"]]
OFFSET_OPS = {
    "lt": (operator.lt, np.less), "le": (operator.le, np.less_equal), "gt": (operator.gt, np.greater), "ge": (operator.ge, np.greater_equal),
    "eq": (operator.eq, np.equal), "ne": (operator.ne, np.not_equal),
    "maximum": (None, np.maximum), "minimum": (None, np.minimum), "fmax": (None, np.fmax), "fmin": (None, np.fmin),
}  # fmt: skip
OFFSET_VALS = {"K": (283.0, 250.0, 400.5), "R": (500.0, 480.0, 700.0), "degC": (10.0, -30.0, 120.0), "degF": (50.0, -20.0, 250.0),
               "mK": (283000.0, 250000.0, 400500.0), "mdegC": (10000.0, -30000.0, 120000.0),
               "rad": (0.5, 1.0, 2.0), "degree": (30.0, 60.0, 100.0), "lat": (10.0, -40.0, 80.0), "lon": (20.0, -100.0, 170.0),
               "arcmin": (1700.0, 3000.0, 6500.0)}  # fmt: skip


def abs_si(q):
    """absolute SI magnitude of readings on a (possibly affine) scale: scale * (x - offset_in_readings)."""
    u = q.units
    x = np.asarray(q.d, dtype=float)
    off = float(u.base_offset)
    sc = float(u.base_value)
    name = str(u.expr)
    if off and name not in ("degC", "degF", "lat", "lon"):
        # prefixed offset unit: the table offset is in unprefixed readings
        for p in ("m", "k"):
            if name.startswith(p):
                off = off / {"m": 1e-3, "k": 1e3}[p]
    return sc * (x - off)


ABS_ZERO = {"K": 0.0, "R": 0.0, "degC": -273.15, "degF": -459.67, "mK": 0.0, "mdegC": -273150.0}


def part_offset_equal(ctx, shard):
    """the SAME physical temperature written on two scales (absolute zero, where every scale's reading is exact):
    == / != / <= / >= answer by the physical values, or refuse - never 'different' because the spellings differ"""
    world.reset_world()
    for n1 in shard:
        for n2 in ABS_ZERO:
            for shape in ("scalar", "array"):
                a = unyt_quantity(ABS_ZERO[n1], n1) if shape == "scalar" else unyt_array(np.array([ABS_ZERO[n1]] * 2), n1)
                b = unyt_quantity(ABS_ZERO[n2], n2) if shape == "scalar" else unyt_array(np.array([ABS_ZERO[n2]] * 2), n2)
                for opname, want in (("eq", True), ("ne", False), ("le", True), ("ge", True), ("lt", False), ("gt", False)):
                    opf, uf = OFFSET_OPS[opname]
                    for form, f in (("operator", opf), ("ufunc", uf)):
                        ctx.count("evaluations")
                        r = run_real(lambda: f(a, b))
                        if r[0] != "ok":
                            ctx.count("refused")
                            continue
                        ctx.decided(("offset-equal", opname, form, n1, n2, shape))
                        if not np.all(np.asarray(r[1], dtype=bool) == want):
                            ctx.violation(f"C04|offset-equal|op={opname}|form={form}|left={n1}|right={n2}|mode=wrong-boolean",
                                          {"part": "offset-equal", "op": opname, "form": form, "left": n1, "right": n2, "shape": shape}, want, np.asarray(r[1]).tolist())


def part_offset(ctx, shard):
    world.reset_world()
    for group, n1 in shard:
        for n2 in group:
            for shape in ("scalar", "array"):
                v1, v2 = OFFSET_VALS[n1], OFFSET_VALS[n2][::-1]
                a = unyt_quantity(v1[0], n1) if shape == "scalar" else unyt_array(np.array(v1), n1)
                b = unyt_quantity(v2[0], n2) if shape == "scalar" else unyt_array(np.array(v2), n2)
                A, B = abs_si(a), abs_si(b)
                if np.any(np.abs(A - B) <= 1e-6 * np.maximum(np.abs(A), np.abs(B))):
                    ctx.count("filtered_fragile_rounding")
                    continue
                for opname, (opf, uf) in OFFSET_OPS.items():
                    for form, f in (("operator", opf), ("ufunc", uf)):
                        if f is None:
                            continue
                        ctx.count("evaluations")
                        ctx.count("transitions")
                        r = run_real(lambda: f(a, b))
                        case = {"part": "offset", "op": opname, "form": form, "left": n1, "right": n2, "shape": shape}
                        base = f"C04|offset|op={opname}|form={form}|left={n1}|right={n2}"
                        ctx.outcome(("offset", opname, n1, n2, r[0]))
                        if r[0] != "ok":
                            ctx.count("refused")
                            continue  # nothing is produced: acceptable
                        ctx.decided(("offset", opname, form, n1, n2, shape))
                        res = r[1]
                        if opname in ("lt", "le", "gt", "ge", "eq", "ne"):
                            want = {"lt": A < B, "le": A <= B, "gt": A > B, "ge": A >= B, "eq": A == B, "ne": A != B}[opname]
                            if not np.array_equal(np.asarray(res, dtype=bool), want):
                                ctx.violation(base + "|mode=wrong-boolean", case, np.asarray(want).tolist(), np.asarray(res).tolist())
                        else:
                            want = np.maximum(A, B) if opname in ("maximum", "fmax") else np.minimum(A, B)
                            if not isinstance(res, unyt_array):
                                ctx.violation(base + "|mode=result-has-no-unit", case, None, repr(res))
                                continue
                            got = abs_si(res)
                            if np.any(np.abs(got - want) > 64 * EPS * np.maximum(np.abs(want), 500.0)):
                                ctx.violation(base + "|mode=wrong-value", case, np.asarray(want).tolist(), {"value": np.asarray(res.d).tolist(), "units": str(res.units), "abs_si": np.asarray(got).tolist()})


EXTRA_LEAVES = ["erg", "J", "1/(N*m)", "Pa", "cm**2/N", "N/cm**2", "1/s", "kHz", "1/m", "km/s/Mpc", "Mpc", "g/kg", "percent", "m**2/cm", "hr/s",
                "eV", "keV", "fm", "am", "Mpc**3", "kpc**3"]  # the last six: pairs whose SI sizes are both tiny (or both huge)


def part_extra(ctx, shard):
    """compound, inverse and self-cancelling leaf units (erg x 1/(N*m), Pa x cm**2/N, km/s/Mpc x Mpc ...): all ordered pairs
    under the depth-1 binary programs and the products/quotients nested once, in every call form"""
    world.reset_world()
    pack = ctx.seed % len(PACKS)
    L0, L1 = ("leaf", 0), ("leaf", 1)
    progs = [("bin", op, L0, L1) for op in BINARY] + [("un", u, ("bin", b, L0, L1)) for u in ("sqrt", "neg", "mul2") for b in ("mul", "div")]
    progs += [("red", r, ("bin", b, L0, L1)) for r in REDUCE for b in ("mul", "div")]
    for units in shard:
        leaves = [Leaf(u, i, pack, "array", None) for i, u in enumerate(units)]
        for prog in progs:
            forms = ("operator", "ufunc", "inplace", "out")
            if prog[0] == "bin" and prog[1] == "dot":
                forms = forms + ("method", "helper", "method-out", "method-out-return", "func-out")
            check_program(ctx, prog, leaves, forms)
        # reductions of ONE leaf whose unit cancels into a number (km/m, g/kg ...), and 0-d operands in place
        for r in REDUCE:
            check_program(ctx, ("red", r, L0), leaves, ("operator",))
        sleaves = [Leaf(u, i, pack, "scalar", None) for i, u in enumerate(units)]
        for op in BINARY:
            if BINARY[op][3] is not None:
                check_program(ctx, ("bin", op, L0, L1), sleaves, ("operator", "inplace-scalar"))


def _leaf(q):
    lf = Leaf.__new__(Leaf)
    lf.unit = str(q.units)
    lf.q = q
    lf.rv = RV(np.asarray(q.d, dtype=float) * float(q.units.base_value), dim_of(q.units.dimensions))
    return lf


def part_namesake(ctx, shard):
    """two operands whose units are SPELLED the same but have different sizes: a unit object kept across a modify() of its
    symbol, and the same symbol defined differently in two registries.  Results must follow the sizes, not the spelling."""
    world.reset_world()
    L0, L1 = ("leaf", 0), ("leaf", 1)
    progs = [("bin", op, L0, L1) for op in BINARY if op not in ("dot", "matmul")]
    for scenario in shard:
        for shape in ("array", "scalar"):
            for order in ("ab", "ba"):
                if scenario == "stale-after-modify":
                    reg = UnitRegistry()
                    reg.add("box", 2.0, udims.length)
                    a = unyt_array(np.array([1.5, 2.25, 3.0]), "box", registry=reg) if shape == "array" else unyt_quantity(1.5, "box", registry=reg)
                    reg.modify("box", 5.0)
                    b = unyt_array(np.array([0.5, 4.0, 7.0]), "box", registry=reg) if shape == "array" else unyt_quantity(0.5, "box", registry=reg)
                else:
                    r1, r2 = UnitRegistry(), UnitRegistry()
                    r1.add("box", 2.0, udims.length)
                    r2.add("box", 5.0, udims.length)
                    a = unyt_array(np.array([1.5, 2.25, 3.0]), "box", registry=r1) if shape == "array" else unyt_quantity(1.5, "box", registry=r1)
                    b = unyt_array(np.array([0.5, 4.0, 7.0]), "box", registry=r2) if shape == "array" else unyt_quantity(0.5, "box", registry=r2)
                leaves = [_leaf(a), _leaf(b)] if order == "ab" else [_leaf(b), _leaf(a)]
                for prog in progs:
                    forms = ("operator", "ufunc") if shape == "scalar" else ("operator", "ufunc", "inplace", "out")
                    check_program(ctx, prog, leaves, forms, tag=f"namesake:{scenario}")


TRIG_UNITS = ["rad", "degree", "arcmin", "lat", "lon"]


def part_trig_offset(ctx, shard):
    """sin/cos/tan of an angle reading are those of the absolute angle, whatever scale it is written on
    (lat and lon have a zero point); a refusal is acceptable, a different number is not."""
    world.reset_world()
    for n in shard:
        for shape in ("scalar", "array"):
            v = OFFSET_VALS[n]
            a = unyt_quantity(v[0], n) if shape == "scalar" else unyt_array(np.array(v), n)
            A = abs_si(a)
            for fname in ("sin", "cos", "tan"):
                fn = getattr(np, fname)
                for form, f in (("ufunc", lambda x: fn(x)), ("out", lambda x: fn(x, out=np.empty(np.shape(x)))), ("via-rad", lambda x: fn(x.to("rad")))):
                    ctx.count("evaluations")
                    ctx.count("transitions")
                    r = run_real(lambda: f(a))
                    case = {"part": "trig", "op": fname, "form": form, "unit": n, "shape": shape}
                    ctx.outcome(("trig", fname, form, n, r[0]))
                    if r[0] != "ok":
                        ctx.count("refused")
                        continue
                    ctx.decided(("trig", fname, form, n, shape))
                    want = fn(A)
                    got = np.asarray(r[1], dtype=float)
                    tol = 64 * EPS * (1.0 + np.abs(A)) * (1.0 + (want**2 if fname == "tan" else 0.0)) + 64 * EPS * np.abs(want)
                    if got.shape != np.shape(want) or np.any(np.abs(got - want) > tol):
                        ctx.violation(f"C04|trig|op={fname}|form={form}|unit={n}|mode=wrong-value", case, np.asarray(want).tolist(), got.tolist())


# ---- reductions over several axes -----------------------------------------------------------------------------------
AXES = [None, 0, 1, -1, -2, (0,), (0, 1), (0, -1), (-1, -2), (1, -1), (-2, 0), ()]
RED_UNITS = ["km", "hr", "km/hr", "dimensionless", "percent"]


def part_axes(ctx, shard):
    """product / quotient / sum reductions over one or several (possibly negative) axes: the exponent of the unit is the
    number of elements that were actually multiplied together."""
    world.reset_world()
    for unit, shape in shard:
        n = int(np.prod(shape))
        data = (np.arange(n, dtype=float) % 5 + 1.0).reshape(shape) * 0.5
        u = Unit(unit)
        sc, dim = float(u.base_value), dim_of(u.dimensions)
        calls = {
            "multiply.reduce": (lambda x, ax, kd: np.multiply.reduce(x, axis=ax, keepdims=kd), np.multiply.reduce, +1),
            "prod-method": (lambda x, ax, kd: x.prod(axis=ax, keepdims=kd), np.multiply.reduce, +1),
            "np.prod": (lambda x, ax, kd: np.prod(x, axis=ax, keepdims=kd), np.multiply.reduce, +1),
            "add.reduce": (lambda x, ax, kd: np.add.reduce(x, axis=ax, keepdims=kd), np.add.reduce, 0),
            "sum-method": (lambda x, ax, kd: x.sum(axis=ax, keepdims=kd), np.add.reduce, 0),
            "maximum.reduce": (lambda x, ax, kd: np.maximum.reduce(x, axis=ax, keepdims=kd), np.maximum.reduce, 0),
            "divide.reduce": (lambda x, ax, kd: np.divide.reduce(x, axis=ax, keepdims=kd), np.divide.reduce, -1),
        }
        for ax, kd, (cname, (f, ref, kind)) in itertools.product(AXES, (False, True), calls.items()):
            if isinstance(ax, tuple) and any(not -len(shape) <= a < len(shape) for a in ax):
                continue
            if isinstance(ax, int) and not -len(shape) <= ax < len(shape):
                continue
            if kind == -1 and (isinstance(ax, tuple) or ax is None):
                continue  # NumPy: a non-reorderable reduction takes one axis
            if ax is None and kind == +1 and cname == "multiply.reduce" and len(shape) > 1:
                pass
            ctx.count("evaluations")
            ctx.count("transitions")
            x = unyt_array(data.copy(), unit)
            try:
                want = ref(data * sc, axis=ax, keepdims=kd)
            except Exception:  # noqa: BLE001
                continue
            r = run_real(lambda: f(x, ax, kd))
            case = {"part": "axes", "unit": unit, "shape": list(shape), "axis": list(ax) if isinstance(ax, tuple) else ax, "keepdims": kd, "call": cname}
            ctx.outcome(("axes", cname, str(ax), r[0]))
            if r[0] != "ok":
                ctx.count("refused")
                continue
            ctx.decided(("axes", cname, unit, shape, str(ax), kd))
            res = r[1]
            axs = tuple(range(len(shape))) if ax is None else ((ax,) if isinstance(ax, int) else ax)
            k = int(np.prod([shape[a] for a in axs])) if axs else 1
            wdim = dim**k if kind == +1 else dim if kind == 0 else dim ** (2 - k)
            akey = "none" if ax is None else ("int" if isinstance(ax, int) else "tuple") + ("-neg" if (isinstance(ax, int) and ax < 0) or (isinstance(ax, tuple) and any(a < 0 for a in ax)) else "")
            base = f"C04|axes|call={cname}|axis={akey}|keepdims={int(kd)}|ndim={len(shape)}"
            ru = getattr(res, "units", None)
            gdim = dim_of(ru.dimensions) if ru is not None else dim_of(1)
            if gdim != wdim:
                ctx.violation(base + "|mode=wrong-dimension", case, str(wdim), str(ru))
                continue
            got = np.asarray(getattr(res, "d", res), dtype=float) * (float(ru.base_value) if ru is not None else 1.0)
            if got.shape != np.shape(want) or np.any(np.abs(got - want) > 64 * EPS * n * np.abs(want)):
                ctx.violation(base + "|mode=wrong-value", case, np.asarray(want).tolist(), got.tolist())


def part_axes_default(ctx, shard):
    """the same reductions spelled WITHOUT an axis (ufunc.reduce then works along the first axis, the function / method
    spellings over everything), with where= masks, and the reduceat / accumulate methods: whenever a value comes back, every
    element of it is the product of the elements that were multiplied, unit included"""
    world.reset_world()
    for unit, shape in shard:
        n = int(np.prod(shape))
        data = (np.arange(n, dtype=float) % 5 + 1.0).reshape(shape) * 0.5
        u = Unit(unit)
        sc, dim = float(u.base_value), dim_of(u.dimensions)
        m_even = np.ones(shape, dtype=bool)
        m_even[0] = False  # every output loses the same number of factors
        m_odd = np.ones(shape, dtype=bool)
        m_odd.reshape(-1)[0] = False  # one output loses a factor, the others none
        calls = [
            ("multiply.reduce()", lambda x: np.multiply.reduce(x), lambda d: np.multiply.reduce(d), None),
            ("multiply.reduce(keepdims)", lambda x: np.multiply.reduce(x, keepdims=True), lambda d: np.multiply.reduce(d, keepdims=True), None),
            ("divide.reduce()", lambda x: np.divide.reduce(x), lambda d: np.divide.reduce(d), None),
            ("add.reduce()", lambda x: np.add.reduce(x), lambda d: np.add.reduce(d), None),
            ("maximum.reduce()", lambda x: np.maximum.reduce(x), lambda d: np.maximum.reduce(d), None),
            ("np.prod()", lambda x: np.prod(x), lambda d: np.prod(d), None),
            ("prod-method()", lambda x: x.prod(), lambda d: d.prod(), None),
            ("multiply.reduce(positional-axis)", lambda x: np.multiply.reduce(x, len(shape) - 1), lambda d: np.multiply.reduce(d, len(shape) - 1), None),
            ("multiply.reduce(where-even)", lambda x: np.multiply.reduce(x, axis=0, where=m_even), lambda d: np.multiply.reduce(d, axis=0, where=m_even), None),
            ("multiply.reduce(where-odd)", lambda x: np.multiply.reduce(x, axis=0, where=m_odd), lambda d: np.multiply.reduce(d, axis=0, where=m_odd), "ragged" if len(shape) > 1 else None),
            ("np.prod(where-even)", lambda x: np.prod(x, axis=0, where=m_even), lambda d: np.prod(d, axis=0, where=m_even), None),
            ("np.prod(where-odd)", lambda x: np.prod(x, axis=0, where=m_odd), lambda d: np.prod(d, axis=0, where=m_odd), "ragged" if len(shape) > 1 else None),
            ("add.reduce(where-odd)", lambda x: np.add.reduce(x, axis=0, where=m_odd), lambda d: np.add.reduce(d, axis=0, where=m_odd), None),
            ("multiply.reduceat", lambda x: np.multiply.reduceat(x.reshape(-1), [0, 2]), lambda d: np.multiply.reduceat(d.reshape(-1), [0, 2]), "ragged" if n != 4 else None),
            ("add.reduceat", lambda x: np.add.reduceat(x.reshape(-1), [0, 2]), lambda d: np.add.reduceat(d.reshape(-1), [0, 2]), None),
            ("multiply.accumulate", lambda x: np.multiply.accumulate(x.reshape(-1)), lambda d: np.multiply.accumulate(d.reshape(-1)), "ragged"),
            ("add.accumulate", lambda x: np.add.accumulate(x.reshape(-1)), lambda d: np.add.accumulate(d.reshape(-1)), None),
            ("np.cumprod", lambda x: np.cumprod(x.reshape(-1)), lambda d: np.cumprod(d.reshape(-1)), "ragged"),
            ("np.cumsum", lambda x: np.cumsum(x.reshape(-1)), lambda d: np.cumsum(d.reshape(-1)), None),
        ]
        if len(shape) > 1:
            # masks that BROADCAST against the operand (w8: the factor count was taken from the mask as given): a mask of lower
            # rank (one flag per last-axis position, as an array and as a plain list), and one flag per first-axis position
            m_low = np.ones(shape[-1], dtype=bool)
            m_low_l = [True] * shape[-1]
            m_lead = np.ones((shape[0],) + (1,) * (len(shape) - 1), dtype=bool)
            m_lead[0] = False
            m_low_part = m_low.copy()
            m_low_part[0] = False
            calls += [
                ("multiply.reduce(where-lower-rank)", lambda x: np.multiply.reduce(x, axis=0, where=m_low), lambda d: np.multiply.reduce(d, axis=0, where=m_low), None),
                ("prod-method(where-lower-rank)", lambda x: x.prod(axis=0, where=m_low), lambda d: d.prod(axis=0, where=m_low), None),
                ("prod-method(where-list)", lambda x: x.prod(axis=0, where=m_low_l), lambda d: d.prod(axis=0, where=m_low_l), None),
                ("np.prod(where-lower-rank)", lambda x: np.prod(x, axis=0, where=m_low), lambda d: np.prod(d, axis=0, where=m_low), None),
                ("prod-method(where-lower-rank,all-axes)", lambda x: x.prod(where=m_low), lambda d: d.prod(where=m_low), None),
                ("multiply.reduce(where-leading-flags)", lambda x: np.multiply.reduce(x, axis=0, where=m_lead), lambda d: np.multiply.reduce(d, axis=0, where=m_lead), None),
                ("prod-method(where-leading-flags)", lambda x: x.prod(axis=0, where=m_lead), lambda d: d.prod(axis=0, where=m_lead), None),
                ("np.prod(where-leading-flags,last-axis)", lambda x: np.prod(x, axis=-1, where=m_lead), lambda d: np.prod(d, axis=-1, where=m_lead), "ragged" if shape[0] > 1 else None),
                ("prod-method(where-lower-rank-partial)", lambda x: x.prod(axis=0, where=m_low_part), lambda d: d.prod(axis=0, where=m_low_part), "ragged"),
                ("prod-method(where-lower-rank-partial,last-axis)", lambda x: x.prod(axis=-1, where=m_low_part), lambda d: d.prod(axis=-1, where=m_low_part), None),
                ("divide.reduce(where-lower-rank)", lambda x: np.divide.reduce(x, axis=0, where=m_low), lambda d: np.divide.reduce(d, axis=0, where=m_low), None),
            ]
        for cname, f, ref, ragged in calls:
            ctx.count("evaluations")
            ctx.count("transitions")
            x = unyt_array(data.copy(), unit)
            r = run_real(lambda: f(x))
            case = {"part": "axes-default", "unit": unit, "shape": list(shape), "call": cname}
            ctx.outcome(("axes-default", cname, r[0]))
            base = f"C04|axes-default|call={cname}|ndim={len(shape)}"
            if r[0] != "ok":
                ctx.count("refused")
                continue
            ctx.decided(("axes-default", cname, unit, shape))
            res = r[1]
            ru = getattr(res, "units", None)
            if ragged and dim != dim_of(1):
                # the outputs are products of different numbers of factors: no single unit describes them
                ctx.violation(base + "|mode=one-unit-for-products-of-different-length", case, "refusal", str(ru))
                continue
            want = ref(data * sc)
            got = np.asarray(getattr(res, "d", res), dtype=float) * (float(ru.base_value) if ru is not None else 1.0)
            # dimension: found by scaling - the same call on data in SI must give these numbers
            if got.shape != np.shape(want) or np.any(np.abs(got - want) > 64 * EPS * n * np.abs(want)):
                ctx.violation(base + "|mode=wrong-value-or-unit", case, np.asarray(want).tolist(), {"numbers": got.tolist(), "unit": str(ru)})
                continue
            # and the unit's dimension is the one the reference reduction has under a rescaling of the input by 2
            want2 = ref(data * sc * 2.0)
            with np.errstate(all="ignore"):
                k = np.log2(np.abs(np.asarray(want2, dtype=float) / np.asarray(want, dtype=float)))
            ks = {int(round(float(v))) for v in np.asarray(k).reshape(-1) if np.isfinite(v)}
            if len(ks) == 1:
                kk = ks.pop()
                gdim = dim_of(ru.dimensions) if ru is not None else dim_of(1)
                if gdim != dim**kk:
                    ctx.violation(base + "|mode=wrong-dimension", case, str(dim**kk), str(ru))


# ---- integer operands whose units cancel into a large number ----------------------------------------------------------------
def part_int_products(ctx, shard):
    """products / quotients of INTEGER data in units that cancel into a large (or tiny) pure number: the value is the SI
    product whatever integer type the operands have - it never wraps around"""
    world.reset_world()
    for ua, ub in shard:
        sa, sb = float(Unit(ua).base_value), float(Unit(ub).base_value)
        da, db = dim_of(Unit(ua).dimensions), dim_of(Unit(ub).dimensions)
        for dt in ("int64", "int32", "uint16"):
            A, B = np.array([2, 7, 300], dtype=dt), np.array([3, 5, 11], dtype=dt)
            for oname, f, ref, wdim in (("mul", lambda x, y: x * y, lambda p, q: p * q, da * db), ("np.multiply", lambda x, y: np.multiply(x, y), lambda p, q: p * q, da * db),
                                        ("matmul", lambda x, y: x @ y, lambda p, q: np.array(np.dot(p, q)), da * db), ("div", lambda x, y: x / y, lambda p, q: p / q, da / db),
                                        ("scalar-mul", lambda x, y: x[0] * y[0], lambda p, q: np.array(p[0] * q[0]), da * db)):
                ctx.count("evaluations")
                ctx.count("transitions")
                x, y = unyt_array(A.copy(), ua), unyt_array(B.copy(), ub)
                r = run_real(lambda: f(x, y))
                case = {"part": "int-products", "units": [ua, ub], "dtype": dt, "op": oname}
                if r[0] != "ok":
                    ctx.count("refused")
                    continue
                ctx.decided(("int-products", ua, ub, dt, oname))
                res = r[1]
                want = ref(A.astype(float) * sa, B.astype(float) * sb)
                ru = getattr(res, "units", None)
                gdim = dim_of(ru.dimensions) if ru is not None else dim_of(1)
                got = np.asarray(getattr(res, "d", res), dtype=float) * (float(ru.base_value) if ru is not None else 1.0)
                if gdim != wdim:
                    ctx.violation(f"C04|int-products|op={oname}|dtype={dt}|mode=wrong-dimension", case, str(wdim), str(ru))
                elif got.shape != np.shape(want) or np.any(np.abs(got - want) > 1e-12 * np.abs(want)):
                    ctx.violation(f"C04|int-products|op={oname}|dtype={dt}|mode=wrong-value", case, np.asarray(want).tolist(), got.tolist())


# ---- reductions with a quantity-valued start value ----------------------------------------------------------------------
def part_initial(ctx, shard):
    """reduce(..., initial=q): the start value takes part like any other element, whatever commensurable unit it is
    written in - for every ufunc of the family and the function / method spellings built on them."""
    world.reset_world()
    for unit, iunit in shard:
        data = np.array([[1.5, 4.0, 2.5], [3.0, 0.5, 6.0]])
        sc, isc = float(Unit(unit).base_value), float(Unit(iunit).base_value)
        dim = dim_of(Unit(unit).dimensions)
        calls = {
            "add.reduce": (lambda x, q, ax: np.add.reduce(x, axis=ax, initial=q), np.add),
            "maximum.reduce": (lambda x, q, ax: np.maximum.reduce(x, axis=ax, initial=q), np.maximum),
            "minimum.reduce": (lambda x, q, ax: np.minimum.reduce(x, axis=ax, initial=q), np.minimum),
            "fmax.reduce": (lambda x, q, ax: np.fmax.reduce(x, axis=ax, initial=q), np.fmax),
            "fmin.reduce": (lambda x, q, ax: np.fmin.reduce(x, axis=ax, initial=q), np.fmin),
            "hypot.reduce": (lambda x, q, ax: np.hypot.reduce(x, axis=ax, initial=q), np.hypot),
            "np.sum": (lambda x, q, ax: np.sum(x, axis=ax, initial=q), np.add),
            "np.max": (lambda x, q, ax: np.max(x, axis=ax, initial=q), np.maximum),
            "np.min": (lambda x, q, ax: np.min(x, axis=ax, initial=q), np.minimum),
            "np.nanmax": (lambda x, q, ax: np.nanmax(x, axis=ax, initial=q), np.fmax),
            "np.nanmin": (lambda x, q, ax: np.nanmin(x, axis=ax, initial=q), np.fmin),
            "np.nansum": (lambda x, q, ax: np.nansum(x, axis=ax, initial=q), np.add),
            "sum-method": (lambda x, q, ax: x.sum(axis=ax, initial=q), np.add),
            "max-method": (lambda x, q, ax: x.max(axis=ax, initial=q), np.maximum),
            "min-method": (lambda x, q, ax: x.min(axis=ax, initial=q), np.minimum),
        }
        # start values that decide the result (larger than every element / smaller than every element) and one in between
        for ival_si in (100.0 * sc, 0.01 * sc, 3.25 * sc):
            for qform in ("quantity", "0d-array"):
                q = unyt_quantity(ival_si / isc, iunit) if qform == "quantity" else unyt_array(np.array(ival_si / isc), iunit)
                for (cname, (f, uf)), ax in itertools.product(calls.items(), (None, 0, -1)):
                    if ax is None and cname.endswith(".reduce"):
                        ax_use = (0, 1)
                    else:
                        ax_use = ax
                    ctx.count("evaluations")
                    ctx.count("transitions")
                    x = unyt_array(data.copy(), unit)
                    r = run_real(lambda: f(x, q, ax_use))
                    case = {"part": "initial", "unit": unit, "initial_unit": iunit, "call": cname, "axis": ax, "initial_si": ival_si, "qform": qform}
                    ctx.outcome(("initial", cname, unit == iunit, r[0]))
                    if r[0] != "ok":
                        ctx.count("refused")
                        continue
                    ctx.decided(("initial", unit, iunit, cname, ax, ival_si, qform))
                    want = uf.reduce(data * sc, axis=ax_use, initial=ival_si)
                    res = r[1]
                    ru = getattr(res, "units", None)
                    base = f"C04|initial|call={cname}|units={'same' if unit == iunit else 'mixed'}|start={qform}"
                    if ru is None or dim_of(ru.dimensions) != dim:
                        ctx.violation(base + "|mode=wrong-dimension", case, str(dim), str(ru))
                        continue
                    got = np.asarray(res.d, dtype=float) * float(ru.base_value)
                    if got.shape != np.shape(want) or np.any(np.abs(got - want) > 64 * EPS * np.abs(want)):
                        ctx.violation(base + "|mode=wrong-value", case, np.asarray(want).tolist(), got.tolist())


# ---- array-valued exponents ---------------------------------------------------------------------------------------------
def part_array_power(ctx, shard):
    """x ** e with an array e: a dimensional base accepts only a uniform exponent (every element gets the same unit);
    whatever is returned is elementwise base**e with the unit raised to THE exponent."""
    world.reset_world()
    exps = {
        "uniform-1d": np.array([2.0, 2.0, 2.0]),
        "varying-1d": np.array([2.0, 3.0, 2.0]),
        "uniform-2d": np.full((2, 3), 2.0),
        "rows-equal-2d": np.array([[2.0, 3.0, 2.0], [2.0, 3.0, 2.0]]),
        "cols-equal-2d": np.array([[2.0, 2.0, 2.0], [3.0, 3.0, 3.0]]),
        "one-off-2d": np.array([[2.0, 2.0, 2.0], [2.0, 2.0, 3.0]]),
        "uniform-3d": np.full((2, 1, 3), 3.0),
        "planes-equal-3d": np.stack([np.array([[2.0, 3.0, 2.0]]), np.array([[2.0, 3.0, 2.0]])]),
        "uniform-int-2d": np.full((2, 3), 2),
        "rows-equal-int-2d": np.array([[1, 2, 1], [1, 2, 1]]),
    }
    for unit in shard:
        u = Unit(unit)
        sc, dim = float(u.base_value), dim_of(u.dimensions)
        for ename, e in exps.items():
            shape = e.shape
            data = (np.arange(int(np.prod(shape)), dtype=float) % 4 + 1.5).reshape(shape)
            forms = {
                "operator": lambda x: x**e,
                "np.power": lambda x: np.power(x, e),
                "inplace": lambda x: (x.__ipow__(e), x)[1],
                "out": lambda x: np.power(x, e, out=np.empty(shape)),
                "broadcast-base": lambda x: x[..., :1] ** e if x.ndim > 1 else x[:1] ** e,
                "scalar-base": lambda x: x.reshape(-1)[0] ** e,
                "scalar-base-np.power": lambda x: np.power(x.reshape(-1)[1], e),
            }
            for form, f in forms.items():
                ctx.count("evaluations")
                ctx.count("transitions")
                x = unyt_array(data.copy(), unit)
                r = run_real(lambda: f(x))
                uniform = bool(np.all(e == e.reshape(-1)[0]))
                case = {"part": "array-power", "unit": unit, "exp": ename, "form": form}
                ctx.outcome(("apow", ename, form, r[0], dim.dimensionless))
                base = f"C04|array-power|exp={ename}|form={form}|base={'dimensionless' if dim.dimensionless else 'dimensional'}"
                if r[0] != "ok":
                    ctx.count("refused")
                    continue
                ctx.decided(("apow", unit, ename, form))
                res = r[1]
                if not uniform and not dim.dimensionless:
                    ctx.violation(base + "|mode=mixed-powers-under-one-unit", case, "UnitOperationError", str(getattr(res, "units", None)))
                    continue
                p = float(e.reshape(-1)[0])
                b = data[..., :1] if form == "broadcast-base" and data.ndim > 1 else data[:1] if form == "broadcast-base" else data
                if form.startswith("scalar-base"):
                    b = data.reshape(-1)[0 if form == "scalar-base" else 1]
                want = (b * sc) ** e
                ru = getattr(res, "units", None)
                gdim = dim_of(ru.dimensions) if ru is not None else dim_of(1)
                wdim = dim**p if uniform else dim_of(1)
                if gdim != wdim:
                    ctx.violation(base + "|mode=wrong-dimension", case, str(wdim), str(ru))
                    continue
                got = np.asarray(getattr(res, "d", res), dtype=float) * (float(ru.base_value) if ru is not None else 1.0)
                if got.shape != want.shape or np.any(np.abs(got - want) > 256 * EPS * np.abs(want)):
                    ctx.violation(base + "|mode=wrong-value", case, want.tolist(), got.tolist())


def part_unit_exponent(ctx, shard):
    """x ** e with e a dimensionless QUANTITY written in a scaled dimensionless unit (200 percent, 0.002 km/m are the
    number 2): the result is x ** 2 whatever unit the exponent is written in; an exponent with a dimension is refused"""
    world.reset_world()
    EU = [("dimensionless", 1.0), ("percent", 0.01), ("km/m", 1000.0), ("cm/m", 0.01), ("s", None), ("rad", None)]
    exps = {"scalar": np.array(2.0), "scalar-half": np.array(0.5), "uniform-1d": np.array([2.0, 2.0, 2.0]), "varying-1d": np.array([2.0, 3.0, 2.0]), "uniform-2d": np.full((2, 3), 3.0)}
    for unit in shard:
        u = Unit(unit)
        sc, dim = float(u.base_value), dim_of(u.dimensions)
        for (eu, se), (ename, e) in itertools.product(EU, exps.items()):
            shape = e.shape if e.shape else (3,)
            data = (np.arange(int(np.prod(shape)), dtype=float) % 4 + 1.5).reshape(shape)
            E = (unyt_array(e / se, eu) if e.shape else unyt_quantity(float(e) / se, eu)) if se else (unyt_array(e, eu) if e.shape else unyt_quantity(float(e), eu))
            forms = {
                "operator": lambda x: x**E,
                "np.power": lambda x: np.power(x, E),
                "inplace": lambda x: (x.__ipow__(E), x)[1],
                "scalar-base": lambda x: x.reshape(-1)[0] ** E,
                "bare-base": lambda x: np.power(np.asarray(x.d), E),
                "bare-scalar-base": lambda x: np.power(float(x.d.reshape(-1)[1]), E),
            }
            for form, f in forms.items():
                ctx.count("evaluations")
                ctx.count("transitions")
                x = unyt_array(data.copy(), unit)
                r = run_real(lambda: f(x))
                bare = form.startswith("bare")
                case = {"part": "unit-exponent", "unit": unit, "exp": ename, "eunit": eu, "form": form}
                ctx.outcome(("uexp", ename, eu, form, r[0]))
                base = f"C04|unit-exponent|exp={ename}|eunit={eu}|form={form}|base={'bare' if bare else 'dimensionless' if dim.dimensionless else 'dimensional'}"
                if r[0] != "ok":
                    ctx.count("refused")
                    continue
                ctx.decided(("uexp", unit, ename, eu, form))
                res = r[1]
                if se is None:
                    ctx.violation(base + "|mode=exponent-with-a-dimension-accepted", case, "UnitOperationError", str(res)[:80])
                    continue
                uniform = bool(np.all(e == e.reshape(-1)[0]))
                bdim = dim_of(1) if bare else dim
                if not uniform and not bdim.dimensionless:
                    ctx.violation(base + "|mode=mixed-powers-under-one-unit", case, "UnitOperationError", str(getattr(res, "units", None)))
                    continue
                b = data
                if form == "scalar-base":
                    b = data.reshape(-1)[0]
                if form == "bare-scalar-base":
                    b = data.reshape(-1)[1]
                want = (b * (1.0 if bare else sc)) ** e
                ru = getattr(res, "units", None)
                gdim = dim_of(ru.dimensions) if ru is not None else dim_of(1)
                wdim = bdim ** float(e.reshape(-1)[0]) if uniform else dim_of(1)
                if gdim != wdim:
                    ctx.violation(base + "|mode=wrong-dimension", case, str(wdim), str(ru))
                    continue
                got = np.asarray(getattr(res, "d", res), dtype=float) * (float(ru.base_value) if ru is not None else 1.0)
                if got.shape != np.shape(want) or np.any(np.abs(got - want) > 256 * EPS * np.abs(want)):
                    ctx.violation(base + "|mode=wrong-value", case, np.asarray(want).tolist(), got.tolist())


# ---- operands of different widths ---------------------------------------------------------------------------------------
WIDTH_DTYPES = ["float64", "float32", "float16", "int64", "int32", "int16"]


def _feps(dt):
    dt = np.dtype(dt)
    return float(np.finfo("f%d" % max(dt.itemsize, 2)).eps)


def part_widths(ctx, shard):
    """operands of different item sizes in different commensurable units: each operand contributes rounding of ITS OWN
    float width only - a wide operand is never squeezed through the width of a narrow partner."""
    world.reset_world()
    ops = {"add": np.add, "subtract": np.subtract, "maximum": np.maximum, "hypot": np.hypot, "fmax": np.fmax}
    for (ul, ur), (dl, dr) in shard:
        sl, sr = float(Unit(ul).base_value), float(Unit(ur).base_value)
        for big in ("right", "left"):
            # SI magnitudes: the big side ~7e4, the small side ~3 (stored numbers stay inside float16 / int16)
            Lsi, Rsi = (np.array([1.0, 2.0, 3.0]), np.array([12345.0, 54321.0, 40000.0])) if big == "right" else (np.array([12345.0, 54321.0, 40000.0]), np.array([1.0, 2.0, 3.0]))
            ld, rdat = (Lsi / sl), (Rsi / sr)
            if np.dtype(dl).kind == "i":
                ld = np.rint(ld)
            if np.dtype(dr).kind == "i":
                rdat = np.rint(rdat)
            with np.errstate(all="ignore"):
                ld, rdat = ld.astype(dl), rdat.astype(dr)
            if not (np.all(np.isfinite(ld.astype(float))) and np.all(np.isfinite(rdat.astype(float)))) or np.any(ld == 0) or np.any(rdat == 0):
                ctx.count("filtered_unrepresentable_operand")
                continue
            Ls, Rs = ld.astype(float) * sl, rdat.astype(float) * sr  # what the operands really hold
            for oname, uf in ops.items():
                for form in ("operator" if oname in ("add", "subtract") else "ufunc", "ufunc"):
                    ctx.count("evaluations")
                    ctx.count("transitions")
                    x, y = unyt_array(ld.copy(), ul), unyt_array(rdat.copy(), ur)
                    if form == "operator":
                        r = run_real(lambda: x + y if oname == "add" else x - y)
                    else:
                        r = run_real(lambda: uf(x, y))
                    case = {"part": "widths", "units": [ul, ur], "dtypes": [dl, dr], "big": big, "op": oname, "form": form}
                    ctx.outcome(("widths", oname, dl, dr, r[0]))
                    if r[0] != "ok":
                        ctx.count("refused")
                        continue
                    ctx.decided(("widths", ul, ur, dl, dr, big, oname, form))
                    res = r[1]
                    want = uf(Ls, Rs)
                    got = np.asarray(res.d, dtype=float) * float(res.units.base_value)
                    tol = 64 * (_feps(dl) * np.abs(Ls) + _feps(dr) * np.abs(Rs)) + 64 * EPS * np.abs(want)
                    if got.shape != want.shape or not np.all(np.abs(got - want) <= tol):
                        ctx.violation(f"C04|widths|op={oname}|left={dl}|right={dr}|big={big}|mode=wide-operand-lost-precision", case, want.tolist(), got.tolist())


PROGS = {}


def _uses(prog):
    if prog[0] == "leaf":
        return {prog[1]}
    s = set()
    for p in prog[2:]:
        if isinstance(p, tuple):
            s |= _uses(p)
    return s


def run(ctx):
    allp = list(gen_programs(3, 2, ctx.tier))
    for n in (1, 2, 3):
        PROGS[n] = [p for p in allp if _uses(p) == set(range(n))]
    shards = []
    cases = []
    for n in (1, 2, 3):
        alphabet = LEAF_UNITS if n < 3 else (LEAF_UNITS if ctx.tier == "thorough" else SMALL_LEAVES + ["cm", "hr", "code_length"])
        for units in itertools.product(alphabet, repeat=n):
            for shape in ("array", "scalar"):
                if n == 3 and shape == "scalar":
                    continue
                cases.append((units, shape))
    for i in range(0, len(cases), 12):
        shards.append(cases[i : i + 12])
    harness.pmap(ctx, part, shards)
    harness.pmap(ctx, part_offset, [[(g, n)] for g in OFFSET_GROUPS for n in g])
    harness.pmap(ctx, part_trig_offset, [[n] for n in TRIG_UNITS])
    harness.pmap(ctx, part_offset_equal, [[n] for n in ABS_ZERO])
    extra_pairs = list(itertools.product(EXTRA_LEAVES, EXTRA_LEAVES))
    harness.pmap(ctx, part_extra, [extra_pairs[i::32] for i in range(32)])
    harness.pmap(ctx, part_namesake, [["stale-after-modify"], ["two-registries"]])
    harness.pmap(ctx, part_axes, [[(u, sh)] for u in RED_UNITS for sh in ((2, 3), (2, 3, 4), (3,), (1, 3))])
    harness.pmap(ctx, part_axes_default, [[(u, sh)] for u in RED_UNITS for sh in ((2, 3), (2, 3, 4), (3,), (1, 3), (4,), (2, 2))])
    harness.pmap(ctx, part_int_products, [[p] for p in (("pc", "1/cm"), ("Mpc", "1/mm"), ("km", "1/mm"), ("kg", "1/mg"), ("yr", "1/ns"), ("mm", "1/Mpc"), ("cm", "km"), ("Msun", "1/g"))])
    harness.pmap(ctx, part_initial, [[p] for p in (("km", "km"), ("km", "m"), ("m", "km"), ("hr", "s"), ("g", "kg"), ("K", "R"))])
    harness.pmap(ctx, part_array_power, [[u] for u in ("km", "hr/s", "dimensionless", "percent", "m/s")])
    harness.pmap(ctx, part_unit_exponent, [[u] for u in ("km", "hr/s", "dimensionless", "percent", "m/s")])
    wpairs = [(a, b) for a in WIDTH_DTYPES for b in WIDTH_DTYPES if np.dtype(a).itemsize != np.dtype(b).itemsize]
    harness.pmap(ctx, part_widths, [[(up, dp)] for up in (("km", "m"), ("m", "km"), ("hr", "s"), ("m", "cm")) for dp in wpairs])
    return {
        "coverage": {
            "rule": "all expression programs of depth <= 2 over the operation alphabet x every assignment of leaf units "
            "(14-unit alphabet for 1- and 2-leaf programs; 9-unit alphabet for 3-leaf programs in quick, 14 in thorough) x "
            "call forms {operator, ufunc, in-place, out=}; programs the reference type-checker rejects belong to C01 and "
            "are filtered; floor/mod/comparison cases within 1e-6 of a rounding boundary are filtered as fragile. "
            "A decided case is a (program, leaf units, form) triple compared with the SI reference interpreter.",
            "axes": {"binary_ops": list(BINARY), "unary_ops": list(UNARY), "reductions": list(REDUCE), "leaf_units": LEAF_UNITS,
                     "programs_by_leaf_count": {str(k): len(v) for k, v in PROGS.items()}, "unit_assignments": len(cases)},
        },
        "assumptions": [
            "reference interpreter: obvious NumPy call on SI magnitudes + dimensional analysis (this file)",
            "tolerance 64 eps x largest SI magnitude in the chain; exp/log/rounding family are outside the claim",
        ],
    }


def replay(case):
    ctx = harness.Ctx(PROPERTY, "quick", 0)
    world.reset_world()
    if case.get("part") == "trig":
        part_trig_offset(ctx, [case["unit"]])
        return list(ctx.violations.items())
    if case.get("part") == "axes":
        part_axes(ctx, [(case["unit"], tuple(case["shape"]))])
    elif case["part"] == "axes-default":
        part_axes_default(ctx, [(case["unit"], tuple(case["shape"]))])
        return list(ctx.violations.items())
    if case.get("part") == "int-products":
        part_int_products(ctx, [tuple(case["units"])])
        return list(ctx.violations.items())
    if case.get("part") == "axes-default":
        part_axes_default(ctx, [(case["unit"], tuple(case["shape"]))])
        return list(ctx.violations.items())
    if case.get("part") == "initial":
        part_initial(ctx, [(case["unit"], case["initial_unit"])])
        return list(ctx.violations.items())
    if case.get("part") == "array-power":
        part_array_power(ctx, [case["unit"]])
        return list(ctx.violations.items())
    if case.get("part") == "unit-exponent":
        part_unit_exponent(ctx, [case["unit"]])
        return list(ctx.violations.items())
    if case.get("part") == "widths":
        part_widths(ctx, [(tuple(case["units"]), tuple(case["dtypes"]))])
        return list(ctx.violations.items())
    if case.get("part") == "offset-equal":
        part_offset_equal(ctx, [case["left"]])
        return list(ctx.violations.items())
    if case.get("part") == "offset":
        grp = [g for g in OFFSET_GROUPS if case["left"] in g][0]
        part_offset(ctx, [(grp, case["left"])])
        return list(ctx.violations.items())
    reg = registry()

    def tup(x):
        return tuple(tup(i) for i in x) if isinstance(x, list) else x

    leaves = []
    for i, (u, vals) in enumerate(case["leaves"]):
        lf = Leaf.__new__(Leaf)
        lf.unit = u
        r = reg if u == "code_length" else None
        lf.q = unyt_quantity(vals, u, registry=r) if np.ndim(vals) == 0 else unyt_array(np.array(vals), u, registry=r)
        lf.rv = RV(np.asarray(lf.q.d, dtype=float) * float(lf.q.units.base_value), dim_of(lf.q.units.dimensions))
        leaves.append(lf)
    check_program(ctx, tup(case["prog"]), leaves, (case["form"],))
    return list(ctx.violations.items())
