"""C18  Non-mutating calls do not mutate; failed calls leave their operands intact.

Bounded exhaustive enumeration with a deviation bound on injected invalid operands (0 = all valid, 1 = one invalid
operand at each position in turn), on operands that are VIEWS of parent arrays, snapshotting bytes / dtype / unit /
name of every operand and parent before and after each call:
  convert   conversion routes (copying and in-place) x target kind (valid, same, wrong dimension, unknown string,
            irreducible, unknown/invalid equivalence, bad equivalence keyword) x dtype x operand form
  ufunc     every ufunc of unyt's table x call form (call, out=, in-place operator) x operand validity x out-buffer kind
  setitem   item assignment forms x value kinds
  catalog   every array-function template with its operands rebuilt as strided views, valid and with one operand's
            unit made incommensurable
  unit      Unit arithmetic and queries, valid and refused combinations
"""

import itertools
import operator
import warnings

import numpy as np

from mc import harness, world
from mc.catalog import core, run as R

PROPERTY = "C18"

import unyt
from unyt import unyt_array, unyt_quantity
from unyt.unit_object import Unit


def udig(u):
    return (str(u.expr), repr(float(u.base_value)), repr(float(u.base_offset)), str(u.dimensions)) if u is not None else None


def snap(x):
    """snapshot of one operand (and of its base array, if it is a view)"""
    if isinstance(x, Unit):
        return ("unit", udig(x), id(x.registry))
    if isinstance(x, (list, tuple)):
        return ("seq", tuple(snap(i) for i in x))
    if not isinstance(x, np.ndarray):
        return ("py", repr(x))
    base = x
    while isinstance(base.base, np.ndarray):
        base = base.base
    b = np.asarray(base)

    def canon(a):
        a = np.asarray(a)
        if a.dtype.kind in "biufc":
            with np.errstate(all="ignore"):
                return np.ascontiguousarray(a).astype(np.complex128).tobytes()
        return np.ascontiguousarray(a).tobytes()

    return (
        "arr",
        canon(x),  # the numbers, independent of how they are stored
        str(x.dtype),
        x.shape,
        udig(getattr(x, "units", None)),
        getattr(x, "name", None),
        canon(b),
        str(b.dtype),
        udig(getattr(base, "units", None)) if isinstance(base, unyt_array) else None,
    )


def diff(before, after):
    if before[0] != after[0]:
        return "kind"
    if before[0] == "seq":
        for a, b in zip(before[1], after[1]):
            d = diff(a, b)
            if d:
                return d
        return None
    if before[0] != "arr":
        return None if before == after else "value"
    names = ["", "numbers", "dtype", "shape", "unit", "name", "parent-numbers", "parent-dtype", "parent-unit"]
    for i in range(1, len(before)):
        if before[i] != after[i]:
            return names[i]
    return None


def view_of(data, form):
    """return (operand ndarray view, parent ndarray)"""
    if form == "base" or data.ndim == 0:
        p = data.copy()
        return p, p
    if form == "strided":
        shape = list(data.shape)
        shape[-1] *= 2
        p = np.full(shape, 77, dtype=data.dtype)
        p[..., ::2] = data
        return p[..., ::2], p
    if form == "transposed":
        p = np.ascontiguousarray(data.T).copy()
        return p.T, p
    if form == "readonly":
        p = data.copy()
        p.flags.writeable = False
        return p, p
    raise ValueError(form)


def mkq(data, unit, form="strided", registry=None):
    v, p = view_of(np.asarray(data), form)
    if v.ndim == 0:
        return unyt_quantity(v[()], unit, registry=registry)
    return unyt_array(v, unit, registry=registry)  # a view of p (the constructor does not copy ndarrays)


def run_call(f):
    with warnings.catch_warnings():
        warnings.simplefilter("ignore")
        try:
            return ("ok", f())
        except Exception as e:  # noqa: BLE001
            return ("raise", e)


# ---- part: conversion routes ------------------------------------------------------------------------------------
COPY_ROUTES = {
    "to": lambda q, t: q.to(t),
    "in_units": lambda q, t: q.in_units(t),
    "to_value": lambda q, t: q.to_value(t),
    "to_equivalent": lambda q, t: q.to_equivalent(t, "spectral"),
    "to(equivalence)": lambda q, t: q.to(t, equivalence="spectral"),
}
INPLACE_ROUTES = {
    "convert_to_units": lambda q, t: q.convert_to_units(t),
    "convert_to_equivalent": lambda q, t: q.convert_to_equivalent(t, "spectral"),
    "convert_to_units(equivalence)": lambda q, t: q.convert_to_units(t, equivalence="spectral"),
}
TARGETS = {
    "valid": "cm",
    "same": "m",
    "valid-Unit": None,  # Unit object, filled in
    "equivalent": "Hz",
    "wrong-dimension": "s",
    "unknown-string": "notaunit",
    "malformed-string": "m**",
    "offset": "degC",
}
NOARG_COPY = {
    "in_base": lambda q: q.in_base(),
    "in_base(cgs)": lambda q: q.in_base("cgs"),
    "in_cgs": lambda q: q.in_cgs(),
    "in_mks": lambda q: q.in_mks(),
    "in_base(unknown-system)": lambda q: q.in_base("nosuchsystem"),
    "to_equivalent(unknown-equivalence)": lambda q: q.to_equivalent("Hz", "nosuchequiv"),
    "to_equivalent(bad-kwarg)": lambda q: q.to_equivalent("Hz", "spectral", mu=3),
    "to_equivalent(uncovered)": lambda q: q.to_equivalent("K", "spectral"),
    "copy": lambda q: q.copy(),
    "value": lambda q: q.value,
    "to_ndarray": lambda q: q.to_ndarray(),
    "unit_quantity": lambda q: q.unit_quantity,
    "list_equivalencies": lambda q: q.list_equivalencies(),
    "has_equivalent": lambda q: q.has_equivalent("spectral"),
    "str": lambda q: str(q),
    "repr": lambda q: repr(q),
    "argsort": lambda q: q.argsort() if q.ndim else None,
    "pickle": lambda q: __import__("pickle").dumps(q),
    "deepcopy": lambda q: __import__("copy").deepcopy(q),
}
NOARG_INPLACE = {
    "convert_to_base": lambda q: q.convert_to_base(),
    "convert_to_base(cgs)": lambda q: q.convert_to_base("cgs"),
    "convert_to_cgs": lambda q: q.convert_to_cgs(),
    "convert_to_mks": lambda q: q.convert_to_mks(),
    "convert_to_base(unknown-system)": lambda q: q.convert_to_base("nosuchsystem"),
    "convert_to_equivalent(unknown-equivalence)": lambda q: q.convert_to_equivalent("Hz", "nosuchequiv"),
    "convert_to_equivalent(bad-kwarg)": lambda q: q.convert_to_equivalent("Hz", "spectral", mu=3),
    "convert_to_equivalent(uncovered)": lambda q: q.convert_to_equivalent("K", "spectral"),
    "convert_to_base(equivalence-uncovered)": lambda q: q.convert_to_base("mks", equivalence="thermal"),
}
CONV_DTYPES = ["float64", "float32", "int64", "int32", "int8", "uint16", "complex128", "bool"]
CONV_FORMS = [("base", (3,)), ("strided", (3,)), ("strided", (2, 2)), ("transposed", (2, 3)), ("base", ()), ("readonly", (3,))]
SRC_UNITS = ["m", "km", "mile"]


def conv_data(shape, dtype):
    n = int(np.prod(shape)) if shape else 1
    return (np.arange(1, n + 1) * 3).astype(dtype).reshape(shape)


def part_convert(ctx, shard):
    world.reset_world()
    for dtype in shard:
        for (form, shape), src_unit in itertools.product(CONV_FORMS, SRC_UNITS):
            if dtype == "bool" and shape == ():
                continue  # the quantity constructor refuses a bool scalar
            data = conv_data(shape, dtype)

            def fresh():
                return mkq(data, src_unit, form)

            case0 = {"part": "convert", "dtype": dtype, "form": form, "shape": list(shape), "src": src_unit}
            for tname, t in TARGETS.items():
                tgt = Unit("cm") if tname == "valid-Unit" else t
                # copying routes
                copy_res = {}
                for rname, f in COPY_ROUTES.items():
                    ctx.count("evaluations")
                    q = fresh()
                    arg_before = snap(tgt) if isinstance(tgt, Unit) else None
                    before = snap(q)
                    st, r = run_call(lambda: f(q, tgt))
                    d = diff(before, snap(q))
                    ctx.outcome(("convert", rname, tname, dtype, form, st))
                    ctx.decided(("convert", rname, tname, dtype, form, shape, src_unit))
                    if d:
                        ctx.violation(f"C18|convert|route={rname}|target={tname}|dtype={dtype}|outcome={st}|mode=copying-call-changed-input:{d}", dict(case0, route=rname, target=tname), "unchanged", d)
                    if arg_before is not None and snap(tgt) != arg_before:
                        ctx.violation(f"C18|convert|route={rname}|target={tname}|mode=unit-argument-changed", dict(case0, route=rname, target=tname), None, None)
                    if st == "ok":
                        copy_res[rname] = r
                # in-place routes
                for rname, f in INPLACE_ROUTES.items():
                    ctx.count("evaluations")
                    q = fresh()
                    before = snap(q)
                    st, r = run_call(lambda: f(q, tgt))
                    after = snap(q)
                    ctx.outcome(("convert", rname, tname, dtype, form, st))
                    ctx.decided(("convert", rname, tname, dtype, form, shape, src_unit))
                    case = dict(case0, route=rname, target=tname)
                    base = f"C18|convert|route={rname}|target={tname}|dtype={dtype}"
                    if st == "raise":
                        d = diff(before, after)
                        if d in ("numbers", "unit", "parent-numbers", "parent-unit", "shape"):
                            ctx.violation(base + f"|mode=failed-in-place-call-changed-target:{d}", case, type(r).__name__, d)
                        continue
                    # succeeded: exactly the copying call's numbers and unit; parent bytes outside the view untouched
                    twin = {"convert_to_units": "to", "convert_to_equivalent": "to_equivalent", "convert_to_units(equivalence)": "to(equivalence)"}[rname]
                    ref = copy_res.get(twin)
                    if ref is None:
                        ctx.count("inplace_succeeds_where_copy_refuses")
                        ctx.note_set("inplace_succeeds_where_copy_refuses", f"{rname}|{tname}|{dtype}")
                        continue
                    if udig(q.units) != udig(ref.units):
                        ctx.violation(base + "|mode=in-place-unit-differs-from-copy", case, str(ref.units), str(q.units))
                    a, b = np.asarray(q.d), np.asarray(ref.d)
                    narrow = min((x.dtype for x in (a, b) if x.dtype.kind in "fc"), key=lambda t: t.itemsize, default=np.dtype("float64"))
                    rdt = np.dtype("f" + str(narrow.itemsize // 2)) if narrow.kind == "c" else narrow
                    with np.errstate(all="ignore"):
                        fits = np.all(np.abs(b.astype(complex)) < float(np.finfo(rdt).max) / 4)
                        same = a.shape == b.shape and np.allclose(a.astype(complex), b.astype(complex), rtol=16 * float(np.finfo(rdt).eps), atol=0)
                    if not fits:
                        ctx.count("inplace_vs_copy_out_of_narrow_float_range")  # width effects are C17's business
                    elif not same:
                        ctx.violation(base + "|mode=in-place-numbers-differ-from-copy", case, b.tolist(), a.tolist())
                    if form == "strided" and shape:
                        base_arr = q
                        while isinstance(base_arr.base, np.ndarray):
                            base_arr = base_arr.base
                        pb = np.asarray(base_arr)
                        fill = pb[..., 1::2].view(pb.dtype)
                        exp = np.full(fill.shape, 77).astype(data.dtype)
                        if pb.dtype == data.dtype and not np.array_equal(fill, exp):
                            ctx.violation(base + "|mode=parent-changed-outside-the-view", case, 77, fill.reshape(-1)[:4].tolist())
            # a Unit OBJECT of another registry (or an exported one) as the target is an input too: it must stay what and whose it was
            if dtype in ("float64", "int64") and form in ("base", "strided") and src_unit == "km":
                from unyt.unit_registry import UnitRegistry as _UR, default_unit_registry as _D

                for owner in ("other-registry", "exported"):
                    for rname, f in list(COPY_ROUTES.items())[:3] + list(INPLACE_ROUTES.items())[:1]:
                        ctx.count("evaluations")
                        regA, regB = _UR(), _UR()
                        q = mkq(data, src_unit, form, registry=regA)
                        tgt = Unit("cm", registry=regB) if owner == "other-registry" else unyt.cm
                        home = regB if owner == "other-registry" else _D
                        before = snap(tgt)
                        st, r = run_call(lambda: f(q, tgt))
                        ctx.decided(("convert-foreign-unit", rname, owner, dtype, form))
                        case = dict(case0, route=rname, target="Unit-of-" + owner)
                        if snap(tgt) != before or tgt.registry is not home:
                            ctx.violation(f"C18|convert|route={rname}|target=Unit-of-{owner}|outcome={st}|mode=unit-argument-changed", case, "unchanged, same registry", "rebound" if tgt.registry is not home else "changed")
                        if Unit("cm", registry=home).registry is not home:
                            ctx.violation(f"C18|convert|route={rname}|target=Unit-of-{owner}|outcome={st}|mode=owner-registry's-cached-unit-rebound", case, None, None)
            for table, inplace in ((NOARG_COPY, False), (NOARG_INPLACE, True)):
                for rname, f in table.items():
                    ctx.count("evaluations")
                    q = fresh()
                    before = snap(q)
                    st, r = run_call(lambda: f(q))
                    after = snap(q)
                    d = diff(before, after)
                    ctx.outcome(("convert0", rname, dtype, form, st))
                    ctx.decided(("convert0", rname, dtype, form, shape, src_unit))
                    case = dict(case0, route=rname)
                    if not inplace and d:
                        ctx.violation(f"C18|convert|route={rname}|dtype={dtype}|outcome={st}|mode=copying-call-changed-input:{d}", case, "unchanged", d)
                    if inplace and st == "raise" and d in ("numbers", "unit", "parent-numbers", "parent-unit", "shape"):
                        ctx.violation(f"C18|convert|route={rname}|dtype={dtype}|mode=failed-in-place-call-changed-target:{d}", case, type(r).__name__, d)
            # the argument-free twins: a successful in-place call yields exactly what the copying call yields - also for data
            # bound to a registry that was created with another default unit system
            if form in ("base", "strided") and dtype in ("float64", "int64", "float32"):
                from unyt.unit_registry import UnitRegistry as _UR2

                twins = [("in_base", "convert_to_base"), ("in_base(cgs)", "convert_to_base(cgs)"), ("in_cgs", "convert_to_cgs"), ("in_mks", "convert_to_mks")]
                for regsys, (cname, iname) in itertools.product((None, "cgs", "imperial", "galactic"), twins):
                    ctx.count("evaluations")
                    mkreg = (lambda: None) if regsys is None else (lambda: _UR2(unit_system=regsys))
                    q1, q2 = mkq(data, src_unit, form, registry=mkreg()), mkq(data, src_unit, form, registry=mkreg())
                    st1, r1 = run_call(lambda: NOARG_COPY[cname](q1))
                    st2, _ = run_call(lambda: NOARG_INPLACE[iname](q2))
                    ctx.decided(("twin", cname, regsys, dtype, form, shape, src_unit))
                    case = dict(case0, route=iname, registry_default=regsys)
                    base = f"C18|twin|route={iname}|registry-default={regsys or 'mks'}|dtype={dtype}"
                    if st1 != st2:
                        ctx.violation(base + f"|mode=in-place-{st2}-but-copy-{st1}", case, st1, st2)
                    elif st1 == "ok":
                        if str(r1.units) != str(q2.units) or r1.units != q2.units:
                            ctx.violation(base + "|mode=in-place-unit-differs-from-copy", case, str(r1.units), str(q2.units))
                        elif r1.dtype != q2.dtype or not np.array_equal(np.asarray(r1.d), np.asarray(q2.d)):
                            ctx.violation(base + "|mode=in-place-numbers-differ-from-copy", case, np.asarray(r1.d).reshape(-1)[:4].tolist(), np.asarray(q2.d).reshape(-1)[:4].tolist())


# ---- part: ufuncs -------------------------------------------------------------------------------------------------
def part_ufunc(ctx, shard):
    world.reset_world()
    import unyt.array as ua

    for uf in shard:
        name = uf.__name__
        if uf.nin == 1:
            kinds = {"valid-m": "m", "valid-dimless": "dimensionless", "angle": "degree", "offset": "degC", "log": "dB"}
            for (kname, unit), form, dtype in itertools.product(kinds.items(), ("strided", "transposed", "base0"), ("float64", "int64")):
                shape = () if form == "base0" else (2, 3) if form == "transposed" else (4,)
                data = (np.arange(1, 1 + (int(np.prod(shape)) if shape else 1)) / 4.0 + 0.25).astype(dtype).reshape(shape)
                for call in ("call", "out", "out-wrong-shape", "out-int", "out-self"):
                    if form == "base0" and call != "call":
                        continue
                    ctx.count("evaluations")
                    a = mkq(data, unit, "base" if form == "base0" else form)
                    outb = None
                    if call == "out":
                        outb = mkq(np.zeros(shape), "kg", "strided")
                    elif call == "out-wrong-shape":
                        outb = mkq(np.zeros((5,)), "kg", "strided")
                    elif call == "out-int":
                        outb = mkq(np.zeros(shape, dtype="int64"), "kg", "strided")
                    elif call == "out-self":
                        outb = a
                    sa, so = snap(a), snap(outb) if outb is not None else None
                    if call == "call":
                        st, r = run_call(lambda: uf(a))
                    else:
                        st, r = run_call(lambda: uf(a, out=outb) if uf.nout == 1 else uf(a, out=(outb, None)))
                    ctx.outcome(("ufunc1", name, kname, call, st))
                    ctx.decided(("ufunc1", name, kname, form, dtype, call))
                    case = {"part": "ufunc", "name": name, "kind": kname, "form": form, "dtype": dtype, "call": call}
                    base = f"C18|ufunc|name={name}|call={call}|operand={kname}"
                    if call != "out-self":
                        d = diff(sa, snap(a))
                        if d:
                            ctx.violation(base + f"|outcome={st}|mode=input-changed:{d}", case, "unchanged", d)
                    if outb is not None and st == "raise":
                        d = diff(so if call != "out-self" else sa, snap(outb))
                        if d in ("numbers", "unit", "parent-numbers", "shape"):
                            ctx.violation(base + f"|mode=failed-call-changed-out-buffer:{d}", case, type(r).__name__, d)
                    if outb is not None and st == "ok" and call in ("out", "out-self") and not (call == "out-self" and dtype == "int64"):
                        st2, ref = run_call(lambda: uf(mkq(data, unit, "base")))
                        if st2 == "ok":
                            ref0 = ref[0] if isinstance(ref, tuple) else ref
                            _cmp_target(ctx, base, case, outb, ref0)
        elif uf.nin == 2:
            right_kinds = {
                "same": ("m", 1),
                "commensurable": ("km", 1),
                "incommensurable": ("s", 1),
                "dimless": ("dimensionless", 1),
                "bare": (None, 1),
                "offset": ("degC", 1),
                "unknown-obj": ("obj", 1),
                # same dimension, different scale, fractional power: the quotient keeps a numeric factor in its unit
                "fractional-power": ("sqrt(cm)", 1),
                "fractional-power-1.5": ("cm**1.5", 1),
                # the TARGET itself is on an offset or logarithmic scale and the partner is a plain number: what is refused must
                # be refused before anything is written
                "left-offset": (None, 1),
                "left-offset-scaled": (None, 1),
                "left-log": (None, 1),
            }
            for (kname, (runit, _)), form, dtype in itertools.product(right_kinds.items(), ("strided", "transposed"), ("float64", "int64")):
                shape = (2, 3) if form == "transposed" else (4,)
                n = int(np.prod(shape))
                da = (np.arange(1, 1 + n) * 2).astype(dtype).reshape(shape)
                db = (np.arange(1, 1 + n) + 1).astype(dtype).reshape(shape)

                def mk_b():
                    if runit is None:
                        return view_of(db, form)[0]
                    if runit == "obj":
                        return "text"
                    return mkq(db, runit, form)

                iop = {"add": operator.iadd, "subtract": operator.isub, "multiply": operator.imul, "true_divide": operator.itruediv, "floor_divide": operator.ifloordiv, "remainder": operator.imod, "power": operator.ipow}.get(name)
                calls = ["call", "out", "out-int", "out-wrong-shape", "out-left", "out-right"] + (["inplace-op"] if iop else [])
                lunit0 = {"fractional-power": "sqrt(m)", "fractional-power-1.5": "m**1.5", "left-offset": "degC", "left-log": "dB", "left-offset-scaled": "degF"}.get(kname, "m")
                for call, lunit in [(c, lunit0) for c in calls] + ([(c, lu) for c in ("call", "inplace-op") for lu in ("km/s/Mpc", "m**2/cm", "J/erg") if c in calls] if kname in ("bare", "dimless", "same") else []):
                    ctx.count("evaluations")
                    a, b = mkq(da, lunit, form), (mk_b() if not (kname == "same" and lunit != "m") else mkq(db, lunit, form))
                    if call == "out-right" and not isinstance(b, unyt_array):
                        continue
                    outb = {"out": lambda: mkq(np.zeros(shape), "kg", "strided"), "out-int": lambda: mkq(np.arange(3, 3 + n).reshape(shape).astype("int64"), "kg", "strided"), "out-wrong-shape": lambda: mkq(np.zeros((5,)), "kg", "strided"), "out-left": lambda: a, "out-right": lambda: b}.get(call, lambda: None)()
                    sa, sb, so = snap(a), snap(b), snap(outb) if outb is not None else None
                    if call == "call":
                        st, r = run_call(lambda: uf(a, b))
                    elif call == "inplace-op":
                        tgt = a
                        st, r = run_call(lambda: iop(tgt, b))
                        outb = a
                        so = sa
                    else:
                        st, r = run_call(lambda: uf(a, b, out=outb) if uf.nout == 1 else uf(a, b, out=(outb, None)))
                    ctx.outcome(("ufunc2", name, kname, call, st))
                    ctx.decided(("ufunc2", name, kname, form, dtype, call))
                    case = {"part": "ufunc", "name": name, "kind": kname, "form": form, "dtype": dtype, "call": call, "left_unit": lunit}
                    base = f"C18|ufunc|name={name}|call={call}|operand={kname}" + ("" if lunit in ("m", lunit0) else "|left=unsimplified-unit")
                    if outb is not a:
                        d = diff(sa, snap(a))
                        if d:
                            ctx.violation(base + f"|outcome={st}|mode=left-input-changed:{d}", case, "unchanged", d)
                    if outb is not b:
                        d = diff(sb, snap(b))
                        if d:
                            ctx.violation(base + f"|outcome={st}|mode=right-input-changed:{d}", case, "unchanged", d)
                    if outb is not None and st == "raise":
                        d = diff(so, snap(outb))
                        if d in ("numbers", "unit", "parent-numbers", "shape"):
                            ctx.violation(base + f"|mode=failed-call-changed-target:{d}", case, type(r).__name__, d)
                    if outb is not None and st == "ok" and call in ("out", "out-left", "inplace-op"):
                        st2, ref = run_call(lambda: uf(mkq(da, lunit, "base"), (mkq(db, runit if lunit in ("m", lunit0) or kname != "same" else lunit, "base")) if runit not in (None, "obj") else db.copy()))
                        if st2 == "ok":
                            ref0 = ref[0] if isinstance(ref, tuple) else ref
                            _cmp_target(ctx, base, case, outb, ref0)
                            # an augmented assignment re-binds the name to what the operator RETURNS, and a ufunc called with
                            # out= returns its buffer: the returned object is held to the copying result as well
                            r0 = r[0] if isinstance(r, tuple) else r
                            if isinstance(r0, unyt_array) and r0 is not outb:
                                _cmp_target(ctx, base + "|object=returned", case, r0, ref0)


def _cmp_target(ctx, base, case, tgt, ref):
    """a successful in-place/out= call leaves in its target exactly the copying call's result"""
    if not isinstance(tgt, unyt_array):
        return
    ru = getattr(ref, "units", None)
    a = np.asarray(tgt.d)
    b = np.asarray(ref.d if isinstance(ref, unyt_array) else ref)
    if a.shape != b.shape:
        return
    if ru is not None:
        if tgt.units.dimensions != ru.dimensions:
            ctx.violation(base + "|mode=target-unit-differs-from-copying-result", case, str(ru), str(tgt.units))
            return
        a = a * float(tgt.units.base_value)
        b = b * float(ru.base_value)
    if a.dtype.kind == "b" or b.dtype.kind == "b":
        ok = np.array_equal(a.astype(bool), b.astype(bool))
    else:
        with np.errstate(all="ignore"):
            ok = np.allclose(a.astype(complex), b.astype(complex), rtol=1e-12, atol=0, equal_nan=True)
    if not ok:
        ctx.violation(base + "|mode=target-numbers-differ-from-copying-result", case, np.asarray(b).reshape(-1)[:4].tolist(), np.asarray(a).reshape(-1)[:4].tolist())


# ---- part: methods with out= and in-place equivalence chains ------------------------------------------------------------
def part_methods(ctx, shard):
    world.reset_world()
    combos = [("m", "m"), ("m", "s"), ("m", "km"), ("dB", "m"), ("m", "dB"), ("degC", "m"), ("degF", "degF"), ("s", "Np"), ("degC", "degC"), ("dimensionless", "m")]
    two = {
        "a.dot(b,out)": lambda a, b, o: a.dot(b, out=o),
        "np.dot(a,b,out)": lambda a, b, o: np.dot(a, b, out=o),
        "np.matmul(a,b,out)": lambda a, b, o: np.matmul(a, b, out=o),
        "np.multiply(a,b,out)": lambda a, b, o: np.multiply(a, b, out=o),
        "np.divide(a,b,out)": lambda a, b, o: np.divide(a, b, out=o),
        "np.cross-like outer": lambda a, b, o: np.multiply.outer(a[0], b[0], out=o),
        "np.clip(a,b,b,out)": lambda a, b, o: np.clip(a, b.min(), b.max(), out=o),
        "a.clip(b,b,out)": lambda a, b, o: a.clip(b.min(), b.max(), out=o),
        "np.maximum(a,b,out)": lambda a, b, o: np.maximum(a, b, out=o),
        "np.add(a,b,out)": lambda a, b, o: np.add(a, b, out=o),
    }
    one = {
        "a.prod(axis,out)": lambda a, o: a.prod(axis=0, out=o),
        "np.prod(a,axis,out)": lambda a, o: np.prod(a, axis=0, out=o),
        "a.var(axis,out)": lambda a, o: a.var(axis=0, out=o),
        # the function spellings with a BARE buffer (the view .d shares o's memory, so the snapshot of o sees the writes)
        "np.var(a,axis,bare-out)": lambda a, o: np.var(a, axis=0, out=o.d),
        "np.prod(a,axis,bare-out)": lambda a, o: np.prod(a, axis=0, out=o.d),
        "np.std(a,axis,bare-out)": lambda a, o: np.std(a, axis=0, out=o.d),
        "np.mean(a,axis,bare-out)": lambda a, o: np.mean(a, axis=0, out=o.d),
        "np.sum(a,axis,bare-out)": lambda a, o: np.sum(a, axis=0, out=o.d),
        "np.median(a,axis,bare-out)": lambda a, o: np.median(a, axis=0, out=o.d),
        "np.var(a,axis,out)": lambda a, o: np.var(a, axis=0, out=o),
        "a.std(axis,out)": lambda a, o: a.std(axis=0, out=o),
        "a.sum(axis,out)": lambda a, o: a.sum(axis=0, out=o),
        "a.mean(axis,out)": lambda a, o: a.mean(axis=0, out=o),
        "a.max(axis,out)": lambda a, o: a.max(axis=0, out=o),
        "a.cumsum(axis,out)": lambda a, o: a.cumsum(axis=0, out=o),
        "a.cumprod(axis,out)": lambda a, o: a.cumprod(axis=0, out=o),
        "np.multiply.reduce(a,out)": lambda a, o: np.multiply.reduce(a, axis=0, out=o),
        "np.sqrt(a,out)": lambda a, o: np.sqrt(a, out=o),
        "np.exp(a,out)": lambda a, o: np.exp(a, out=o),
        "a.round(out)": lambda a, o: a.round(out=o),
        "np.power(a,2,out)": lambda a, o: np.power(a, 2, out=o),
        "np.power(2,a,out)": lambda a, o: np.power(2.0, a, out=o),
        "np.power(a,a,out)": lambda a, o: np.power(a, a, out=o),
    }
    da = np.array([[1.0, 2.0], [3.0, 4.0]])
    db = np.array([[0.5, 1.5], [2.5, 3.5]])
    for part in shard:
        if part == "two":
            for (ua, ub), (name, f), form in itertools.product(combos, two.items(), ("base", "strided")):
                ctx.count("evaluations")
                a, b = mkq(da, ua, form), mkq(db, ub, form)
                o = mkq(np.zeros((2, 2)), "kg", form)
                sa, sb, so = snap(a), snap(b), snap(o)
                st, r = run_call(lambda: f(a, b, o))
                ctx.outcome(("method2", name, ua, ub, st))
                ctx.decided(("method2", name, ua, ub, form))
                case = {"part": "methods", "which": "two", "call": name, "ua": ua, "ub": ub, "form": form}
                base = f"C18|method|call={name}|units={ua},{ub}"
                for lab, before, x in (("left", sa, a), ("right", sb, b)):
                    d = diff(before, snap(x))
                    if d:
                        ctx.violation(base + f"|outcome={st}|mode={lab}-input-changed:{d}", case, "unchanged", d)
                if st == "raise":
                    d = diff(so, snap(o))
                    if d in ("numbers", "unit", "parent-numbers", "shape"):
                        ctx.violation(base + f"|mode=failed-call-changed-out-buffer:{d}", case, type(r).__name__, d)
        else:
            for ua, (name, f), form in itertools.product(["m", "dB", "degC", "dimensionless", "degree"], one.items(), ("base", "strided")):
                ctx.count("evaluations")
                a = mkq(da, ua, form)
                full = name.startswith(("a.cum", "np.sqrt", "np.exp", "a.round", "np.power"))
                o = mkq(np.zeros((2, 2) if full else (2,)), "kg", form)
                sa, so = snap(a), snap(o)
                st, r = run_call(lambda: f(a, o))
                ctx.outcome(("method1", name, ua, st))
                ctx.decided(("method1", name, ua, form))
                case = {"part": "methods", "which": "one", "call": name, "ua": ua, "form": form}
                base = f"C18|method|call={name}|units={ua}"
                d = diff(sa, snap(a))
                if d:
                    ctx.violation(base + f"|outcome={st}|mode=input-changed:{d}", case, "unchanged", d)
                if st == "raise":
                    d = diff(so, snap(o))
                    if d in ("numbers", "unit", "parent-numbers", "shape"):
                        ctx.violation(base + f"|mode=failed-call-changed-out-buffer:{d}", case, type(r).__name__, d)


def part_equiv_inplace(ctx, shard):
    """every in-place equivalence chain: a refusal (wrong keyword, offset source, uncovered target) leaves the target alone"""
    world.reset_world()
    from checks import c09

    F = c09.formulas()
    for eq in shard:
        dims = sorted({d for pair in F[eq] for d in pair})
        for (fd, td), form, dtype in itertools.product(itertools.product(c09.UNITS, c09.UNITS), ("base", "strided"), ("float64", "float32", "int64")):
            if fd not in dims:
                continue
            fu = c09.UNITS[fd][0]
            for tu in c09.UNITS[td][:2]:
                for ename, kw in (("default", {}), ("bad-kwarg", {"nosuchparam": 1})):
                    for rname, call in (
                        ("convert_to_equivalent", lambda q: q.convert_to_equivalent(tu, eq, **kw)),
                        ("convert_to_units(equivalence)", lambda q: q.convert_to_units(tu, equivalence=eq, **kw)),
                    ):
                        ctx.count("evaluations")
                        vals = c09.src_values(eq, fd)
                        data = (np.asarray(vals) / float(Unit(fu).base_value)).astype(dtype)
                        if dtype == "int64":
                            data = np.array([2, 3, 5], dtype="int64")
                        q = mkq(data, fu, form)
                        before = snap(q)
                        st, r = run_call(lambda: call(q))
                        ctx.outcome(("equiv", eq, fd, td, rname, ename, st, dtype))
                        ctx.decided(("equiv", eq, fu, tu, rname, ename, form, dtype))
                        if ename == "default":
                            # the copying twin called right AFTER the in-place call with the same equivalence (w8: equivalence
                            # objects memoised per class, so the in-place flag of the first call leaked into the second)
                            q2 = mkq(data.copy(), fu, form)
                            b2 = snap(q2)
                            st2, _r2 = run_call(lambda: q2.to_equivalent(tu, eq) if rname == "convert_to_equivalent" else q2.to(tu, equivalence=eq))
                            d2 = diff(b2, snap(q2))
                            ctx.decided(("equiv-sequence", eq, fu, tu, rname, form, dtype))
                            if d2 is not None:
                                ctx.violation(
                                    f"C18|equiv-sequence|eq={eq}|pair={fd}->{td}|first={rname}|dtype={dtype}|mode=copying-call-after-in-place-call-changed-operand:{d2}",
                                    {"part": "equiv", "eq": eq, "from": fu, "to": tu, "route": rname, "kw": ename, "form": form, "dtype": dtype},
                                    "unchanged",
                                    d2,
                                )
                        if st == "raise":
                            d = diff(before, snap(q))
                            if d in ("numbers", "unit", "parent-numbers", "parent-unit", "shape"):
                                covered = "covered" if (fd, td) in F[eq] else "same-dimension" if fd == td else "uncovered"
                                ctx.violation(
                                    f"C18|equiv|eq={eq}|pair={fd}->{td}|request={covered}|kwargs={ename}|route={rname}|dtype={dtype}|mode=failed-in-place-call-changed-target:{d}",
                                    {"part": "equiv", "eq": eq, "from": fu, "to": tu, "route": rname, "kw": ename, "form": form, "dtype": dtype},
                                    type(r).__name__,
                                    d,
                                )


# ---- part: item assignment -----------------------------------------------------------------------------------------
def part_setitem(ctx, shard):
    world.reset_world()
    idxs = {"int": 0, "slice": slice(0, 2), "mask": np.array([True, False, True, False]), "fancy": [0, 3], "ellipsis": Ellipsis}
    values = {
        "same": lambda: unyt_quantity(7.0, "m"),
        "commensurable": lambda: unyt_quantity(7.0, "km"),
        "commensurable-array": lambda: mkq(np.array([7.0, 8.0]), "km", "strided"),
        "incommensurable": lambda: unyt_quantity(7.0, "s"),
        "incommensurable-array": lambda: mkq(np.array([7.0, 8.0]), "s", "strided"),
        "offset": lambda: unyt_quantity(7.0, "degC"),
        "bare": lambda: 7.0,
        "text": lambda: "seven",
        "wrong-shape": lambda: unyt_array(np.arange(3.0), "m"),
    }
    for dtype in shard:
        for (iname, idx), (vname, mkv), form in itertools.product(idxs.items(), values.items(), ("base", "strided")):
            ctx.count("evaluations")
            x = mkq(np.arange(1, 5).astype(dtype), "m", form)
            v = mkv()
            sx, sv = snap(x), snap(v)
            st, r = run_call(lambda: x.__setitem__(idx, v))
            ctx.outcome(("setitem", iname, vname, dtype, st))
            ctx.decided(("setitem", iname, vname, dtype, form))
            case = {"part": "setitem", "dtype": dtype, "idx": iname, "value": vname, "form": form}
            base = f"C18|setitem|idx={iname}|value={vname}|dtype={dtype}"
            d = diff(sv, snap(v))
            if d:
                ctx.violation(base + f"|mode=assigned-value-changed:{d}", case, "unchanged", d)
            after = snap(x)
            if st == "raise":
                d = diff(sx, after)
                if d:
                    ctx.violation(base + f"|mode=failed-assignment-changed-target:{d}", case, type(r).__name__, d)
                continue
            if after[4] != sx[4]:
                ctx.violation(base + "|mode=assignment-changed-target-unit", case, sx[4], after[4])
            if isinstance(v, unyt_array) and vname.startswith(("same", "commensurable")):
                want = np.arange(1, 5).astype(dtype).astype(float)
                conv = np.asarray(v.to("m").d, dtype=float)
                want[idx] = conv
                got = np.asarray(x.d, dtype=float)
                if dtype.startswith("float") and not np.allclose(got, want, rtol=1e-6):
                    ctx.violation(base + "|mode=assigned-numbers-are-not-the-converted-value", case, want.tolist(), got.tolist())


# ---- part: array-function catalogue on views ------------------------------------------------------------------------
def part_catalog(ctx, shard):
    world.reset_world()
    for i in shard:
        t = R.TEMPLATES[i]
        if t.cls == "refuse":
            continue
        dt = R.template_dts(t)[0]
        data = core.build_data(t, 0, dt)
        slots = [s for (s, _, _) in t.inputs.values() if s]
        qnames = [n for n, (s, _, _) in t.inputs.items() if s]
        # deviation 0: all valid; deviation 1: each quantity operand in turn gets an incommensurable unit
        plans = [("valid", None)] + [("bad-unit@" + n, n) for n in qnames if len(qnames) >= 2]
        if "out" in t.flags.get("inplace", ()) and t.inputs["out"][0]:
            # a refusal that comes from NumPy itself (buffer of the wrong shape), with the buffer in another unit of the dimension
            plans.append(("out-misfit", None))
        for pname, bad in plans:
            ctx.count("evaluations")
            kw = {}
            for n, (slot, shape, gen) in t.inputs.items():
                v = data[n]
                if slot is None:
                    kw[n] = v.copy() if v.ndim else v[()]
                    continue
                unit = {"X": "m", "Y": "s", "W": "g"}[slot[0]]
                if n == bad:
                    unit = "K" if unit != "K" else "m"
                if pname == "out-misfit" and n == "out":
                    unit = {"m": "km", "s": "hr", "g": "kg"}[unit]
                    v = np.full((v.shape[:-1] + (v.shape[-1] + 2,)) if v.ndim else (2,), 5.0)
                kw[n] = mkq(v, unit, "strided" if v.ndim else "base")
            inpl = set(t.flags.get("inplace", ()))
            before = {n: snap(v) for n, v in kw.items()}
            st, tr, _ = R.execute(t, kw)
            ctx.outcome(("catalog", t.func, pname.split("@")[0], st))
            ctx.decided(("catalog", t.func, t.tid, pname))
            form = t.tid.rsplit("|", 1)[0] if "|" in t.tid else t.tid
            case = {"part": "catalog", "func": t.func, "tid": t.tid, "plan": pname}
            for n, v in kw.items():
                d = diff(before[n], snap(v))
                if not d:
                    continue
                if n in inpl:
                    if st == "raise" and d in ("numbers", "unit", "parent-numbers", "shape"):
                        ctx.violation(f"C18|catalog|func={t.func}|form={form}|plan={pname.split('@')[0]}|operand={n}|mode=failed-call-changed-target:{d}", case, "unchanged", d)
                    elif st == "ok" and isinstance(v, np.ndarray) and v.ndim and d == "parent-numbers":
                        # a legitimate write goes through the view only: the filler columns of the parent must survive
                        b = v
                        while isinstance(b.base, np.ndarray):
                            b = b.base
                        pb = np.asarray(b)
                        if pb.shape[-1] == 2 * v.shape[-1] and not np.all(pb[..., 1::2] == 77):
                            ctx.violation(f"C18|catalog|func={t.func}|form={form}|operand={n}|mode=parent-changed-outside-the-view", case, 77, None)
                    continue
                ctx.violation(f"C18|catalog|func={t.func}|form={form}|plan={pname.split('@')[0]}|operand={n}|outcome={st}|mode=input-changed:{d}", case, "unchanged", d)


# ---- part: Unit arithmetic -------------------------------------------------------------------------------------------
def part_unit(ctx, shard):
    world.reset_world()
    names = ["m", "km", "g", "s", "K", "degC", "dB", "degree", "J", "N*m", "dimensionless", "percent", "m/s", "kg*m**2/s**2", "sqrt(m)", "Msun", "statC", "T",
             "m**2/cm", "km*s/m", "kHz*s", "erg/J", "hr/s"]  # the last five hold factors that cancel: simplify() has something to rewrite
    ops1 = {
        "copy": lambda u: u.copy(),
        "deepcopy": lambda u: u.copy(deep=True),
        "get_base_equivalent": lambda u: u.get_base_equivalent(),
        "get_base_equivalent(cgs)": lambda u: u.get_base_equivalent("cgs"),
        "get_base_equivalent(galactic)": lambda u: u.get_base_equivalent("galactic"),
        "get_cgs_equivalent": lambda u: u.get_cgs_equivalent(),
        "get_mks_equivalent": lambda u: u.get_mks_equivalent(),
        "as_coeff_unit": lambda u: u.as_coeff_unit(),
        "simplify": lambda u: u.simplify(),  # documented to return a new unit
        "simplify-then-str": lambda u: str(u.simplify()),
        "pow2": lambda u: u**2,
        "pow0.5": lambda u: u**0.5,
        "pow-1": lambda u: u**-1,
        "powUnit": lambda u: u**u,
        "inv": lambda u: 1 / u,
        "mul-number": lambda u: 3.0 * u,
        "mul-array": lambda u: np.arange(3.0) * u,
        "list_equivalencies": lambda u: u.list_equivalencies(),
        "latex": lambda u: u.latex_representation(),
        "str": lambda u: str(u),
        "hash": lambda u: hash(u),
        "is_dimensionless": lambda u: u.is_dimensionless,
        "pickle": lambda u: __import__("pickle").dumps(u),
    }
    ops2 = {
        "mul": operator.mul,
        "div": operator.truediv,
        "eq": operator.eq,
        "add": operator.add,
        "sub": operator.sub,
        "same_dimensions_as": lambda a, b: a.same_dimensions_as(b),
        "get_conversion_factor": lambda a, b: a.get_conversion_factor(b),
    }
    for n1 in shard:
        u = Unit(n1)
        lut_before = dict(u.registry.lut)
        for oname, f in ops1.items():
            ctx.count("evaluations")
            b = udig(u)
            st, r = run_call(lambda: f(u))
            ctx.outcome(("unit1", oname, n1, st))
            ctx.decided(("unit1", oname, n1))
            if udig(u) != b:
                ctx.violation(f"C18|unit|op={oname}|outcome={st}|mode=operand-changed", {"part": "unit", "u": n1, "op": oname}, b, udig(u))
            elif udig(Unit(n1)) != b:
                # the unit the registry hands out for this string is no longer what it was
                ctx.violation(f"C18|unit|op={oname}|outcome={st}|mode=registry's-unit-for-the-string-changed", {"part": "unit", "u": n1, "op": oname}, b, udig(Unit(n1)))
        for n2, (oname, f) in itertools.product(names, ops2.items()):
            ctx.count("evaluations")
            v = Unit(n2)
            b1, b2 = udig(u), udig(v)
            st, r = run_call(lambda: f(u, v))
            ctx.outcome(("unit2", oname, st))
            ctx.decided(("unit2", oname, n1, n2))
            if udig(u) != b1 or udig(v) != b2:
                ctx.violation(f"C18|unit|op={oname}|outcome={st}|mode=operand-changed", {"part": "unit", "u": n1, "v": n2, "op": oname}, (b1, b2), (udig(u), udig(v)))
        if {k: v for k, v in u.registry.lut.items() if k in lut_before} != lut_before:
            ctx.violation("C18|unit|mode=registry-row-changed", {"part": "unit", "u": n1}, None, None)
        # data (op) Unit returns a NEW object: writing into the result afterwards must not reach the operand
        base_arr = np.arange(1.0, 7.0)
        holders = {
            "ndarray": lambda: base_arr.copy(),
            "ndarray-view": lambda: base_arr.copy()[::2],
            "ndarray-0d": lambda: np.array(2.5),
            "unyt_array": lambda: unyt_array(base_arr.copy(), "s"),
            "unyt_array-view": lambda: unyt_array(base_arr.copy(), "s")[1:4],
            "unyt_quantity": lambda: unyt_quantity(2.5, "s"),
            "int-ndarray": lambda: np.arange(1, 5),
        }
        forms = {"data*unit": lambda d: d * u, "unit*data": lambda d: u * d, "data/unit": lambda d: d / u}
        for (hname, mk), (fname, f) in itertools.product(holders.items(), forms.items()):
            ctx.count("evaluations")
            d = mk()
            parent = d.base if isinstance(d, np.ndarray) and d.base is not None else d
            before = (np.array(np.asarray(d), copy=True), np.array(np.asarray(parent), copy=True), str(getattr(d, "units", None)))
            st, r = run_call(lambda: f(d))
            ctx.outcome(("unit-data", fname, hname, st))
            if st != "ok" or not isinstance(r, np.ndarray):
                continue
            ctx.decided(("unit-data", n1, hname, fname))
            case = {"part": "unit", "u": n1, "op": fname, "holder": hname}
            if np.shares_memory(np.asarray(r), np.asarray(parent)):
                ctx.violation(f"C18|unit|op={fname}|holder={hname}|mode=result-shares-memory-with-operand", case, "new object", "alias")
            # every in-place route on the result, then look at the operand again
            for wname, wf in (("fill", lambda x: x.view(np.ndarray).fill(-7.0)), ("imul", lambda x: x.__imul__(3.0)), ("convert_to_base", lambda x: x.convert_to_base())):
                r2 = f(mk()) if wname != "fill" else r
                if wname != "fill":
                    d2 = mk()
                    parent2 = d2.base if isinstance(d2, np.ndarray) and d2.base is not None else d2
                    r2 = f(d2)
                    st2, _ = run_call(lambda: wf(r2))
                    after = (np.asarray(d2), np.asarray(parent2), str(getattr(d2, "units", None)))
                else:
                    st2, _ = run_call(lambda: wf(r2))
                    after = (np.asarray(d), np.asarray(parent), str(getattr(d, "units", None)))
                if not (np.array_equal(after[0], before[0]) and np.array_equal(after[1], before[1]) and after[2] == before[2]):
                    ctx.violation(f"C18|unit|op={fname}|holder={hname}|write={wname}|mode=writing-into-the-result-changed-the-operand", case, before[0].tolist(), np.asarray(after[0]).tolist())
    return names


UNIT_NAMES = ["m", "km", "g", "s", "K", "degC", "dB", "degree", "J", "N*m", "dimensionless", "percent", "m/s", "kg*m**2/s**2", "sqrt(m)", "Msun", "statC", "T",
              "m**2/cm", "km*s/m", "kHz*s", "erg/J", "hr/s"]


def run(ctx):
    import unyt.array as ua

    harness.pmap(ctx, part_convert, [[d] for d in CONV_DTYPES])
    ufs = sorted((f for f in ua.unyt_array._ufunc_registry if isinstance(f, np.ufunc)), key=lambda f: f.__name__)
    harness.pmap(ctx, part_ufunc, [[f] for f in ufs])
    harness.pmap(ctx, part_setitem, [["float64"], ["int64"], ["float32"]])
    harness.pmap(ctx, part_methods, [["two"], ["one"]])
    from checks import c09

    harness.pmap(ctx, part_equiv_inplace, [[e] for e in c09.EQS])
    idx = list(range(len(R.TEMPLATES)))
    harness.pmap(ctx, part_catalog, [idx[i::32] for i in range(32)])
    harness.pmap(ctx, part_unit, [[n] for n in UNIT_NAMES])
    return {
        "coverage": {
            "rule": "one evaluation = one call on freshly built operands that are views of parent arrays, with bytes/dtype/shape/unit/"
            "name of every operand and the bytes/unit of every parent snapshotted before and after; deviation 0 = all operands valid, "
            "deviation 1 = one invalid operand (wrong dimension, unknown or malformed unit string, offset/logarithmic unit, unknown "
            "unit system or equivalence, bad equivalence keyword, uncovered equivalence, non-numeric object, wrong-shaped or integer "
            "out buffer, incommensurable unit on one array-function operand) at each position in turn",
            "conversion_targets": list(TARGETS),
            "copy_routes": list(COPY_ROUTES) + list(NOARG_COPY),
            "inplace_routes": list(INPLACE_ROUTES) + list(NOARG_INPLACE),
            "dtypes": CONV_DTYPES,
            "ufuncs": len(ufs),
            "templates": len(R.TEMPLATES),
            "unit_operands": UNIT_NAMES,
            "deviation_bound_completed": 1,
        },
        "assumptions": [
            "a successful in-place change of a view is visible through its parent by NumPy semantics: only parent bytes outside the view's footprint must survive",
            "dtype relabelling of an integer target that preserves its numbers is not a change of 'numbers and unit'",
            "faults inside NumPy (MemoryError etc.) are not injected: the fault alphabet is invalid inputs",
        ],
    }


def replay(case):
    import unyt.array as ua

    ctx = harness.Ctx(PROPERTY, "quick", 0)
    p = case["part"]
    if p == "convert":
        part_convert(ctx, [case["dtype"]])
    elif p == "ufunc":
        part_ufunc(ctx, [f for f in ua.unyt_array._ufunc_registry if isinstance(f, np.ufunc) and f.__name__ == case["name"]])
    elif p == "setitem":
        part_setitem(ctx, [case["dtype"]])
    elif p == "methods":
        part_methods(ctx, [case["which"]])
    elif p == "equiv":
        part_equiv_inplace(ctx, [case["eq"]])
    elif p == "catalog":
        part_catalog(ctx, [k for k, t in enumerate(R.TEMPLATES) if t.func == case["func"] and t.tid == case["tid"]])
    else:
        part_unit(ctx, [case["u"]])
    return list(ctx.violations.items())
