"""C01  Incommensurable quantities are never silently combined.

Exhaustive product:  operation x call form x (left kind, right kind) x dimension pair x shape.
The classification of operations ("needs operands of one dimension") is typed here from NumPy's
semantics, NOT read from unyt's _ufunc_registry.  Oracle (from the statement): when the reference
dimensions of the two operands differ the call must raise, except ==/!= (all-False/all-True), an
all-zero bare operand, and ordering comparisons with a dimensionless operand.  On every execution the
bytes and units of every operand are compared before/after.
"""

import itertools
import operator

import numpy as np

from mc import harness, world
from mc.ref.dims import dim_of

PROPERTY = "C01"

import unyt
from unyt import unyt_array, unyt_quantity
from unyt.unit_object import Unit

# ---- operand kinds ------------------------------------------------------------------------------------
KINDS = ["same", "other", "diff", "dimless", "pct", "bscalar", "barray", "zero", "qlist", "empty", "qmixlist", "zeroq", "zeroqlist"]
# (anchor unit, other unit of the same dimension, unit of a different dimension)
DIM_TRIPLES_QUICK = [("m", "km", "s"), ("m", "cm", "erg"), ("g", "kg", "degree"), ("K", "R", "m"), ("A", "mA", "s"), ("G", "mG", "kg"), ("degC", "degF", "s")]  # A, G: SI and Gaussian electromagnetic atoms (a conversion branch of their own); degC: scales with a zero point (branches of their own in reduce(initial=), add, subtract)
SHAPES = ["scalar", "array", "bcast"]

VALS_A = [1.5, -2.25, 3.0]
VALS_B = [0.5, 4.0, -1.0]


def mk(kind, triple, shape, side, seed=0):
    """Build an operand.  side 0/1 selects the payload so that both sides differ."""
    vals = (VALS_A, VALS_B)[(side + seed) % 2]
    u, uo, ud = triple
    if shape == "scalar":
        data = vals[0]
    elif shape == "array" or side == 1:
        data = np.array(vals)
    else:
        data = np.array([vals, vals[::-1]])  # (2,3) on the left, (3,) on the right
    unit = {"same": u, "other": uo, "diff": ud, "dimless": "dimensionless", "pct": "%"}.get(kind)
    if unit is not None:
        if np.ndim(data) == 0:
            return unyt_quantity(data, unit)
        return unyt_array(np.array(data), unit)
    if kind == "zeroq":
        # a quantity whose numbers are all zero still has its unit: it is no "bare zero"
        return unyt_quantity(0.0, u) if np.ndim(data) == 0 else unyt_array(np.zeros(np.shape(data)), u)
    if kind == "zeroqlist":
        return [unyt_quantity(0.0, u) for _ in vals]
    if kind == "bscalar":
        return 2.5
    if kind == "barray":
        return np.array(data, dtype=float) if np.ndim(data) else np.array([data])
    if kind == "zero":
        if shape == "scalar":
            return 0
        return np.zeros(np.shape(data)) if side == 0 else [0.0] * 3
    if kind == "qlist":
        return [unyt_quantity(v, ud) for v in vals]
    if kind == "empty":
        return unyt_array(np.array([], dtype=float), ud)  # nothing in it, but it still has the other dimension
    if kind == "qmixlist":
        return [unyt_quantity(vals[0], u), 5.0, unyt_quantity(vals[2], u)]  # a non-zero bare number among quantities
    raise ValueError(kind)


def rdim(kind, triple):
    """reference dimension of an operand kind: RDim, or 'bare', or 'zero'."""
    u, uo, ud = triple
    if kind in ("same", "other", "zeroq", "zeroqlist"):
        return dim_of(Unit(u).dimensions)
    if kind in ("diff", "qlist", "empty"):
        return dim_of(Unit(ud).dimensions)
    if kind == "qmixlist":
        return "mixed"
    if kind in ("dimless", "pct"):
        return dim_of(1)
    return "zero" if kind == "zero" else "bare"


def is_q(kind):
    return kind in ("same", "other", "diff", "dimless", "pct", "qlist", "empty", "qmixlist", "zeroq", "zeroqlist")


# ---- operations ------------------------------------------------------------------------------------------
ARITH_UFUNCS = ["add", "subtract", "maximum", "minimum", "fmax", "fmin", "hypot", "remainder", "mod", "fmod", "arctan2"]
ORDER_UFUNCS = ["less", "less_equal", "greater", "greater_equal"]
EQ_UFUNCS = ["equal", "not_equal"]


def _res_buf(x, y):
    shp = np.broadcast(np.asarray(_strip(x)), np.asarray(_strip(y))).shape
    return unyt_array(np.full(shp, 7.0), "kg")


def _strip(o):
    if isinstance(o, list):
        return [float(np.asarray(i)) for i in o]
    return np.asarray(o)


def build_ops():
    ops = []  # (name, form, klass, func(x,y)->result, requires)

    def uf(name, klass):
        f = getattr(np, name)
        ops.append((name, "call", klass, lambda x, y, f=f: f(x, y), None))
        ops.append((name, "out", klass, lambda x, y, f=f: f(x, y, out=_res_buf(x, y)), "out"))
        ops.append((name, "outer", klass, lambda x, y, f=f: f.outer(x, y), None))
        ops.append((name, "reduce_initial", klass, lambda x, y, f=f: f.reduce(x, initial=y), "reduce"))
        ops.append((name, "at", klass, lambda x, y, f=f: f.at(x, [0], y), "at"))

    for n in ARITH_UFUNCS:
        uf(n, "arith")
    for n in ORDER_UFUNCS:
        uf(n, "order")
    for n in EQ_UFUNCS:
        uf(n, "eq" if n == "equal" else "ne")
    ops.append(("divmod", "call", "arith", lambda x, y: np.divmod(x, y), None))
    ops.append(("clip", "ufunc3", "into", lambda x, y: np.clip(x, y, y), "leftq"))
    ops.append(("clip", "method", "into", lambda x, y: x.clip(y, y), "leftq"))
    # every bound position and spelling separately: an invalid bound next to a valid/open one must still be refused
    ops.append(("clip", "lo_only", "into", lambda x, y: np.clip(x, y, None), "leftq"))
    ops.append(("clip", "hi_only", "into", lambda x, y: np.clip(x, None, y), "leftq"))
    ops.append(("clip", "lo_valid_hi", "into", lambda x, y: np.clip(x, x.copy(), y), "leftq"))
    ops.append(("clip", "lo_hi_valid", "into", lambda x, y: np.clip(x, y, x.copy()), "leftq"))
    ops.append(("clip", "kw_min_max", "into", lambda x, y: np.clip(x, min=y, max=y), "leftq"))
    ops.append(("clip", "kw_min", "into", lambda x, y: np.clip(x, min=y), "leftq"))
    ops.append(("clip", "kw_max", "into", lambda x, y: np.clip(x, max=y), "leftq"))
    ops.append(("clip", "kw_a_min_a_max", "into", lambda x, y: np.clip(x, a_min=y, a_max=y), "leftq"))
    ops.append(("clip", "pos_lo_kw_max", "into", lambda x, y: np.clip(x, x.copy(), max=y), "leftq"))
    ops.append(("clip", "out", "into", lambda x, y: np.clip(x, y, y, out=x.copy()), "leftq"))
    for sym, f, klass in [
        ("+", operator.add, "arith"),
        ("-", operator.sub, "arith"),
        ("%", operator.mod, "arith"),
        ("divmod", divmod, "arith"),
        ("<", operator.lt, "order"),
        ("<=", operator.le, "order"),
        (">", operator.gt, "order"),
        (">=", operator.ge, "order"),
        ("==", operator.eq, "eq"),
        ("!=", operator.ne, "ne"),
    ]:
        ops.append((sym, "operator", klass, lambda x, y, f=f: f(x, y), None))
    for sym, f in [("+=", operator.iadd), ("-=", operator.isub), ("%=", operator.imod)]:
        ops.append((sym, "inplace", "arith", lambda x, y, f=f: f(x, y), "inplace"))
    # array functions that merge values of several arrays into one
    M = "merge"
    ops += [
        ("concatenate", "func", M, lambda x, y: np.concatenate([_1d(x), _1d(y)]), None),
        ("concatenate", "func3_last", M, lambda x, y: np.concatenate([_1d(x), _1d(x), _1d(y)]), "leftq"),
        ("concatenate", "func3_mid", M, lambda x, y: np.concatenate([_1d(x), _1d(y), _1d(x)]), "leftq"),
        ("concatenate", "tuple_axis", M, lambda x, y: np.concatenate((_1d(x), _1d(y)), axis=0), None),
        ("stack", "func", M, lambda x, y: np.stack([x, y]), "sameshape"),
        ("stack", "func3_last", M, lambda x, y: np.stack([x, x, y]), "sameshape"),
        ("stack", "out", M, lambda x, y: np.stack([x, y], out=unyt_array(np.zeros((2,) + np.shape(_strip(x))), "kg")), "sameshape_q"),
        ("concatenate", "out", M, lambda x, y: np.concatenate([_1d(x), _1d(y)], out=unyt_array(np.zeros(np.size(_strip(x)) + np.size(_strip(y))), "kg")), "bothq"),
        ("stack", "out-left-unit", M, lambda x, y: np.stack([x, y], out=unyt_array(np.zeros((2,) + np.shape(_strip(x))), x.units)), "sameshape_q"),
        ("vstack", "func", M, lambda x, y: np.vstack([x, y]), None),
        ("hstack", "func", M, lambda x, y: np.hstack([_1d(x), _1d(y)]), None),
        ("dstack", "func", M, lambda x, y: np.dstack([x, y]), "sameshape"),
        ("column_stack", "func", M, lambda x, y: np.column_stack([_1d(x), _1d(y)]), "sameshape"),
        ("block", "func", M, lambda x, y: np.block([_1d(x), _1d(y)]), None),
        ("append", "func", M, lambda x, y: np.append(x, y), None),
        ("where", "func", M, lambda x, y: np.where(np.asarray(_strip(x)) > 0, x, y), None),
        ("select", "func", M, lambda x, y: np.select([np.asarray(_strip(x)) > 0], [x], default=y), "leftq"),
        ("select2", "func", M, lambda x, y: np.select([np.asarray(_strip(x)) > 0, np.asarray(_strip(x)) < 0], [x, y]), "sameshape"),
        ("choose", "func", M, lambda x, y: np.choose(np.zeros(np.shape(_strip(x)), dtype=int), [x, y]), "sameshape"),
        ("union1d", "func", M, lambda x, y: np.union1d(_1d(x), _1d(y)), None),
        ("intersect1d", "func", M, lambda x, y: np.intersect1d(_1d(x), _1d(y)), None),
        ("setdiff1d", "func", M, lambda x, y: np.setdiff1d(_1d(x), _1d(y)), None),
        ("setxor1d", "func", M, lambda x, y: np.setxor1d(_1d(x), _1d(y)), None),
        ("isin", "func", M, lambda x, y: np.isin(x, y), None),
        ("linspace", "func", M, lambda x, y: np.linspace(x, y, 4), None),
        ("geomspace", "func", M, lambda x, y: np.geomspace(np.abs(x) + 1 * x.units, np.abs(y) + 1 * y.units, 4), "bothq"),
        ("interp", "func", M, lambda x, y: np.interp(x, np.sort(_1d(y)), np.arange(np.size(_strip(y)), dtype=float)), None),
        ("allclose", "func", "close", lambda x, y: np.allclose(x, y), None),
        ("isclose", "func", "close", lambda x, y: np.isclose(x, y), None),
    ]
    I = "into"
    ops += [
        ("insert", "func", I, lambda x, y: np.insert(_1d(x), 1, y), "leftq"),
        ("pad", "constant_values", I, lambda x, y: np.pad(_1d(x), 1, constant_values=_first(y)), "leftq"),
        ("pad", "constant_values-pair", I, lambda x, y: np.pad(_1d(x), (1, 2), constant_values=(_first(y), _first(y))), "leftq"),
        ("pad", "constant_values-nested", I, lambda x, y: np.pad(_1d(x), 1, constant_values=((_first(y), _first(x)),)), "leftq"),
        ("pad", "end_values", I, lambda x, y: np.pad(_1d(x), 2, mode="linear_ramp", end_values=_first(y)), "leftq"),
        ("put", "func", I, lambda x, y: np.put(x, [0], y), "lefta"),
        ("place", "func", I, lambda x, y: np.place(x, np.ones(x.shape, bool), y), "lefta"),
        ("putmask", "func", I, lambda x, y: np.putmask(x, np.ones(x.shape, bool), y), "lefta"),
        ("put_along_axis", "func", I, lambda x, y: np.put_along_axis(x, np.zeros((1,) * x.ndim, dtype=int), y, 0), "lefta"),
        ("fill_diagonal", "func", I, lambda x, y: np.fill_diagonal(x, y), "left2d"),
        ("copyto", "func", I, lambda x, y: np.copyto(x, y), "lefta"),
        ("copyto_where", "func", I, lambda x, y: np.copyto(x, y, where=_partial_mask(x)), "lefta"),
        ("searchsorted", "func", I, lambda x, y: np.searchsorted(np.sort(_1d(x)), y), "leftq"),
        # boundary values written next to the differences: keyword and positional spelling of each
        ("ediff1d", "to_end-kw", I, lambda x, y: np.ediff1d(_1d(x), to_end=y), "leftq"),
        ("ediff1d", "to_begin-kw", I, lambda x, y: np.ediff1d(_1d(x), to_begin=y), "leftq"),
        ("ediff1d", "to_end-positional", I, lambda x, y: np.ediff1d(_1d(x), y), "leftq"),
        ("ediff1d", "to_begin-positional", I, lambda x, y: np.ediff1d(_1d(x), None, y), "leftq"),
        ("diff", "prepend-kw", I, lambda x, y: np.diff(_1d(x), prepend=_first(y)), "leftq"),
        ("diff", "append-kw", I, lambda x, y: np.diff(_1d(x), append=_first(y)), "leftq"),
        ("diff", "prepend-positional", I, lambda x, y: np.diff(_1d(x), 1, -1, _first(y)), "leftq"),
        ("diff", "append-positional", I, lambda x, y: np.diff(_1d(x), 1, -1, np._NoValue, _first(y)), "leftq"),
        ("interp", "left-kw", I, lambda x, y: np.interp(np.arange(3.0), np.arange(3.0), _1d(x)[:3] if np.size(_strip(x)) >= 3 else np.resize(_1d(x), 3), left=_first(y)), "leftq"),
        ("interp", "right-positional", I, lambda x, y: np.interp(np.arange(3.0), np.arange(3.0), np.resize(_1d(x), 3), None, _first(y)), "leftq"),
        ("setitem_int", "index", I, lambda x, y: x.__setitem__(0, _first(y)), "lefta"),
        ("setitem_slice", "index", I, lambda x, y: x.__setitem__(slice(None), y), "lefta"),
        ("setitem_mask", "index", I, lambda x, y: x.__setitem__(np.ones(x.shape, bool), _first(y)), "lefta"),
        ("setitem_fancy", "index", I, lambda x, y: x.__setitem__([0], _first(y)), "lefta"),
    ]
    C = "convert"
    ops += [
        ("to", "method", C, lambda x, y: x.to(y.units), "bothq1"),
        ("in_units", "method", C, lambda x, y: x.in_units(y.units), "bothq1"),
        ("to_value", "method", C, lambda x, y: x.to_value(y.units), "bothq1"),
        ("convert_to_units", "inplace", C, lambda x, y: x.convert_to_units(y.units), "bothq1"),
        ("to_str", "method", C, lambda x, y: x.to(str(y.units)), "bothq1"),
    ]
    return ops


def _partial_mask(x):
    m = np.zeros(x.shape, bool)
    m.reshape(-1)[0] = True
    return m


def _1d(o):
    if isinstance(o, list):
        return o
    if np.ndim(o) == 0:
        return o.reshape(1) if isinstance(o, np.ndarray) else np.array([o])
    return o.reshape(-1) if np.ndim(o) > 1 else o


def _first(o):
    if isinstance(o, list):
        return o[0]
    if isinstance(o, np.ndarray) and o.ndim > 0:
        return o.reshape(-1)[0]
    return o


OPS = build_ops()


def admissible(op, lk, rk, x, y):
    req = op[4]
    xq = isinstance(x, unyt_array)
    yq = isinstance(y, unyt_array)
    if req == "leftq":
        return xq
    if req in ("lefta", "inplace"):
        return xq and x.ndim > 0
    if req == "left2d":
        return xq and x.ndim == 2
    if req == "out":
        return not isinstance(x, list) and not isinstance(y, list)
    if req == "reduce":
        return xq and x.ndim > 0 and np.ndim(_strip(y)) == 0 and not isinstance(y, list)
    if req == "at":
        return xq and x.ndim == 1 and not isinstance(y, list)
    if req == "sameshape":
        return not isinstance(x, list) and not isinstance(y, list) and np.shape(_strip(x)) == np.shape(_strip(y))
    if req == "sameshape_q":
        return xq and yq and np.shape(_strip(x)) == np.shape(_strip(y))
    if req == "bothq":
        return xq and yq
    if req == "bothq1":
        return xq and yq
    return True


# ---- snapshots -----------------------------------------------------------------------------------------------
def snap(o):
    if isinstance(o, list):
        return tuple(snap(i) for i in o)
    if isinstance(o, unyt_array):
        return (o.tobytes(), str(o.dtype), o.shape, world.unit_digest(o.units))
    if isinstance(o, np.ndarray):
        return (o.tobytes(), str(o.dtype), o.shape, None)
    return ("py", repr(o))


def numbers_units(o):
    """numbers (as float64) + unit: what a failed in-place call must leave unchanged."""
    if isinstance(o, unyt_array):
        return (np.asarray(o.d, dtype=np.complex128 if o.dtype.kind == "c" else float).tobytes(), o.shape, world.unit_digest(o.units))
    return snap(o)


# ---- verdict ----------------------------------------------------------------------------------------------------
def verdict(klass, ld, rd):
    """-> 'must_raise' | 'eq_false' | 'ne_true' | None (no C01 verdict)."""
    if klass == "close":
        return None
    if "mixed" in (ld, rd):
        # a list holding quantities AND a non-zero bare number: the bare number is dimensionless, the list is inconsistent
        other = rd if ld == "mixed" else ld
        return "must_raise" if klass == "arith" and not isinstance(other, str) else None
    lq = not isinstance(ld, str)
    rq = not isinstance(rd, str)
    if lq and rq:
        if ld == rd:
            return None
        if klass == "eq":
            return None if (ld.dimensionless or rd.dimensionless) else "eq_false"
        if klass == "ne":
            return None if (ld.dimensionless or rd.dimensionless) else "ne_true"
        if klass == "order" and (ld.dimensionless or rd.dimensionless):
            return None
        return "must_raise"
    # one side bare
    if not lq and not rq:
        return None
    qd = ld if lq else rd
    bare = rd if lq else ld
    if bare == "zero" or qd.dimensionless:
        return None
    if klass == "arith":
        return "must_raise"  # a non-zero bare number is dimensionless: m + 2.5 has no meaning
    return None  # comparisons accept dimensionless; value-into-array idioms adopt the target's unit


_EM = None


def _em_counterparts(ld, rd):
    global _EM
    if _EM is None:
        _EM = set()
        for a, b in (("C", "statC"), ("A", "statA"), ("T", "G"), ("V", "statV"), ("ohm", "statohm")):
            da, db = dim_of(Unit(a).dimensions), dim_of(Unit(b).dimensions)
            _EM.add((da.key(), db.key()))
            _EM.add((db.key(), da.key()))
    if isinstance(ld, str) or isinstance(rd, str):
        return False
    return (ld.key(), rd.key()) in _EM


def eval_case(ctx, op, lk, rk, triple, shape, seed=0):
    name, form, klass, func, _req = op
    x = mk(lk, triple, shape, 0, seed)
    y = mk(rk, triple, shape, 1, seed)
    if _req == "reduce" and shape != "scalar":
        # an array (1-d or 2-d) reduced with a scalar start value
        y = mk(rk, triple, "scalar", 1, seed)
    if not admissible(op, lk, rk, x, y):
        ctx.count("filtered_inadmissible")
        return
    ld, rd = rdim(lk, triple), rdim(rk, triple)
    v = verdict(klass, ld, rd)
    if not isinstance(x, unyt_array) and not isinstance(y, unyt_array):
        # a plain list of quantities against bare data never reaches unyt's dispatch (NumPy converts
        # the list itself): nothing unyt could refuse
        v = None
    if ("qlist" in (lk, rk) or "qmixlist" in (lk, rk) or "zeroqlist" in (lk, rk)) and klass not in ("arith", "order", "eq", "ne"):
        # array functions hand a plain list to NumPy, which converts it before unyt sees it - except where the list is a
        # value put INTO a unyt array (item assignment, boundary / fill values): there unyt's own code receives it
        if not (klass == "into" and rk in ("qlist", "zeroqlist") and isinstance(x, unyt_array)):
            v = None
    if "empty" in (lk, rk) and (isinstance(ld, str) or isinstance(rd, str)):
        v = None  # an empty quantity against bare data: no number is combined with any other, and unyt reads "no non-zero element" as zero
    if name == "copyto":
        v = None  # a full copy makes dst an exact copy of src (numbers and unit): nothing is combined
    if v == "must_raise" and klass in ("convert", "into") and _em_counterparts(ld, rd):
        # the documented SI <-> Gaussian electromagnetic counterparts (C/statC, A/statA, T/G, V/statV, ohm/statohm)
        # convert into each other although their dimensions differ (properties C03/C10 rely on it): no C01 verdict
        ctx.count("em_counterpart_conversion_unjudged")
        v = None
    if form == "reduce_initial" and isinstance(rd, str):
        v = None  # a bare initial value adopts the array's unit, like other bare fill values
    bx, by = snap(x), snap(y)
    nx = numbers_units(x)
    ctx.count("evaluations")
    ctx.count("transitions")
    try:
        res = func(x, y)
        out = ("ok",)
    except Exception as e:  # noqa: BLE001
        res = None
        out = ("raise", type(e).__name__)
    ax, ay = snap(x), snap(y)
    case = {"op": name, "form": form, "left": lk, "right": rk, "triple": list(triple), "shape": shape}
    temp = "temperature" if "K" in triple[:2] else ("offset-scale" if "degC" in triple[:2] else "generic")
    base = f"C01|{klass}|op={name}|form={form}|left={lk}|right={rk}|dims={temp}"
    ctx.outcome((name, form, lk, rk, out, v))
    # right operand (and left unless it is the in-place target) must be bit-identical afterwards
    mutating = form in ("inplace", "index") or name in ("put", "place", "putmask", "put_along_axis", "fill_diagonal", "copyto", "copyto_where") or form == "at"
    if by != ay:
        ctx.violation(base + "|mode=operand-mutated:right", case, "unchanged", "changed")
    if not mutating and bx != ax:
        ctx.violation(base + "|mode=operand-mutated:left", case, "unchanged", "changed")
    if mutating and out[0] == "raise" and numbers_units(x) != nx:
        ctx.violation(base + "|mode=target-changed-on-raise", case, "unchanged", "changed")
    if v is None:
        ctx.count("no_verdict")
        return
    ctx.decided((name, form, lk, rk, triple, shape))
    if v == "must_raise":
        if out[0] != "raise":
            ctx.violation(base + "|mode=returned-instead-of-raise", case, "raise", _describe(res))
        elif mutating and numbers_units(x) != nx:
            pass  # already reported
    elif v in ("eq_false", "ne_true"):
        if out[0] == "ok":
            want = v == "ne_true"
            arr = np.asarray(res)
            if arr.dtype != bool or not np.all(arr == want):
                ctx.violation(base + "|mode=equality-answer-wrong", case, want, _describe(res))


def _describe(res):
    if isinstance(res, tuple):
        return [_describe(r) for r in res]
    if isinstance(res, unyt_array):
        return {"value": np.asarray(res.d).tolist(), "units": str(res.units)}
    if isinstance(res, np.ndarray):
        return {"value": res.tolist()}
    return repr(res)


def part(ctx, shard):
    world.reset_world()
    for oi, triple in shard:
        op = OPS[oi]
        for lk, rk in itertools.product(KINDS, KINDS):
            if not (is_q(lk) or is_q(rk)):
                continue
            for shape in SHAPES:
                eval_case(ctx, op, lk, rk, triple, shape, ctx.seed)
    ctx.sample({"op": OPS[shard[0][0]][0], "form": OPS[shard[0][0]][1], "triple": list(shard[0][1])})


def all_dim_triples():
    """thorough: one unit per distinct dimension in the registry; all ordered (anchor, diff) pairs."""
    from unyt._unit_lookup_table import default_unit_symbol_lut

    rep = {}
    for s, row in default_unit_symbol_lut.items():
        d = dim_of(row[1])
        if d.dimensionless or row[2]:
            continue
        rep.setdefault(d.key(), s)
    syms = list(rep.values())
    return [(a, a, b) for a in syms for b in syms if a != b]


def part_dims(ctx, shard):
    """all dimension pairs x all ops for the (quantity, quantity-of-other-dimension) kinds."""
    world.reset_world()
    for oi, triple in shard:
        op = OPS[oi]
        for lk, rk in (("same", "diff"), ("diff", "same"), ("same", "qlist")):
            eval_case(ctx, op, lk, rk, triple, "array", ctx.seed)


def part_namesake(ctx, shard):
    """operands whose units are SPELLED the same but have different dimensions: a stale unit object kept across a
    remove+add of its symbol, and the same symbol defined differently in two registries (cold and after a legitimate
    warm-up call).  Every commensurability-requiring operation must still refuse them."""
    from unyt import dimensions as udims
    from unyt.unit_registry import UnitRegistry

    world.reset_world()
    for scenario in shard:
        for oi, op in enumerate(OPS):
            name, form, klass, func, _req = op
            if klass == "close" or name in ("to_str", "copyto", "copyto_where", "divmod"):
                # to_str re-reads the NAME in the left operand's registry (legitimately the same unit); copyto is a full
                # copy; copyto(where=) and divmod never check dimensions at all (known findings of the main part)
                continue
            for order in ("ab", "ba"):
                for shape in ("array", "scalar"):
                    for warm in (False, True):
                        if scenario in ("stale-after-redefinition", "stale-after-redefinition-same-scale"):
                            # same-scale: only the DIMENSION tells the old unit from the new one (w9: equality shortcut on
                            # registry identity + expression)
                            reg = UnitRegistry()
                            reg.add("code_x", 2.0, udims.length)
                            a = _nq(reg, "code_x", shape, 0)
                            reg.remove("code_x")
                            reg.add("code_x", 3.0 if scenario == "stale-after-redefinition" else 2.0, udims.time)
                            b = _nq(reg, "code_x", shape, 1)
                            if warm:
                                try:
                                    a + a
                                    b + b
                                    a.to(a.units)
                                except Exception:  # noqa: BLE001
                                    pass
                        else:
                            r1, r2 = UnitRegistry(), UnitRegistry()
                            r1.add("tick", 2.0, udims.length)
                            r2.add("tick", 2.0, udims.time)
                            a = _nq(r1, "tick", shape, 0)
                            b = _nq(r2, "tick", shape, 1)
                            if warm:
                                try:
                                    xm = _nq(r1, "m", shape, 0)
                                    xm.to(a.units)
                                    xm + a
                                    xm.to("tick")
                                except Exception:  # noqa: BLE001
                                    pass
                        x, y = (a, b) if order == "ab" else (b, a)
                        if not admissible(op, "same", "diff", x, y):
                            continue
                        ctx.count("evaluations")
                        nx, by = numbers_units(x), snap(y)
                        try:
                            res = func(x, y)
                            out = "ok"
                        except Exception as e:  # noqa: BLE001
                            res, out = None, "raise"
                        ctx.outcome(("namesake", scenario, name, form, out))
                        ctx.decided(("namesake", scenario, name, form, order, shape, warm))
                        case = {"part": "namesake", "scenario": scenario, "op": name, "form": form, "order": order, "shape": shape, "warm": warm}
                        base = f"C01|namesake|scenario={scenario}|op={name}|form={form}|warm={int(warm)}"
                        if snap(y) != by:
                            ctx.violation(base + "|mode=operand-mutated:right", case, "unchanged", "changed")
                        if klass in ("eq", "ne"):
                            if out == "ok":
                                want = klass == "ne"
                                arr = np.asarray(res)
                                if arr.dtype != bool or not np.all(arr == want):
                                    ctx.violation(base + "|mode=equality-answer-wrong", case, want, _describe(res))
                            continue
                        if out != "raise":
                            ctx.violation(base + "|mode=returned-instead-of-raise", case, "raise", _describe(res))
                        elif numbers_units(x) != nx and (form in ("inplace", "index") or name in ("put", "place", "putmask", "put_along_axis", "fill_diagonal", "copyto", "copyto_where") or form == "at"):
                            ctx.violation(base + "|mode=target-changed-on-raise", case, "unchanged", "changed")


def _nq(reg, unit, shape, k):
    if shape == "scalar":
        return unyt_quantity(2.5 + k, unit, registry=reg)
    return unyt_array(np.array([1.5, -2.25, 3.0]) + k, unit, registry=reg)


def run(ctx):
    harness.pmap(ctx, part_namesake, [["stale-after-redefinition"], ["two-registries"], ["stale-after-redefinition-same-scale"]])
    triples = DIM_TRIPLES_QUICK
    shards = [[(oi, t)] for oi in range(len(OPS)) for t in triples]
    harness.pmap(ctx, part, shards)
    extra = {}
    if ctx.tier == "thorough":
        trip = all_dim_triples()
        extra["dimension_pairs"] = len(trip)
        sh = [[(oi, t) for t in trip[i : i + 200]] for oi in range(len(OPS)) for i in range(0, len(trip), 200)]
        harness.pmap(ctx, part_dims, sh)
    return {
        "coverage": {
            "rule": "complete product operation x form x (left kind, right kind) x dimension triple x shape; "
            "thorough adds all ordered pairs of the registry's distinct dimensions for the quantity/quantity "
            "kinds. A decided case is one whose reference dimensions differ so that the statement gives a verdict "
            "(must raise / ==,!= answer); same-dimension and exempt cases only get the operand-invariance check.",
            "axes": {
                "operations_x_forms": len(OPS),
                "kinds": KINDS,
                "dim_triples": [list(t) for t in triples],
                "shapes": SHAPES,
                **extra,
            },
        },
        "assumptions": [
            "the list of commensurability-requiring operations is typed from NumPy semantics (not from unyt's table)",
            "bare scalars in value-into-array positions adopt the target's unit (documented idiom): no verdict",
        ],
    }


def replay(case):
    ctx = harness.Ctx(PROPERTY, "quick", 0)
    if case.get("part") == "namesake":
        part_namesake(ctx, [case["scenario"]])
        return list(ctx.violations.items())
    for op in OPS:
        if op[0] == case["op"] and op[1] == case["form"]:
            eval_case(ctx, op, case["left"], case["right"], tuple(case["triple"]), case["shape"])
    return list(ctx.violations.items())
