"""C10  Unit-system base conversion stays inside the system and preserves the quantity.

Product part: every unit system (7 built-in + 6 generated user systems, incl. quantity-valued base units, overrides, no
current unit, a registry-bound code-unit system) x every atomic unit x {none, k, u} prefix x all products/quotients of
an atom alphabet, through every entry point (in_base, convert_to_base, get_base_equivalent, in_cgs/in_mks and twins).
Explicit-state part: BFS over histories of conversions / S[dimension] requests / S[dimension]=unit declarations on a
user system and a built-in one; in every state the probe battery must equal what a cold world that only received the
declarations gives (the memoised units_map may not change any answer).
Inconsistent base units (every slot given a unit of the wrong dimension) must raise IllDefinedUnitSystem.
"""

import itertools
import re

import numpy as np

from mc import explore, harness, world
from mc.ref.dims import dim_of

PROPERTY = "C10"

import unyt
from unyt import dimensions as udims
from unyt import unyt_array, unyt_quantity
from unyt._unit_lookup_table import default_unit_symbol_lut
from unyt.exceptions import IllDefinedUnitSystem, UnitsNotReducible
from unyt.unit_object import Unit
from unyt.unit_registry import UnitRegistry
from unyt.unit_systems import UnitSystem, unit_system_registry

BUILTIN = ["cgs", "mks", "imperial", "galactic", "solar", "geometrized", "planck"]
C_CGS = 29979245800.0
# independently typed CGS<->SI electromagnetic counterpart factors: 1 <SI unit> = factor <CGS unit>
EM_PAIRS = {
    "C": ("statC", C_CGS / 10.0),
    "A": ("statA", C_CGS / 10.0),
    "T": ("G", 1.0e4),
    "V": ("statV", 1.0e8 / C_CGS),
    "ohm": ("statohm", 1.0e9 / C_CGS**2),
}
EM_BY_CGS = {v[0]: (k, 1.0 / v[1]) for k, v in EM_PAIRS.items()}


def make_generated():
    """user systems, created after every world reset; returns {name: (system, registry or None)}"""
    out = {}
    out["gen_prefixed"] = (UnitSystem("gen_prefixed", "km", "mg", "ms", temperature_unit="mK"), None)
    out["gen_quantity"] = (UnitSystem("gen_quantity", unyt_quantity(3.0, "Mpc"), unyt_quantity(2.0, "Msun"), unyt_quantity(2.0, "Myr")), None)
    out["gen_angles"] = (UnitSystem("gen_angles", "inch", "oz", "hr", temperature_unit="R", angle_unit="degree"), None)
    out["gen_nocurrent"] = (UnitSystem("gen_nocurrent", "m", "kg", "s", current_mks_unit=None), None)
    out["gen_offset"] = (UnitSystem("gen_offset", "km", "kg", "hr", temperature_unit="degC"), None)  # a base unit with a zero point
    s = UnitSystem("gen_override", "m", "kg", "s")
    s["energy"] = "keV"
    s["pressure"] = "bar"
    s["velocity"] = "km/hr"
    out["gen_override"] = (s, None)
    reg = UnitRegistry()
    reg.add("code_length", 3.0, udims.length)
    reg.add("code_mass", 5.0, udims.mass)
    reg.add("code_time", 7.0, udims.time)
    out["gen_code"] = (UnitSystem("gen_code", "code_length", "code_mass", "code_time", registry=reg), reg)
    return out


def symbols_of(expr):
    return {str(s) for s in expr.free_symbols}


def allowed_symbols(S):
    """symbols of S's base units and of every unit S declares for a dimension (never of memoised synthesised rows)"""
    out = set()
    for v in S.base_units.values():
        if v is not None:
            out |= symbols_of(v)
    for name in S._dims:
        d = getattr(udims, name)
        v = S.units_map.get(d)
        if v is not None:
            out |= symbols_of(v)
    return out


BASE_DIM_NAMES = {"length": udims.length, "mass": udims.mass, "time": udims.time, "temperature": udims.temperature, "angle": udims.angle, "current_mks": udims.current_mks, "luminous_intensity": udims.luminous_intensity, "logarithmic": udims.logarithmic}


def coherent_scale(S, rdim, reg):
    """SI scale of the coherent unit of reference dimension rdim built from S's base units (None if a base unit is missing)"""
    out = 1.0
    for name, e in rdim.items():
        bu = S.base_units.get(BASE_DIM_NAMES[name])
        if bu is None:
            return None
        sc = float(Unit(bu, registry=reg).base_value)
        out *= sc ** float(e)
    return out


def si(q):
    u = q.units
    return (np.asarray(q.d, dtype=float) - 0.0) * float(u.base_value), float(u.base_offset)


def attempt(f):
    try:
        return ("ok", f())
    except UnitsNotReducible as e:
        return ("not-reducible", e)
    except Exception as e:  # noqa: BLE001
        return ("raise", e)


def ucls(name):
    if any(c in name for c in "*/"):
        return "compound"
    return "atom"


def check_conversion(ctx, S, sname, ustr, reg, case, tag):
    """the full oracle for one (system, unit) cell"""
    ctx.count("evaluations")
    try:
        q = unyt_array(np.array([1.5, 2.5]), ustr, registry=reg)
    except Exception:  # noqa: BLE001
        ctx.count("unit_not_constructible")
        return
    base = f"C10|{tag}|system={sname}|unit={_unit_class(ustr)}"
    before = (np.asarray(q.d).tobytes(), str(q.units))
    st, r = attempt(lambda: q.in_base(S))
    ctx.outcome((tag, sname, _unit_class(ustr), st))
    if st == "raise":
        ctx.violation(base + f"|mode=escaped-exception:{type(r).__name__}", case, "UnitsNotReducible or a value", str(r)[:120])
        return
    # Unit-level twin agrees on refusal
    stu, ru = attempt(lambda: q.units.get_base_equivalent(S))
    if st == "not-reducible":
        ctx.count("not_reducible")
        if stu == "ok":
            ctx.violation(base + "|mode=in_base-refuses-but-get_base_equivalent-returns", case, "UnitsNotReducible", str(ru))
        return
    ctx.decided((tag, sname, ustr))
    if (np.asarray(q.d).tobytes(), str(q.units)) != before:
        ctx.violation(base + "|mode=in_base-changed-its-input", case, before[1], str(q.units))
    if not isinstance(r, unyt_array):
        ctx.violation(base + "|mode=result-has-no-unit", case, None, repr(r)[:80])
        return
    allowed = allowed_symbols(S)
    used = symbols_of(r.units.expr)
    d_in, d_out = dim_of(q.units.dimensions), dim_of(r.units.dimensions)
    em = None
    if d_in != d_out:
        # documented CGS/SI electromagnetic counterpart?
        em = _em_counterpart(q, r)
        if em is None:
            ctx.violation(base + "|mode=dimension-changed", case, str(d_in), str(d_out))
            return
        ok, why = em
        if not ok:
            ctx.violation(base + f"|mode=wrong-em-counterpart-factor:{why}", case, None, {"in": str(q), "out": str(r)})
    if not used <= allowed:
        ctx.violation(base + "|mode=leaves-the-unit-system", case, sorted(allowed)[:12], sorted(used - allowed))
    # a dimension the system declares nothing for is expressed as the monomial of the base units: its scale is the product
    # of the base units' scales raised to the dimension's exponents (2*kpc/Myr is not the velocity unit of (kpc, 2*Myr))
    if em is None and not r.units.base_offset:
        declared = {getattr(udims, n) for n in S._dims}
        if q.units.dimensions not in declared:
            want = coherent_scale(S, d_in, reg)
            if want is not None and abs(float(r.units.base_value) / want - 1.0) > 1e-10:
                ctx.violation(base + "|mode=not-the-monomial-of-the-base-units", case, want, float(r.units.base_value))
    # converts back
    stb, back = attempt(lambda: r.to(q.units))
    sts, back_s = attempt(lambda: r.to(str(q.units)))
    if stb == "ok" and (sts != "ok" or not np.allclose(np.asarray(back_s.d, dtype=float), np.asarray(back.d, dtype=float), rtol=1e-12, atol=0)):
        ctx.violation(base + "|mode=cannot-convert-back-by-unit-name", case, str(q.units), str(back_s)[:100])
    if stb != "ok":
        ctx.violation(base + f"|mode=cannot-convert-back:{type(back).__name__}", case, str(q.units), str(r.units))
    else:
        x0, xb = np.asarray(q.d, dtype=float), np.asarray(back.d, dtype=float)
        scale = np.maximum(np.abs(x0), abs(float(q.units.base_offset)) / max(abs(float(q.units.base_value)), 1e-300) if q.units.base_offset else 0.0)
        if np.any(np.abs(xb - x0) > 1e-11 * np.maximum(scale, 1e-300)):
            ctx.violation(base + "|mode=does-not-convert-back-to-the-same-numbers", case, x0.tolist(), xb.tolist())
    # same physical quantity (same dimension case): SI magnitudes agree
    if em is None and not q.units.base_offset and not r.units.base_offset:
        a, oa = si(q)
        b, ob = si(r)
        absq = a - oa * float(q.units.base_value) if oa else a
        absr = b - ob * float(r.units.base_value) if ob else b
        if np.any(np.abs(absq - absr) > 1e-11 * np.maximum(np.abs(absq), abs(oa * float(q.units.base_value)) + 1e-300)):
            ctx.violation(base + "|mode=different-physical-quantity", case, absq.tolist(), absr.tolist())
    # agrees with get_base_equivalent
    if stu != "ok":
        ctx.violation(base + f"|mode=get_base_equivalent-refuses-but-in_base-returns:{type(ru).__name__}", case, str(r.units), None)
    elif not _same_unit(ru, r.units):
        ctx.violation(base + "|mode=differs-from-get_base_equivalent", case, str(ru), str(r.units))
    # idempotent
    st2, r2 = attempt(lambda: r.in_base(S))
    if st2 != "ok":
        ctx.violation(base + f"|mode=second-application-fails:{st2}", case, str(r.units), str(r2)[:80])
    else:
        if not _same_unit(r2.units, r.units) or not np.allclose(np.asarray(r2.d, dtype=float), np.asarray(r.d, dtype=float), rtol=1e-13, atol=0):
            ctx.violation(base + "|mode=not-idempotent", case, str(r), str(r2))
    # in-place twin
    q2 = q.copy()
    st3, _ = attempt(lambda: q2.convert_to_base(S))
    if st3 != "ok":
        ctx.violation(base + f"|mode=in-place-twin-fails:{st3}", case, str(r.units), None)
    elif not _same_unit(q2.units, r.units) or not np.allclose(np.asarray(q2.d, dtype=float), np.asarray(r.d, dtype=float), rtol=1e-13, atol=0):
        ctx.violation(base + "|mode=in-place-twin-differs", case, str(r), str(q2))
    # named shortcuts
    if sname in ("cgs", "mks"):
        f1 = (lambda: q.in_cgs()) if sname == "cgs" else (lambda: q.in_mks())
        st4, r4 = attempt(f1)
        if st4 != "ok" or not _same_unit(r4.units, r.units) or not np.array_equal(np.asarray(r4.d), np.asarray(r.d)):
            ctx.violation(base + "|mode=named-shortcut-differs", case, str(r), str(r4)[:80])
        q3 = q.copy()
        st5, _ = attempt((lambda: q3.convert_to_cgs()) if sname == "cgs" else (lambda: q3.convert_to_mks()))
        if st5 != "ok" or not _same_unit(q3.units, r.units):
            ctx.violation(base + "|mode=named-in-place-shortcut-differs", case, str(r.units), str(q3.units) if st5 == "ok" else st5)


def _same_unit(u, v):
    """same symbols, same dimension, same scale and offset (3*Mpc and 3.0*Mpc are the same unit)"""
    return (
        symbols_of(u.expr) == symbols_of(v.expr)
        and u.dimensions == v.dimensions
        and abs(float(u.base_value) - float(v.base_value)) <= 1e-13 * abs(float(v.base_value))
        and float(u.base_offset) == float(v.base_offset)
    )


def _unit_class(ustr):
    atoms = re.findall(r"[A-Za-zµμΩÅ°_%][A-Za-z0-9_µμΩÅ°%]*", ustr)
    em_si = any(a.lstrip("kmuµ") in EM_PAIRS or a in EM_PAIRS or a.lstrip("kmuµ") in ("Ω", "Ohm", "Wb", "F", "H", "S") for a in atoms)
    em_cgs = any(a.lstrip("kmuµ") in EM_BY_CGS or a in EM_BY_CGS or a in ("esu", "gauss", "Mx", "Gs") for a in atoms)
    kind = "compound" if any(c in ustr for c in "*/") else "atom"
    if em_si or em_cgs:
        return ("em-si-" if em_si else "em-cgs-") + kind
    return kind


def _em_counterpart(q, r):
    """(ok, why) if (q.units, r.units) is a documented SI<->CGS electromagnetic pair, else None"""
    for si_u, (cgs_u, f) in EM_PAIRS.items():
        for a, b, fac in ((si_u, cgs_u, f), (cgs_u, si_u, 1.0 / f)):
            try:
                if q.units.same_dimensions_as(Unit(a, registry=q.units.registry)) and r.units.same_dimensions_as(Unit(b, registry=r.units.registry)):
                    x = np.asarray(q.to(a).d, dtype=float)
                    y = np.asarray(r.to(b).d, dtype=float)
                    if np.allclose(y, x * fac, rtol=1e-9, atol=0):
                        return (True, "")
                    return (False, f"{a}->{b}")
            except Exception:  # noqa: BLE001
                continue
    return None


ATOMS_COMPOUND_QUICK = ["m", "g", "s", "K", "erg", "N", "mile", "Msun", "hr", "W", "rad", "cd"]
ATOMS_COMPOUND_THOROUGH = ATOMS_COMPOUND_QUICK + ["J", "Pa", "lb", "kpc", "eV", "degree", "A", "C", "T", "V", "statC", "G", "Hz"]


def unit_alphabet(tier):
    units = []
    for sym, row in default_unit_symbol_lut.items():
        units.append(sym)
        if row[4]:
            units += ["k" + sym, "u" + sym]
    atoms = ATOMS_COMPOUND_QUICK if tier == "quick" else ATOMS_COMPOUND_THOROUGH
    for a, b in itertools.product(atoms, atoms):
        units.append(f"{a}*{b}")
        units.append(f"{a}/{b}")
    units += ["kg*m**2/s**2", "m**(3/2)", "sqrt(g)/cm", "1/s", "km/s/Mpc", "A*s", "V*A", "A*ohm", "T*m**2", "statC**2/cm", "G*cm**2"]
    return units


def part_product(ctx, shard):
    tier = ctx.tier
    units = unit_alphabet(tier)
    for sname in shard:
        world.reset_world()
        gen = make_generated()
        if sname in gen:
            S, reg = gen[sname]
        else:
            S, reg = unit_system_registry[sname], None
        for ustr in units:
            check_conversion(ctx, S, sname, ustr, reg, {"part": "product", "system": sname, "unit": ustr}, "product")
        if reg is None:
            # operands that live in a custom registry (code units, a re-defined built-in symbol) converted to this system
            regB = UnitRegistry()
            regB.add("code_length", 3.0, udims.length)
            regB.add("code_time", 7.0, udims.time)
            regB.modify("Msun", 2.0e30)
            for ustr in ["code_length", "code_length/code_time", "Msun", "kg", "Msun/code_length**3", "code_length**2", "J/code_time"]:
                check_conversion(ctx, S, sname, ustr, regB, {"part": "product", "system": sname, "unit": ustr, "registry": "custom"}, "product-custom-registry")
        if sname in BUILTIN:
            # a registry whose DEFAULT unit system is this one: the argument-free calls must answer in it
            regD = UnitRegistry(unit_system=sname)
            for ustr in ["km", "J", "T", "mT", "A", "statA", "G", "C", "kV", "g/cm**3"]:
                ctx.count("evaluations")
                q = unyt_array(np.array([1.5, 2.5]), ustr, registry=regD)
                named = attempt(lambda: q.in_base(S))
                for rname, f in (("in_base()", lambda: q.in_base()), ("get_base_equivalent()", lambda: q.units.get_base_equivalent()), ("convert_to_base()", lambda: (lambda y: (y.convert_to_base(), y)[1])(q.copy()))):
                    r = attempt(f)
                    case = {"part": "product", "system": sname, "unit": ustr, "registry": "default-system", "route": rname}
                    if (r[0] == "ok") != (named[0] == "ok"):
                        ctx.violation(f"C10|registry-default|system={sname}|unit={_unit_class(ustr)}|route={rname}|mode=disagrees-with-named-system-on-refusal", case, named[0], r[0])
                    elif r[0] == "ok":
                        ctx.decided(("registry-default", sname, ustr, rname))
                        ru = r[1] if rname.startswith("get_base") else r[1].units
                        if not _same_unit(ru, named[1].units):
                            ctx.violation(f"C10|registry-default|system={sname}|unit={_unit_class(ustr)}|route={rname}|mode=answers-in-another-unit-system", case, str(named[1].units), str(ru))
        if reg is not None:
            for ustr in ["code_length", "code_mass/code_length**3", "code_length/code_time", "kcode_length" if False else "code_length**2", "m/code_time"]:
                check_conversion(ctx, S, sname, ustr, reg, {"part": "product", "system": sname, "unit": ustr}, "product")
            # 'code' spelling of the registry's own system
            q = unyt_array(np.array([1.5, 2.5]), "km", registry=reg)
            st, r = attempt(lambda: q.in_base("code"))
            ctx.outcome(("code", st))


def part_inconsistent(ctx, shard):
    world.reset_world()
    slots = ["length_unit", "mass_unit", "time_unit", "temperature_unit", "angle_unit", "current_mks_unit", "luminous_intensity_unit", "logarithmic_unit"]
    good0 = {"length_unit": "m", "mass_unit": "kg", "time_unit": "s", "temperature_unit": "K", "angle_unit": "rad", "current_mks_unit": "A", "luminous_intensity_unit": "cd", "logarithmic_unit": "Np"}
    wrong = ["m", "kg", "s", "K", "rad", "A", "cd", "J", "km", "ms", "Np", "dB"]
    n = 0
    # every slot x every candidate unit, in a system WITH an SI current unit and in one WITHOUT (current_mks_unit=None)
    for nocurrent, slot in itertools.product((False, True), slots):
        good = dict(good0)
        if nocurrent:
            if slot == "current_mks_unit":
                continue
            good["current_mks_unit"] = None
        for w in wrong:
            wd = dim_of(Unit(w).dimensions)
            gd = dim_of(Unit(good0[slot]).dimensions)
            kw = dict(good)
            kw[slot] = w
            ctx.count("evaluations")
            n += 1
            name = f"bad_{n}"
            args = (kw.pop("length_unit"), kw.pop("mass_unit"), kw.pop("time_unit"))
            try:
                UnitSystem(name, *args, **kw)
                st = "created"
            except IllDefinedUnitSystem:
                st = "IllDefinedUnitSystem"
            except Exception as e:  # noqa: BLE001
                st = "other:" + type(e).__name__
            ctx.outcome(("inconsistent", slot, w, st))
            ctx.decided(("inconsistent", slot, w))
            case = {"part": "inconsistent", "slot": slot, "unit": w, "without_current": nocurrent}
            if wd == gd:
                if st != "created":
                    ctx.violation(f"C10|construct|slot={slot}|mode=consistent-system-rejected:{st}", case, "created", st)
            elif st != "IllDefinedUnitSystem":
                ctx.violation(f"C10|construct|slot={slot}|mode=inconsistent-system-{st}", case, "IllDefinedUnitSystem", st)
            else:
                # a rejected system leaves no trace: its name resolves to nothing ...
                if name in unit_system_registry:
                    ctx.violation(f"C10|construct|slot={slot}|mode=rejected-system-is-registered", case, "absent", "registered")
                try:
                    r = unyt_quantity(2.0, "km/s").in_base(name)
                    ctx.violation(f"C10|construct|slot={slot}|mode=rejected-system-usable-by-name", case, "raise", str(r))
                except Exception:  # noqa: BLE001
                    pass
                # ... and a good system that already holds the name stays what it was
                nm2 = f"held_{n}"
                held = UnitSystem(nm2, "km", "g", "s")
                before = str(unyt_quantity(2.0, "J").in_base(nm2))
                ctx.count("evaluations")
                args2 = dict(good)
                args2[slot] = w
                try:
                    UnitSystem(nm2, args2.pop("length_unit"), args2.pop("mass_unit"), args2.pop("time_unit"), **args2)
                    ctx.violation(f"C10|construct|slot={slot}|mode=inconsistent-system-created", case, "IllDefinedUnitSystem", "created")
                except IllDefinedUnitSystem:
                    pass
                except Exception as e:  # noqa: BLE001
                    ctx.violation(f"C10|construct|slot={slot}|mode=inconsistent-system-other:{type(e).__name__}", case, "IllDefinedUnitSystem", str(e)[:80])
                try:
                    after = str(unyt_quantity(2.0, "J").in_base(nm2))
                except Exception as e:  # noqa: BLE001
                    after = "raise:" + type(e).__name__
                if unit_system_registry.get(nm2) is not held or after != before:
                    ctx.violation(f"C10|construct|slot={slot}|mode=rejected-system-replaced-the-holder-of-its-name", case, before, after)


REDEF_BASES = [("cm", "g", "s"), ("m", "kg", "s"), ("km", "Msun", "yr"), ("mm", "mg", "ms")]
REDEF_UNITS = ["T", "mT", "V", "ohm", "C", "A", "G", "statA", "J", "km/s", "N", "Pa", "g/cm**3", "W/m**2"]


def part_redefine(ctx, shard):
    """a user system created again under the SAME name with other base units: every conversion by that name follows the new
    definition at once (the name is looked up, nothing about the old object may linger in a cache)"""
    for first, second in shard:
        world.reset_world()
        for u in REDEF_UNITS:
            UnitSystem("redef", *first)
            x = unyt_array(np.array([1.5, 4.0]), u)
            try:
                x.in_base("redef")  # use the first definition (warms whatever is keyed by the system)
                x.units.get_base_equivalent("redef")
            except Exception:  # noqa: BLE001
                pass
            UnitSystem("redef", *second)
            UnitSystem("redef_ref", *second)
            for route, f in (("in_base", lambda n: x.in_base(n)), ("convert_to_base", lambda n: (lambda y: (y.convert_to_base(n), y)[1])(x.copy())), ("get_base_equivalent", lambda n: x.units.get_base_equivalent(n))):
                ctx.count("evaluations")
                try:
                    got = f("redef")
                    g = ("ok", str(got if route == "get_base_equivalent" else got.units), None if route == "get_base_equivalent" else np.asarray(got.d, dtype=float).tolist())
                except Exception as e:  # noqa: BLE001
                    g = ("raise", type(e).__name__, None)
                try:
                    ref = f("redef_ref")
                    r = ("ok", str(ref if route == "get_base_equivalent" else ref.units), None if route == "get_base_equivalent" else np.asarray(ref.d, dtype=float).tolist())
                except Exception as e:  # noqa: BLE001
                    r = ("raise", type(e).__name__, None)
                ctx.decided(("redefine", first, second, u, route))
                ctx.outcome(("redefine", route, g[0], r[0]))
                if g != r:
                    kind = "em-atom" if u in ("T", "mT", "V", "ohm", "C", "A", "G", "statA") else "plain"
                    ctx.violation(f"C10|redefine|route={route}|unit={kind}|mode=answers-from-the-replaced-definition", {"part": "redefine", "first": list(first), "second": list(second), "unit": u, "route": route}, r, g)
    world.reset_world()


OVERRIDES = [("charge_mks", "C", ["mC", "kC", "C", "A*s"]), ("magnetic_field_mks", "T", ["mT", "T", "kg/(A*s**2)"]), ("electric_potential", "V", ["mV", "V", "kV"]),
             ("energy", "keV", ["J", "erg", "kJ"]), ("pressure", "bar", ["Pa", "kPa"]), ("resistance", "ohm", ["ohm", "mohm"])]


def part_override(ctx, shard):
    """a derived unit declared on a system (S[dimension] = unit) AFTER the system has been used: every route answers like
    a system that carried the declaration from the start - also for the electromagnetic atoms, which go through a branch
    of their own"""
    for dimname, decl, probes in shard:
        for base in (("m", "kg", "s"), ("cm", "g", "s", "K", "rad", "A")):
            world.reset_world()
            S = UnitSystem("ovr", *base)
            R = UnitSystem("ovr_ref", *base)
            R2 = UnitSystem("ovr_ref2", *base)  # the reference systems are complete before S is used: their own declarations
            decl2 = {"C": "mC", "T": "uT", "V": "kV", "keV": "erg", "bar": "kPa", "ohm": "mohm"}[decl]  # must not clear anything for S
            try:
                R[dimname] = decl
                R2[dimname] = decl2
            except Exception:  # noqa: BLE001
                continue
            xs = [unyt_array(np.array([1.5, 4.0]), u) for u in probes]
            for x in xs:  # first use, before the declaration
                for f in (lambda: x.in_base(S), lambda: x.units.get_base_equivalent(S), lambda: x.copy().convert_to_base(S)):
                    try:
                        f()
                    except Exception:  # noqa: BLE001
                        pass
            S[dimname] = decl
            for x, u in zip(xs, probes):
                for route, f in (("in_base", lambda n: x.in_base(n)), ("convert_to_base", lambda n: (lambda y: (y.convert_to_base(n), y)[1])(x.copy())), ("get_base_equivalent", lambda n: x.units.get_base_equivalent(n))):
                    ctx.count("evaluations")
                    res = []
                    for sysobj in (S, R):
                        try:
                            got = f(sysobj)
                            res.append(("ok", str(got if route == "get_base_equivalent" else got.units), None if route == "get_base_equivalent" else np.asarray(got.d, dtype=float).tolist()))
                        except Exception as e:  # noqa: BLE001
                            res.append(("raise", type(e).__name__, None))
                    ctx.decided(("override", dimname, base, u, route))
                    ctx.outcome(("override", dimname, route, res[0][0], res[1][0]))
                    if res[0] != res[1]:
                        ctx.violation(f"C10|override|dim={dimname}|route={route}|mode=declaration-after-first-use-ignored", {"part": "override", "dim": dimname, "unit": u, "route": route, "base": list(base)}, res[1], res[0])
            # ... and declared AGAIN with another unit after that use (w10: answers forgotten only for NEW dimensions)
            try:
                S[dimname] = decl2
            except Exception:  # noqa: BLE001
                continue
            for x, u in zip(xs, probes):
                for route, f in (("in_base", lambda n: x.in_base(n)), ("convert_to_base", lambda n: (lambda y: (y.convert_to_base(n), y)[1])(x.copy())), ("get_base_equivalent", lambda n: x.units.get_base_equivalent(n))):
                    ctx.count("evaluations")
                    res = []
                    for sysobj in (S, R2):
                        try:
                            got = f(sysobj)
                            res.append(("ok", str(got if route == "get_base_equivalent" else got.units), None if route == "get_base_equivalent" else np.asarray(got.d, dtype=float).tolist()))
                        except Exception as e:  # noqa: BLE001
                            res.append(("raise", type(e).__name__, None))
                    ctx.decided(("override-again", dimname, base, u, route))
                    ctx.outcome(("override-again", dimname, route, res[0][0], res[1][0]))
                    if res[0] != res[1]:
                        ctx.violation(f"C10|override|dim={dimname}|route={route}|mode=second-declaration-after-use-ignored", {"part": "override", "dim": dimname, "unit": u, "route": route, "base": list(base)}, res[1], res[0])
    world.reset_world()


# ---- explicit-state part ---------------------------------------------------------------------------------------------
PROBES = ["J", "erg", "N", "km/s", "Pa", "W/m**2", "g/cm**3", "m**2", "keV", "1/s", "K", "mile/hr"]
EVENTS = (
    [("ib", u) for u in ["J", "km/s", "Pa", "erg/s", "m**2"]]
    + [("get", d) for d in ["energy", "velocity", "pressure", "power", "area"]]
    + [("set", "energy", "keV"), ("set", "velocity", "km/s"), ("set", "pressure", "bar"), ("set", "energy", "erg")]
    + [("gbe", "J"), ("cvt", "km/s")]
)


class W:
    pass


class System:
    def __init__(self, which):
        self.which = which

    def _fresh(self):
        world.reset_world()
        if self.which == "user":
            return UnitSystem("U", "km", "g", "s")
        return unit_system_registry[self.which]

    def build(self, hist):
        w = W()
        w.S = self._fresh()
        for ev in hist:
            self.apply(w.S, ev)
        return w

    @staticmethod
    def apply(S, ev):
        try:
            if ev[0] == "ib":
                unyt_array(np.array([1.0, 2.0]), ev[1]).in_base(S)
            elif ev[0] == "get":
                S[ev[1]]
            elif ev[0] == "set":
                S[ev[1]] = ev[2]
            elif ev[0] == "gbe":
                Unit(ev[1]).get_base_equivalent(S)
            elif ev[0] == "cvt":
                q = unyt_array(np.array([1.0, 2.0]), ev[1])
                q.convert_to_base(S)
        except Exception:  # noqa: BLE001
            pass

    def canon(self, w, hist):
        return (self.which, tuple(sorted((str(k), str(v)) for k, v in w.S.units_map.items())), tuple(w.S._dims))

    def deviations(self, hist):
        return sum(1 for e in hist if e[0] == "set")

    def enabled(self, w, hist):
        return [e for e in EVENTS if e not in hist[-1:]]

    def battery(self, S):
        out = []
        for p in PROBES:
            st, r = attempt(lambda: unyt_array(np.array([1.0, 2.0]), p).in_base(S))
            if st == "ok":
                out.append((p, "ok", str(r.units.expr), tuple(float(x) for x in np.asarray(r.d, dtype=float))))
            else:
                out.append((p, st, type(r).__name__, ()))
        return out

    def check(self, ctx, w, hist):
        ctx.count("evaluations")
        warm = self.battery(w.S)
        # cold world: only the declarations of the history, in order
        S2 = self._fresh()
        for ev in hist:
            if ev[0] == "set":
                self.apply(S2, ev)
        # ask the probes in reverse order, so that the order of first requests differs too
        cold = {p[0]: p for p in [x for x in reversed(self.battery_reversed(S2))]}
        case = {"part": "bfs", "which": self.which, "history": [list(e) for e in hist]}
        for p in warm:
            ctx.decided((self.which, hist, p[0]))
            c = cold[p[0]]
            same = p[1] == c[1] and p[2] == c[2] and (p[1] != "ok" or np.allclose(p[3], c[3], rtol=1e-13, atol=0))
            if not same:
                last = hist[-1][0] if hist else "none"
                ctx.violation(
                    f"C10|history|system={self.which}|probe={p[0]}|last-event={last}|mode=answer-depends-on-history",
                    dict(case, probe=p[0]),
                    c[1:3],
                    p[1:3],
                )
        # the full oracle in the warm world for two probes
        S = w.S
        for p in ("J", "km/s"):
            check_conversion(ctx, S, self.which if self.which != "user" else "U", p, None, dict(case, unit=p), "history-cell")

    def battery_reversed(self, S):
        out = []
        for p in reversed(PROBES):
            st, r = attempt(lambda: unyt_array(np.array([1.0, 2.0]), p).in_base(S))
            if st == "ok":
                out.append((p, "ok", str(r.units.expr), tuple(float(x) for x in np.asarray(r.d, dtype=float))))
            else:
                out.append((p, st, type(r).__name__, ()))
        return out


ALL_SYSTEMS = BUILTIN + ["gen_prefixed", "gen_quantity", "gen_angles", "gen_nocurrent", "gen_offset", "gen_override", "gen_code"]


def run(ctx):
    harness.pmap(ctx, part_product, [[s] for s in ALL_SYSTEMS])
    harness.pmap(ctx, part_inconsistent, [[0]], nproc=1)
    harness.pmap(ctx, part_redefine, [[(a, b)] for a in REDEF_BASES for b in REDEF_BASES if a != b])
    harness.pmap(ctx, part_override, [[o] for o in OVERRIDES])
    depth, dev = (3, 2) if ctx.tier == "quick" else (4, 3)
    stats = {}
    for which in ("user", "galactic", "cgs"):
        st = explore.explore(ctx, System(which), depth, dev)
        stats[which] = st
    return {
        "coverage": {
            "rule": "product: unit system x unit (all atoms, k/u prefixed forms, all products/quotients of the atom alphabet) with the full "
            "oracle (inside the system, same quantity or right EM counterpart factor, converts back, agrees with get_base_equivalent, "
            "idempotent, in-place twin, named shortcuts); construct: base slot x wrong unit; history: BFS over conversion / request / "
            "declaration events, a state = canonical units_map, every state's probe battery compared with a cold world",
            "systems": ALL_SYSTEMS,
            "units": len(unit_alphabet(ctx.tier)),
            "probes": PROBES,
            "events": [list(e) for e in EVENTS],
            "bfs": stats,
            "bfs_states_total": sum(st["bfs_states"] for st in stats.values()),
        },
        "exhaustive": not any(s["bfs_capped"] for s in stats.values()),
        "assumptions": [
            "allowed symbols = S's base units and the units S declares by name (S._dims); memoised synthesised rows are not trusted",
            "EM counterpart factors typed independently from the Gaussian definitions (C,A: c/10; T: 1e4; V: 1e8/c; ohm: 1e9/c**2)",
            "UnitsNotReducible is an acceptable outcome for any cell",
        ],
    }


def replay(case):
    ctx = harness.Ctx(PROPERTY, "quick", 0)
    p = case["part"]
    if p == "product":
        world.reset_world()
        gen = make_generated()
        S, reg = gen[case["system"]] if case["system"] in gen else (unit_system_registry[case["system"]], None)
        tag = "product"
        if case.get("registry") == "custom":
            reg = UnitRegistry()
            reg.add("code_length", 3.0, udims.length)
            reg.add("code_time", 7.0, udims.time)
            reg.modify("Msun", 2.0e30)
            tag = "product-custom-registry"
        check_conversion(ctx, S, case["system"], case["unit"], reg, case, tag)
    elif p == "inconsistent":
        part_inconsistent(ctx, [0])
    elif p == "redefine":
        part_redefine(ctx, [(tuple(case["first"]), tuple(case["second"]))])
    elif p == "override":
        part_override(ctx, [o for o in OVERRIDES if o[0] == case["dim"]])
    else:
        sysm = System(case["which"])
        hist = tuple(tuple(e) for e in case["history"])
        w = sysm.build(hist)
        sysm.check(ctx, w, hist)
    return list(ctx.violations.items())
