"""C11  Persisted quantities and units come back meaning and behaving the same.

Bounded exhaustive exploration on the real code:  object (array / quantity / Unit over a unit alphabet chosen for the
identity-sensitive branches, in the default registry and in five kinds of custom registry) x persistence hops
(deviation bound: 1 hop in quick, every ordered pair of hops in thorough) x a battery of follow-up operations, executed
from a reset world in BOTH orders (original first / restored first, so that whichever runs first seeds the memo layers).
Oracle: restored numbers, unit (scale / offset / dimension) and registry content equal the original's; every follow-up
has the same outcome - same class, same numbers, same unit, or the same refusal - on original and restored, in both
orders.
"""

import copy
import io
import itertools
import pickle

import numpy as np

from mc import harness, world

PROPERTY = "C11"

import unyt
from unyt import dimensions as udims
from unyt import unyt_array, unyt_quantity
from unyt.unit_object import Unit
from unyt.unit_registry import UnitRegistry

DEFAULT_UNITS = [
    "degree", "rad", "arcsec", "lat", "K", "degC", "degF", "delta_degC", "mK", "mdegC", "dB", "Np", "m", "km", "g*cm/s**2",
    "sqrt(m)", "percent", "dimensionless", "statC", "T", "G", "Msun", "1/s", "kg*m**2/s**2", "degree/s", "K/m",
]  # fmt: skip
DEFAULT_UNITS_QUICK = ["degree", "lat", "degC", "delta_degC", "mdegC", "dB", "km", "g*cm/s**2", "percent", "statC", "Msun", "K/m", "dimensionless"]


def make_registry(kind):
    if kind == "default":
        return None
    r = UnitRegistry(unit_system="cgs") if kind == "cgs-system" else UnitRegistry()
    if kind == "code":
        r.add("code_length", 3.0, udims.length)
        r.add("code_time", 7.0, udims.time)
    elif kind == "modified":
        r.modify("Msun", 2.0e30)
        r.modify("pc", 4.0e16)
    elif kind == "prefixable":
        r.add("foo", 2.5, udims.length, prefixable=True)
    elif kind == "offset":
        r.add("degX", 0.5, udims.temperature, offset=100.0, prefixable=True)
        r.add("ang", 0.25, udims.angle)
    elif kind == "cgs-system":
        r.add("code_mass", 5.0, udims.mass)
    elif kind == "removed":
        # built-in symbols taken out of the registry: they are absent, and stay absent
        r.remove("pc")
        r.remove("mile")
    elif kind == "dumped-then-modified":
        # the registry has been serialised (JSON, pickle) once BEFORE its last edit; nothing is added or removed afterwards
        r.add("code_length", 3.0, udims.length)
        r.add("code_time", 7.0, udims.time)
        r.to_json()
        pickle.dumps(Unit("code_length", registry=r))
        copy.deepcopy(r)
        r.modify("code_length", 6.0)
        r.modify("code_time", unyt_quantity(14.0, "s"))
    return r


CUSTOM_UNITS = {
    "code": ["code_length", "code_length/code_time", "m/code_time"],
    "modified": ["Msun", "Msun/pc**3", "kg"],
    "prefixable": ["foo", "kfoo", "kfoo/s"],
    "offset": ["degX", "mdegX", "ang", "degC"],
    "cgs-system": ["m", "J", "code_mass"],
    "dumped-then-modified": ["code_length", "code_length/code_time"],
    "removed": ["ly"],
}
ALT_UNIT = {  # a second unit of the same dimension, to convert to after the hop
    "ly": "pc",
    "degree": "arcmin", "rad": "degree", "arcsec": "degree", "lat": "degree", "K": "R", "degC": "K", "degF": "degC", "delta_degC": "K",
    "mK": "degC", "mdegC": "K", "dB": "Np", "Np": "dB", "m": "cm", "km": "mile", "g*cm/s**2": "N", "sqrt(m)": "sqrt(cm)", "percent": "dimensionless",
    "dimensionless": "percent", "statC": "C", "T": "G", "G": "T", "Msun": "kg", "1/s": "Hz", "kg*m**2/s**2": "erg", "degree/s": "rad/s", "K/m": "R/ft",
    "code_length": "m", "code_length/code_time": "km/s", "m/code_time": "code_length/s", "Msun/pc**3": "g/cm**3", "kg": "Msun", "foo": "kfoo", "kfoo": "m",
    "kfoo/s": "foo/s", "degX": "K", "mdegX": "K", "ang": "degree", "J": "erg", "code_mass": "g",
}  # fmt: skip


# ---- persistence hops ---------------------------------------------------------------------------------------------
def rebuild(x, units_text, registry):
    if isinstance(x, Unit):
        return Unit(units_text, registry=registry)
    if isinstance(x, unyt_quantity):
        return unyt_quantity(np.asarray(x.d)[()], units_text, registry=registry)
    return unyt_array(np.array(np.asarray(x.d), copy=True), units_text, registry=registry)


def hop_savetxt(x):
    if isinstance(x, Unit) or x.ndim != 1 or x.units.registry is not world.D:
        raise NotApplicable  # a text file carries unit names only: objects of a custom registry cannot come back through it
    import os
    import tempfile

    fd, fn = tempfile.mkstemp(prefix="c11_", suffix=".txt", dir="/tmp")
    os.close(fd)
    try:
        unyt.savetxt(fn, [x])
        r = unyt.loadtxt(fn)
    finally:
        os.remove(fn)
    return r if isinstance(r, unyt_array) else r[0]


class NotApplicable(Exception):
    pass


def hop_text(x):
    """a quantity written with to_string() and read with from_string(); texts from_string refuses carry no verdict"""
    if not isinstance(x, unyt_quantity):
        raise NotApplicable
    text = x.to_string()
    try:
        return unyt_quantity.from_string(text, unit_registry=x.units.registry)
    except ValueError as e:
        if "invalid quantity expression" in str(e):
            raise NotApplicable from None
        raise


def _json_hop(x):
    reg = x.registry if isinstance(x, Unit) else x.units.registry
    r2 = UnitRegistry.from_json(reg.to_json())
    return rebuild(x, str(x if isinstance(x, Unit) else x.units), r2)


def _json_sibling_hop(x):
    """reload the same JSON text twice; the first reload is edited before the second one is made"""
    reg = x.registry if isinstance(x, Unit) else x.units.registry
    text = reg.to_json()
    ra = UnitRegistry.from_json(text)
    ra.add("sibling", 9.0, udims.length)
    for n in ("code_length", "Msun", "foo", "degX", "code_mass"):
        if n in ra.lut:
            ra.modify(n, 123.0)
    Unit("km", registry=ra)
    rb = UnitRegistry.from_json(text)
    return rebuild(x, str(x if isinstance(x, Unit) else x.units), rb)


def _pickle_sibling_hop(x):
    """unpickle the same bytes twice; the first copy's registry is edited before the second copy is made"""
    data = pickle.dumps(x)
    a = pickle.loads(data)
    ra = a.registry if isinstance(a, Unit) else a.units.registry
    try:
        ra.add("sibling", 9.0, udims.length)
        for n in ("code_length", "Msun", "foo", "degX", "code_mass"):
            if n in ra.lut:
                ra.modify(n, 123.0)
    except Exception:  # noqa: BLE001  (the default registry refuses edits)
        pass
    return pickle.loads(data)


HOPS = {
    "json-reload-after-sibling-edit": _json_sibling_hop,
    "unpickle-after-sibling-edit": _pickle_sibling_hop,
    "pickle2": lambda x: pickle.loads(pickle.dumps(x, protocol=2)),
    "pickle5": lambda x: pickle.loads(pickle.dumps(x, protocol=5)),
    "pickle-container": lambda x: pickle.loads(pickle.dumps({"k": [x, (x,)]}))["k"][1][0],
    "copy.copy": lambda x: copy.copy(x),
    "copy.deepcopy": lambda x: copy.deepcopy(x),
    "deepcopy-container": lambda x: copy.deepcopy([{"a": x}])[0]["a"],
    ".copy()": lambda x: x.copy(),
    "copy(deep)": lambda x: x.copy(deep=True) if isinstance(x, Unit) else _na(),
    "np.copy": lambda x: np.copy(x, subok=True) if not isinstance(x, Unit) else _na(),
    "str-rebuild": lambda x: rebuild(x, str(x if isinstance(x, Unit) else x.units), x.registry if isinstance(x, Unit) else x.units.registry),
    "repr-rebuild": lambda x: rebuild(x, repr(x if isinstance(x, Unit) else x.units), x.registry if isinstance(x, Unit) else x.units.registry),
    "json-registry": _json_hop,
    "savetxt-loadtxt": hop_savetxt,
    "to_string-from_string": lambda x: hop_text(x),
}
HOPS_EXTRA = {"pickle3": 3, "pickle4": 4}  # protocols 0 and 1 are refused by SymPy itself (NotImplementedError): not unyt behaviour
for _n, _p in HOPS_EXTRA.items():
    HOPS[_n] = lambda x, _p=_p: pickle.loads(pickle.dumps(x, protocol=_p))
QUICK_HOPS = ["json-reload-after-sibling-edit", "unpickle-after-sibling-edit", "pickle2", "pickle5", "pickle-container", "copy.copy", "copy.deepcopy", ".copy()", "copy(deep)", "np.copy", "str-rebuild", "json-registry", "savetxt-loadtxt", "to_string-from_string"]


def _na():
    raise NotApplicable


# ---- follow-up operations ---------------------------------------------------------------------------------------------
def reg_of(x):
    return x.registry if isinstance(x, Unit) else x.units.registry


def followups_for(spec_unit):
    alt = ALT_UNIT.get(spec_unit, spec_unit)
    f = {
        "sin": lambda x: np.sin(x),
        "cos": lambda x: np.cos(x),
        "add-same": lambda x: x + x,
        "sub-same": lambda x: x - x,
        "add-delta": lambda x: x + unyt_quantity(1.0, "delta_degC", registry=reg_of(x)),
        "mul2": lambda x: x * 2.0,
        "mul-m": lambda x: x * unyt_quantity(2.0, "m", registry=reg_of(x)),
        "mul-self": lambda x: x * x,
        "div-self": lambda x: x / x,
        "sqrt": lambda x: np.sqrt(x),
        "pow2": lambda x: x**2,
        "less": lambda x: x < x * 1.0000001,
        "eq-self": lambda x: x == x,
        "max": lambda x: np.maximum(x, x),
        "to-alt": lambda x: x.to(alt),
        "to-own-name": lambda x: x.to(str(x.units)),
        "in_base": lambda x: x.in_base(),
        "in_cgs": lambda x: x.in_cgs(),
        "in_mks": lambda x: x.in_mks(),
        "in_base-galactic": lambda x: x.in_base("galactic"),
        "thermal": lambda x: x.to_equivalent("J", "thermal"),
        "str-units": lambda x: str(x.units),
        "hash-units": lambda x: hash(x.units) == hash(x.units),
        "unit-times-unit": lambda x: x.units * x.units,
        "unit-pow": lambda x: x.units**2,
        "unit-simplify": lambda x: (x.units / x.units).simplify(),
        "sum": lambda x: np.sum(x),
        "concatenate": lambda x: np.concatenate([np.atleast_1d(x), np.atleast_1d(x)]),
        # units PARSED AFTER the hop from the restored registry's table (not the unit object that travelled with the data):
        # the guards (angle, temperature, logarithmic) must see them exactly as in the original registry
        # a quotient of commensurable quantities spelled with other symbols: the numeric factor left in the unit is folded
        # into the numbers exactly as for the original
        "div-by-alt": lambda x: x / unyt_quantity(2.0, alt, registry=reg_of(x)),
        "rdiv-by-alt": lambda x: unyt_quantity(2.0, alt, registry=reg_of(x)) / x,
        "mul-by-inverse-alt": lambda x: x * (1.0 / unyt_quantity(2.0, alt, registry=reg_of(x))),
        "to-alt-then-mul2": lambda x: x.to(alt) * 2.0,
        "to-alt-then-rmul2": lambda x: 2.0 * x.to(alt),
        "to-alt-then-sub-self": lambda x: x.to(alt) - x.to(alt),
        "to-alt-then-add-self": lambda x: x.to(alt) + x.to(alt),
        "to-alt-then-sin": lambda x: np.sin(x.to(alt)),
        "to-alt-then-pow2": lambda x: x.to(alt) ** 2,
        "to-alt-then-diff": lambda x: np.diff(np.atleast_1d(x.to(alt))),
        "to-alt-then-ptp": lambda x: np.ptp(np.atleast_1d(x.to(alt))),
        "reparse-own-name-then-mul2": lambda x: rebuild(x, str(x.units), reg_of(x)) * 2.0,
        "reparse-own-name-then-sin": lambda x: np.sin(rebuild(x, str(x.units), reg_of(x))),
        "reparse-own-name-then-sub-self": lambda x: rebuild(x, str(x.units), reg_of(x)) - rebuild(x, str(x.units), reg_of(x)),
    }
    return f


UNIT_FOLLOWUPS = {
    "mul-self": lambda u: u * u,
    "div-self": lambda u: u / u,
    "pow2": lambda u: u**2,
    "sqrt": lambda u: u**0.5,
    "times-number": lambda u: 3.0 * u,
    "times-array": lambda u: np.array([1.0, 2.0]) * u,
    "base-equivalent": lambda u: u.get_base_equivalent(),
    "cgs-equivalent": lambda u: u.get_cgs_equivalent(),
    "str": lambda u: str(u),
    "is_dimensionless": lambda u: u.is_dimensionless,
    "conversion-factor-to-self": lambda u: u.get_conversion_factor(u),
    "same-dims": lambda u: u.same_dimensions_as(u),
    "list_equivalencies": lambda u: tuple(sorted(u.list_equivalencies() or ())) if False else u.has_equivalent("thermal"),
    "sin-of-quantity": lambda u: np.sin(unyt_quantity(90.0, u)),
    "quantity-to-base": lambda u: unyt_quantity(2.0, u).in_base(),
    "quantity-times-2-refusal": lambda u: unyt_quantity(2.0, u) * unyt_quantity(2.0, u),
}


def udig(u):
    return (str(u.expr), repr(float(u.base_value)), repr(float(u.base_offset)), str(u.dimensions))


def canon(res):
    if isinstance(res, Unit):
        return ("unit", udig(res))
    if isinstance(res, unyt_array):
        a = np.asarray(res.d)
        return (type(res).__name__, a.shape, str(a.dtype), tuple(repr(v) for v in a.reshape(-1).tolist()), udig(res.units))
    if isinstance(res, np.ndarray):
        return ("ndarray", res.shape, str(res.dtype), tuple(repr(v) for v in res.reshape(-1).tolist()))
    if isinstance(res, tuple):
        return ("tuple", tuple(canon(r) for r in res))
    if isinstance(res, (float, np.floating, int, np.integer)) and not isinstance(res, (bool, np.bool_)):
        return ("num", repr(float(res)))
    return ("py", repr(res))


def run_follow(f, x):
    import warnings

    with warnings.catch_warnings():
        warnings.simplefilter("ignore")
        try:
            return ("ok", canon(f(x)))
        except Exception as e:  # noqa: BLE001
            return ("raise", type(e).__name__)


def registry_digest(reg):
    """user-visible content of a registry: rows that differ from the pristine table (without derived prefixed memo rows) + unit system"""
    rows = []
    for k, v in world.lut_delta(reg.lut, world._PRISTINE_TABLE):
        rows.append((k, v))
    return (tuple(rows), str(getattr(reg, "unit_system", None)))


def user_rows(reg):
    """rows of user-level symbols only (the ones added/modified by make_registry)"""
    names = ("code_length", "code_time", "Msun", "pc", "foo", "degX", "ang", "code_mass", "sibling")
    out = []
    for n in names:
        row = reg.lut.get(n)
        if row is not None:
            out.append((n, world._row_digest(row)))
    return tuple(out), str(getattr(reg, "unit_system", None))


def build_object(kind, regkind, unit):
    reg = make_registry(regkind)
    if kind == "unit":
        return Unit(unit, registry=reg)
    if kind == "quantity":
        return unyt_quantity(90.0, unit, registry=reg)
    return unyt_array(np.array([30.0, 60.0, 90.0]), unit, registry=reg)


def one_case(ctx, kind, regkind, unit, hops):
    """returns nothing; records violations"""
    case = {"kind": kind, "registry": regkind, "unit": unit, "hops": list(hops)}
    hopname = "+".join(hops)
    base = f"C11|kind={kind}|registry={regkind}|unit={unit}|hop={hopname}"
    follow = UNIT_FOLLOWUPS if kind == "unit" else followups_for(unit)
    outcomes = {}
    for order in ("original-first", "restored-first"):
        world.reset_world()
        try:
            x = build_object(kind, regkind, unit)
        except Exception:  # noqa: BLE001
            ctx.count("object_not_constructible")
            return
        y = x
        try:
            for h in hops:
                y = HOPS[h](y)
        except NotApplicable:
            ctx.count("hop_not_applicable")
            return
        except Exception as e:  # noqa: BLE001
            ctx.count("evaluations")
            ctx.violation(base + f"|mode=hop-fails:{type(e).__name__}", case, "restored object", str(e)[:120])
            return
        ctx.count("evaluations")
        if order == "original-first":
            # (1) state: numbers, unit, registry content
            ux = x if kind == "unit" else x.units
            uy = y if isinstance(y, Unit) else getattr(y, "units", None)
            if uy is None:
                ctx.violation(base + "|mode=restored-object-has-no-unit", case, str(ux), type(y).__name__)
                return
            if kind != "unit":
                a, b = np.asarray(x.d), np.asarray(y.d)
                lossy = "savetxt-loadtxt" in hops
                if a.shape != b.shape or not (np.allclose(a, b, rtol=1e-15, atol=0) if lossy else np.array_equal(a, b)):
                    ctx.violation(base + "|mode=numbers-differ", case, a.tolist(), b.tolist())
                if type(x) is not type(y):
                    ctx.violation(base + "|mode=class-differs", case, type(x).__name__, type(y).__name__)
            if udig(ux)[1:] != udig(uy)[1:] or not (ux == uy):
                ctx.violation(base + "|mode=unit-differs", case, udig(ux), udig(uy))
            if user_rows(reg_of(x)) != user_rows(reg_of(y)) and "savetxt-loadtxt" not in hops:
                key = base + "|mode=registry-content-differs"
                if regkind == "removed" and not any(n in reg_of(y).lut for n in ()) and "pc" in reg_of(y).lut and "pc" not in reg_of(x).lut:
                    key = f"C11|registry=removed|hop={hopname}|cause=removed-built-in-symbol-restored-by-the-reload"
                ctx.violation(key, case, str(user_rows(reg_of(x)))[:300], str(user_rows(reg_of(y)))[:300])
        first, second = (x, y) if order == "original-first" else (y, x)
        res = {}
        for fname, f in follow.items():
            r1 = run_follow(f, first)
            r2 = run_follow(f, second)
            res[fname] = (r1, r2) if order == "original-first" else (r2, r1)
        outcomes[order] = res
    for fname in follow:
        (o1, r1), (o2, r2) = outcomes["original-first"][fname], outcomes["restored-first"][fname]
        ctx.decided((kind, regkind, unit, hopname, fname))
        ctx.outcome((fname, o1[0], r1[0]))
        if "savetxt-loadtxt" in hops and o1[0] == "ok" and r1[0] == "ok":
            same = _close(o1, r1) and _close(o2, r2)
        else:
            same = o1 == r1 and o2 == r2
        if not same:
            which = "original-first" if o1 != r1 else "restored-first"
            a, b = (o1, r1) if o1 != r1 else (o2, r2)
            mode = "refusal-differs" if a[0] != b[0] else ("unit-differs" if a[0] == "ok" and isinstance(a[1], tuple) and isinstance(b[1], tuple) and a[1][:-1] == b[1][:-1] else "outcome-differs")
            key = base + f"|followup={fname}|mode=restored-{mode}"
            if regkind == "removed" and mode == "refusal-differs" and a[0] == "raise" and b[0] == "ok":
                # keyed by cause: the reload hands back a registry in which the removed built-in symbols exist again
                key = f"C11|registry=removed|hop={hopname}|cause=removed-built-in-symbol-restored-by-the-reload"
            ctx.violation(key, dict(case, followup=fname, order=which), _short(a), _short(b))
        elif o1 != o2:
            ctx.violation(base + f"|followup={fname}|mode=outcome-depends-on-which-ran-first", dict(case, followup=fname), _short(o1), _short(o2))


def _close(a, b):
    if a == b:
        return True
    try:
        va, vb = a[1], b[1]
        if va[0] != vb[0] or va[1] != vb[1]:
            return False
        xa = np.array([complex(eval(v)) if isinstance(v, str) else v for v in va[3]], dtype=complex)
        xb = np.array([complex(eval(v)) if isinstance(v, str) else v for v in vb[3]], dtype=complex)
        return bool(np.allclose(xa, xb, rtol=1e-12, atol=1e-300)) and va[4:] == vb[4:]
    except Exception:  # noqa: BLE001
        return False


def _short(o):
    s = repr(o)
    return s if len(s) < 300 else s[:300] + "..."


def specs(tier):
    out = []
    dunits = DEFAULT_UNITS if tier == "thorough" else DEFAULT_UNITS_QUICK
    for u in dunits:
        for kind in ("array", "quantity", "unit"):
            out.append((kind, "default", u))
    for rk, units in CUSTOM_UNITS.items():
        for u in units:
            for kind in ("array", "quantity", "unit"):
                out.append((kind, rk, u))
    return out


def part_txt_columns(ctx, shard):
    """savetxt of several arrays in different units, loadtxt with every choice and order of columns: each returned array
    carries the numbers AND the unit of the column it was read from"""
    import os
    import tempfile

    world.reset_world()
    cols = [("km/s", [1.5, 2.5, 3.5]), ("kpc", [10.0, 20.0, 30.0]), ("g", [0.25, 0.5, 0.75]), ("degC", [5.0, 15.0, 25.0])]
    arrays = [unyt_array(np.array(v), u) for u, v in cols]
    for delim, cmt in itertools.product(shard, ("#", "%", "!")):
        fd, fn = tempfile.mkstemp(prefix="c11cols_", suffix=".txt", dir="/tmp")
        os.close(fd)
        try:
            unyt.savetxt(fn, arrays, delimiter=delim, comments=cmt)
            n = len(cols)
            choices = [None]
            for k in (1, 2, 3):
                choices += list(itertools.permutations(range(n), k))
            choices += [(-1,), (-1, 0), (0, -2), (-3, -1)]
            for uc in choices:
                ctx.count("evaluations")
                case = {"part": "txt-columns", "delimiter": delim, "usecols": list(uc) if uc else None, "comments": cmt}
                base = f"C11|txt-columns|comments={'default' if cmt == '#' else 'other'}|usecols={'all' if uc is None else ('negative' if any(c < 0 for c in uc) else ('ascending' if list(uc) == sorted(uc) else 'reordered'))}"
                try:
                    r = unyt.loadtxt(fn, delimiter=delim, usecols=uc, comments=cmt) if uc is not None else unyt.loadtxt(fn, delimiter=delim, comments=cmt)
                except Exception as e:  # noqa: BLE001
                    ctx.violation(base + f"|mode=loadtxt-fails:{type(e).__name__}", case, "arrays", str(e)[:100])
                    continue
                got = [r] if isinstance(r, unyt_array) else list(r)
                want_idx = list(range(n)) if uc is None else [c % n for c in uc]
                ctx.decided(("txt-columns", delim, uc))
                if len(got) != len(want_idx):
                    ctx.violation(base + "|mode=wrong-number-of-columns", case, len(want_idx), len(got))
                    continue
                for g, wi in zip(got, want_idx):
                    wu, wv = cols[wi]
                    if not np.allclose(np.asarray(g.d, dtype=float), wv, rtol=1e-15) or g.units != Unit(wu) or str(g.units.expr) != str(Unit(wu).expr):
                        ctx.violation(base + "|mode=column-has-another-column's-unit-or-numbers", case, {"unit": wu, "values": wv}, {"unit": str(g.units), "values": np.asarray(g.d).tolist()})
                        break
        finally:
            os.remove(fn)


def part_txt_single(ctx, shard):
    """files holding one value, one row or one column: what was written comes back (NumPy returns 0-d / 1-d arrays there)"""
    import os
    import tempfile

    world.reset_world()
    for unit in shard:
        written = {
            "one-value-array": [unyt_array(np.array([2.5]), unit)],
            "one-row-two-columns": [unyt_array(np.array([2.5]), unit), unyt_array(np.array([4.0]), "s")],
            "two-rows-one-column": [unyt_array(np.array([2.5, 3.5]), unit)],
            "quantity": [unyt_quantity(2.5, unit)],
        }
        for wname, arrays in written.items():
            for kw in ({}, {"usecols": (0,)}, {"delimiter": ","}):
                ctx.count("evaluations")
                fd, fn = tempfile.mkstemp(prefix="c11one_", suffix=".txt", dir="/tmp")
                os.close(fd)
                case = {"part": "txt-single", "unit": unit, "written": wname, "kw": {k: list(v) if isinstance(v, tuple) else v for k, v in kw.items()}}
                base = f"C11|txt-single|written={wname}|kw={'+'.join(sorted(kw)) or 'none'}"
                try:
                    try:
                        unyt.savetxt(fn, arrays, **({"delimiter": kw["delimiter"]} if "delimiter" in kw else {}))
                    except Exception:  # noqa: BLE001
                        ctx.count("savetxt_refused")
                        continue
                    try:
                        r = unyt.loadtxt(fn, **kw)
                    except Exception as e:  # noqa: BLE001
                        ctx.violation(base + f"|mode=loadtxt-fails:{type(e).__name__}", case, "arrays", str(e)[:100])
                        continue
                finally:
                    os.remove(fn)
                got = [r] if isinstance(r, unyt_array) else list(r)
                want = arrays[:1] if "usecols" in kw else arrays
                ctx.decided(("txt-single", unit, wname, tuple(kw)))
                if len(got) != len(want):
                    ctx.violation(base + "|mode=wrong-number-of-columns", case, len(want), len(got))
                    continue
                for g, w in zip(got, want):
                    if not isinstance(g, unyt_array) or g.units != w.units or not np.allclose(np.asarray(g.d, dtype=float).reshape(-1), np.asarray(w.d, dtype=float).reshape(-1), rtol=1e-15):
                        ctx.violation(base + "|mode=value-or-unit-differs", case, str(w), str(g))
                        break


def shard_fn(ctx, shard):
    for kind, regkind, unit, hops in shard:
        one_case(ctx, kind, regkind, unit, hops)


def run(ctx):
    sp = specs(ctx.tier)
    if ctx.tier == "quick":
        hopseqs = [(h,) for h in QUICK_HOPS]
    else:
        names = list(HOPS)
        hopseqs = [(h,) for h in names] + [(a, b) for a, b in itertools.product(QUICK_HOPS, QUICK_HOPS)]
    cases = [(k, r, u, hs) for (k, r, u) in sp for hs in hopseqs]
    shards = [cases[i::128] for i in range(128)]
    harness.pmap(ctx, shard_fn, shards)
    harness.pmap(ctx, part_txt_columns, [["\t"], [","], [" "]])
    harness.pmap(ctx, part_txt_single, [["km"], ["degC"], ["g*cm/s**2"], ["dimensionless"], ["percent"], ["mol"], ["Zsun"]])
    return {
        "coverage": {
            "rule": "one evaluation = object x hop sequence x order, built and run from a reset world; a decided case = one follow-up operation "
            "compared between original and restored in both orders",
            "objects": len(sp),
            "units_default": DEFAULT_UNITS if ctx.tier == "thorough" else DEFAULT_UNITS_QUICK,
            "custom_registries": CUSTOM_UNITS,
            "hop_sequences": len(hopseqs),
            "hops": QUICK_HOPS if ctx.tier == "quick" else list(HOPS),
            "hop_bound_completed": 1 if ctx.tier == "quick" else 2,
            "followups_quantity": list(followups_for("m")),
            "followups_unit": list(UNIT_FOLLOWUPS),
        },
        "assumptions": [
            "follow-up outcomes are compared exactly (same code path on the same numbers); savetxt->loadtxt goes through decimal text and is compared to 1e-12",
            "HDF5 persistence is not exercised: h5py is not installed in the sealed image",
            "loadtxt cannot carry a registry: registry content is not compared for that hop",
        ],
    }


def replay(case):
    ctx = harness.Ctx(PROPERTY, "quick", 0)
    if case.get("part") == "txt-columns":
        part_txt_columns(ctx, [case["delimiter"]])
        return list(ctx.violations.items())
    if case.get("part") == "txt-single":
        part_txt_single(ctx, [case["unit"]])
        return list(ctx.violations.items())
    one_case(ctx, case["kind"], case["registry"], case["unit"], tuple(case["hops"]))
    return list(ctx.violations.items())
