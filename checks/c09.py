"""C09  Equivalence conversions are mutually inverse, pure, and match their formulas.

Exhaustive product   equivalence x ordered pair of member dimensions x unit of the input x unit of the target x
keyword parameters x entry point x dtype x shape   on the real code, against the closed-form formula evaluated on
SI magnitudes with the library's own constants; there-and-back and via-intermediate laws; input untouched by the
copying forms; in-place forms give the numbers and unit of the copying form; every request outside an
equivalence's member set (all dimensions of the alphabet) raises InvalidUnitEquivalence.
"""

import itertools

import numpy as np

from mc import harness, world
from mc.ref.dims import dim_of

PROPERTY = "C09"

import unyt
from unyt import physical_constants as pc
from unyt import unyt_array, unyt_quantity
from unyt.exceptions import InvalidUnitEquivalence
from unyt.unit_object import Unit

# ---- alphabets ------------------------------------------------------------------------------------------
UNITS = {
    "temperature": ["K", "R", "mK"],
    "energy": ["J", "erg", "keV", "kW*hr", "ft*lbf", "kg*m**2/s**2", "g*cm**2/s**2"],
    "mass": ["kg", "g", "Msun", "lb"],
    "length": ["m", "cm", "angstrom", "km", "AU"],
    "rate": ["Hz", "1/s", "GHz", "1/hr"],
    "spatial_frequency": ["1/m", "1/cm", "1/angstrom"],
    "velocity": ["m/s", "km/s", "cm/s", "mile/hr"],
    "dimensionless": ["dimensionless", "", "1"],
    "density": ["kg/m**3", "g/cm**3", "Msun/pc**3"],
    "number_density": ["1/m**3", "cm**-3"],
    "flux": ["W/m**2", "erg/s/cm**2", "kg/s**3"],
}
OFFSET_SOURCES = {"temperature": ["degC", "degF"]}
C = float(pc.clight.in_mks().v)
H = float(pc.h_mks.in_mks().v)
KB = float(pc.kboltz.in_mks().v)
MH = float(pc.mh.in_mks().v)
G = float(pc.G.in_mks().v)
SIGMA = float(pc.stefan_boltzmann_constant_mks.in_mks().v)

# SI values per source dimension (several decades, physically meaningful)
VALUES = {
    "temperature": [2.725, 300.0, 5.0e6],
    "energy": [1.6e-19, 4.2e-3, 3.0e10],
    "mass": [9.1e-31, 1.0, 2.0e30],
    "length": [1.0e-10, 0.21, 1.5e11],
    "rate": [1.0e-3, 1.4e9, 5.0e14],
    "spatial_frequency": [1.0e-6, 4.0, 2.0e9],
    "velocity": [3.0e2, 2.9e5, 1.0e7],
    "density": [1.0e-24, 1.0, 2.0e4],
    "number_density": [1.0e-2, 1.0e6, 3.0e26],
    "flux": [1.0e-9, 1361.0, 6.3e7],
}
LORENTZ_V = [0.1 * C, 0.5 * C, 0.9 * C, 0.999 * C]
LORENTZ_G = [1.25, 2.0, 10.0, 1000.0]


def formulas(mu=0.6, gamma=5.0 / 3.0):
    """equivalence -> {(from_dim, to_dim): f(x_SI) -> y_SI}; typed from the defining formulas"""
    F = {}
    F["thermal"] = {("temperature", "energy"): lambda T: KB * T, ("energy", "temperature"): lambda E: E / KB}
    F["mass_energy"] = {("mass", "energy"): lambda m: m * C * C, ("energy", "mass"): lambda E: E / (C * C)}
    F["spectral"] = {
        ("length", "rate"): lambda x: C / x,
        ("length", "energy"): lambda x: H * C / x,
        ("length", "spatial_frequency"): lambda x: 1.0 / x,
        ("rate", "length"): lambda x: C / x,
        ("rate", "energy"): lambda x: H * x,
        ("rate", "spatial_frequency"): lambda x: x / C,
        ("energy", "length"): lambda x: H * C / x,
        ("energy", "rate"): lambda x: x / H,
        ("energy", "spatial_frequency"): lambda x: x / (H * C),
        ("spatial_frequency", "length"): lambda x: 1.0 / x,
        ("spatial_frequency", "rate"): lambda x: x * C,
        ("spatial_frequency", "energy"): lambda x: x * H * C,
    }
    F["sound_speed"] = {
        ("temperature", "velocity"): lambda T: np.sqrt(gamma * KB * T / (mu * MH)),
        ("energy", "velocity"): lambda E: np.sqrt(gamma * E / (mu * MH)),
        ("velocity", "temperature"): lambda v: v * v * mu * MH / (gamma * KB),
        ("velocity", "energy"): lambda v: v * v * mu * MH / gamma,
        ("temperature", "energy"): lambda T: KB * T,
        ("energy", "temperature"): lambda E: E / KB,
    }
    F["lorentz"] = {
        ("velocity", "dimensionless"): lambda v: 1.0 / np.sqrt(1.0 - (v / C) ** 2),
        ("dimensionless", "velocity"): lambda g: C * np.sqrt(1.0 - 1.0 / (g * g)),
    }
    F["schwarzschild"] = {("mass", "length"): lambda m: 2.0 * G * m / (C * C), ("length", "mass"): lambda r: r * C * C / (2.0 * G)}
    F["compton"] = {("mass", "length"): lambda m: H / (m * C), ("length", "mass"): lambda lam: H / (lam * C)}
    F["number_density"] = {("density", "number_density"): lambda rho: rho / (mu * MH), ("number_density", "density"): lambda n: n * mu * MH}
    F["effective_temperature"] = {("temperature", "flux"): lambda T: SIGMA * T**4, ("flux", "temperature"): lambda Fx: (Fx / SIGMA) ** 0.25}
    return F


KWARGS = {
    "number_density": [{}, {"mu": 1.4}],
    "sound_speed": [{}, {"mu": 1.4}, {"gamma": 1.4}, {"mu": 1.2, "gamma": 1.1}],
}
COPY_ENTRIES = {
    "to": lambda q, u, e, kw: q.to(u, equivalence=e, **kw),
    "to-positional": lambda q, u, e, kw: q.to(u, e, **kw),
    "in_units": lambda q, u, e, kw: q.in_units(u, equivalence=e, **kw),
    "to_value": lambda q, u, e, kw: q.to_value(u, equivalence=e, **kw),
    "to_equivalent": lambda q, u, e, kw: q.to_equivalent(u, e, **kw),
}
# the target given as a Unit object instead of its spelling
for _n in ("to", "to_value", "to_equivalent"):
    COPY_ENTRIES[_n + "-unitobj"] = (lambda f: lambda q, u, e, kw: f(q, Unit(u, registry=q.units.registry), e, kw))(COPY_ENTRIES[_n])
INPLACE_ENTRIES = {
    "convert_to_units": lambda q, u, e, kw: q.convert_to_units(u, equivalence=e, **kw),
    "convert_to_equivalent": lambda q, u, e, kw: q.convert_to_equivalent(u, e, **kw),
}
DTYPES = ["float64", "float32", "int64"]


def src_values(eq, fd):
    if eq == "lorentz":
        return LORENTZ_V if fd == "velocity" else LORENTZ_G
    return VALUES[fd]


def make(si_vals, unit, dtype, shape):
    u = Unit(unit)
    vals = np.asarray(si_vals, dtype=np.float64) / float(u.base_value)
    if u.base_offset:
        vals = vals - float(u.base_offset) if False else vals
    if dtype == "int64":
        vals = np.array([2, 4, 8][: len(vals)] + [5] * max(0, len(vals) - 3))  # integer data: small whole numbers of the source unit
    vals = vals.astype(dtype)
    if shape == "scalar":
        return unyt_quantity(vals[1], unit, name="src")
    return unyt_array(vals.copy(), unit, name="src")


def stored_si(q):
    """SI magnitude actually stored (after rounding to the dtype) - the formula is applied to this"""
    return np.asarray(q.d, dtype=np.float64) * float(q.units.base_value)


def rtol_for(dtype, eq):
    k = 8.0 if eq in ("effective_temperature", "sound_speed", "lorentz") else 4.0
    return k * 64 * float(np.finfo("float64" if dtype == "int64" else dtype).eps)


def run_entry(f, q, u, e, kw):
    try:
        return ("ok", f(q, u, e, kw))
    except Exception as ex:  # noqa: BLE001
        return ("raise", ex)


def part_formula(ctx, shard):
    world.reset_world()
    for eq in shard:
        for kw in KWARGS.get(eq, [{}]):
            F = formulas(**{k: kw[k] for k in kw})[eq]
            kwname = ",".join(f"{k}" for k in sorted(kw)) or "default"
            for (fd, td), f in F.items():
                for fu, tu, dtype, shape in itertools.product(UNITS[fd], UNITS[td], DTYPES, ("scalar", "array")):
                    if dtype == "float32" and (fu != UNITS[fd][0] or tu != UNITS[td][0]):
                        continue
                    if dtype == "int64" and (eq == "lorentz" or fu not in UNITS[fd][:2] or tu not in UNITS[td][:2]):
                        continue  # integer data: two spellings per side; 2, 4, 8 units of speed or of gamma are not both physical  # narrow floats: SI spellings only, so that every intermediate is an SI-sized number
                    src = make(src_values(eq, fd), fu, dtype, shape)
                    x_si = stored_si(src)
                    y_si = f(x_si)
                    tscale = float(Unit(tu).base_value)
                    want = y_si / tscale
                    rt = rtol_for(dtype, eq)
                    if dtype == "float32":
                        with np.errstate(all="ignore"):
                            inter = [x_si, y_si, want, x_si * x_si if eq in ("sound_speed", "lorentz") else x_si, y_si**4 if td == "flux" else y_si]
                            fin = np.finfo(np.float32)
                            bad = any(np.any((np.abs(v) > fin.max / 16) | ((np.abs(v) < fin.tiny * 1e6) & (np.abs(v) > 0))) for v in inter) or abs(float(Unit(fu).base_value)) * 0 != 0
                            # constants such as h (6.6e-34) or c**2 leave float32's range in intermediates
                            consts = {"thermal": [KB], "mass_energy": [C * C], "spectral": [H, H * C], "sound_speed": [KB, MH], "lorentz": [], "schwarzschild": [G / (C * C), C * C / G], "compton": [H / C], "number_density": [MH], "effective_temperature": [SIGMA]}[eq]
                            bad = bad or any(abs(c) > fin.max / 16 or abs(c) < fin.tiny * 1e6 for c in consts)
                        if bad:
                            ctx.count("filtered_float32_out_of_range")
                            continue
                    copy_results = {}
                    base = f"C09|formula|eq={eq}|pair={fd}->{td}|kw={kwname}"
                    case0 = {"part": "formula", "eq": eq, "from": fu, "to": tu, "kw": kw, "dtype": dtype, "shape": shape}
                    for ename, ef in COPY_ENTRIES.items():
                        ctx.count("evaluations")
                        q = src.copy()
                        q.name = "src"
                        before = (np.asarray(q.d).tobytes(), str(q.units), q.dtype, q.name)
                        st, r = run_entry(ef, q, tu, eq, kw)
                        case = dict(case0, entry=ename)
                        ctx.outcome(("formula", eq, fd, td, ename, st, dtype))
                        if st == "raise":
                            ctx.violation(base + f"|entry={ename}|mode=covered-request-raises:{type(r).__name__}", case, "value", str(r)[:120])
                            continue
                        ctx.decided(("formula", eq, fu, tu, kwname, ename, dtype, shape))
                        after = (np.asarray(q.d).tobytes(), str(q.units), q.dtype, q.name)
                        if after != before:
                            ctx.violation(base + f"|entry={ename}|mode=copying-form-changed-its-input", case, str(before[1:]), str(after[1:]))
                        got = np.asarray(r.d if isinstance(r, unyt_array) else r, dtype=np.float64)
                        if not ename.startswith("to_value"):
                            if not isinstance(r, unyt_array) or dim_of(r.units.dimensions) != dim_of(Unit(tu).dimensions) or abs(float(r.units.base_value) / tscale - 1) > 1e-12:
                                ctx.violation(base + f"|entry={ename}|mode=wrong-result-unit", case, tu, str(getattr(r, "units", None)))
                                continue
                        if got.shape != np.shape(want) or np.any(np.abs(got - want) > rt * np.abs(want)):
                            ctx.violation(base + f"|entry={ename}|mode=differs-from-formula", case, np.asarray(want).tolist(), got.tolist())
                            continue
                        copy_results[ename] = got
                    for ename, ef in INPLACE_ENTRIES.items():
                        ctx.count("evaluations")
                        q = src.copy()
                        st, r = run_entry(ef, q, tu, eq, kw)
                        case = dict(case0, entry=ename)
                        ctx.outcome(("formula", eq, fd, td, ename, st, dtype))
                        if st == "raise":
                            ctx.violation(base + f"|entry={ename}|mode=covered-request-raises:{type(r).__name__}", case, "value", str(r)[:120])
                            continue
                        ctx.decided(("formula", eq, fu, tu, kwname, ename, dtype, shape))
                        got = np.asarray(q.d, dtype=np.float64)
                        if dim_of(q.units.dimensions) != dim_of(Unit(tu).dimensions) or abs(float(q.units.base_value) / tscale - 1) > 1e-12:
                            ctx.violation(base + f"|entry={ename}|mode=wrong-result-unit", case, tu, str(q.units))
                            continue
                        if got.shape != np.shape(want) or np.any(np.abs(got - want) > rt * np.abs(want)):
                            ctx.violation(base + f"|entry={ename}|mode=differs-from-formula", case, np.asarray(want).tolist(), got.tolist())
                            continue
                        ref = copy_results.get("to")
                        if ref is not None and np.any(np.abs(got - ref) > rt * np.abs(ref)):
                            ctx.violation(base + f"|entry={ename}|mode=in-place-differs-from-copy", case, ref.tolist(), got.tolist())
                    # there and back
                    if "to" in copy_results and (td, fd) in F and dtype == "float64":
                        ctx.count("evaluations")
                        y = COPY_ENTRIES["to"](src.copy(), tu, eq, kw)
                        st, back = run_entry(COPY_ENTRIES["to"], y, fu, eq, kw)
                        if st == "ok":
                            xb = np.asarray(back.d, dtype=np.float64)
                            x0 = np.asarray(src.d, dtype=np.float64)
                            cond = 1.0
                            if eq == "lorentz":
                                g = y_si if td == "dimensionless" else x_si
                                cond = float(np.max(g * g))  # v <-> gamma is ill-conditioned as v -> c
                            ctx.decided(("roundtrip", eq, fu, tu, kwname, shape))
                            if np.any(np.abs(xb - x0) > 64 * rt * cond * np.abs(x0)):
                                ctx.violation(base + "|mode=there-and-back-differs", dict(case0, entry="to"), x0.tolist(), xb.tolist())
                        else:
                            ctx.violation(base + f"|mode=way-back-raises:{type(back).__name__}", dict(case0, entry="to"), "value", str(back)[:100])
            # via an intermediate member (spectral, sound_speed)
            dims = sorted({d for pair in F for d in pair})
            if len(dims) >= 3:
                for a, b, c in itertools.permutations(dims, 3):
                    if (a, b) not in F or (b, c) not in F or (a, c) not in F:
                        continue
                    for ua, ub, uc in itertools.product(UNITS[a][:2], UNITS[b][:3], UNITS[c][:2]):
                        ctx.count("evaluations")
                        src = make(src_values(eq, a), ua, "float64", "array")
                        st1, direct = run_entry(COPY_ENTRIES["to"], src.copy(), uc, eq, kw)
                        st2, mid = run_entry(COPY_ENTRIES["to"], src.copy(), ub, eq, kw)
                        if st1 != "ok" or st2 != "ok":
                            continue
                        st3, via = run_entry(COPY_ENTRIES["to"], mid, uc, eq, kw)
                        if st3 != "ok":
                            continue
                        ctx.decided(("via", eq, ua, ub, uc, kwname))
                        d1, d2 = np.asarray(direct.d, dtype=float), np.asarray(via.d, dtype=float)
                        if np.any(np.abs(d1 - d2) > 64 * rtol_for("float64", eq) * np.abs(d1)):
                            ctx.violation(
                                f"C09|via|eq={eq}|path={a}->{b}->{c}|kw={kwname}|mode=via-intermediate-differs",
                                {"part": "formula", "eq": eq, "from": ua, "via": ub, "to": uc, "kw": kw},
                                d1.tolist(),
                                d2.tolist(),
                            )
        # offset-scale sources may refuse; a returned value must be right
        F0 = formulas()[eq]
        for (fd, td), f in F0.items():
            for fu in OFFSET_SOURCES.get(fd, []):
                for tu in UNITS[td][:2]:
                    ctx.count("evaluations")
                    q = unyt_array(np.array([10.0, 300.0]), fu)
                    kelvin = np.asarray(q.to("K").d, dtype=float)
                    st, r = run_entry(COPY_ENTRIES["to"], q, tu, eq, {})
                    if st != "ok":
                        ctx.count("offset_source_refused")
                        continue
                    ctx.decided(("offset", eq, fu, tu))
                    want = f(kelvin) / float(Unit(tu).base_value)
                    got = np.asarray(r.d, dtype=float)
                    if np.any(np.abs(got - want) > 1e-9 * np.abs(want)):
                        ctx.violation(f"C09|offset-source|eq={eq}|from={fu}|to-dim={td}|mode=differs-from-formula", {"part": "formula", "eq": eq, "from": fu, "to": tu, "kw": {}}, want.tolist(), got.tolist())


OFFSET_TARGETS = {"degC": (1.0, 273.15), "degF": (5.0 / 9.0, 459.67 * 5.0 / 9.0), "mdegC": (1.0e-3, 273.15)}  # K = scale * reading + zero


def part_offset_targets(ctx, shard):
    """targets on an offset temperature scale: every entry point - copying and in place - lands on the affine reading"""
    world.reset_world()
    for eq in shard:
        F0 = formulas()[eq]
        for (fd, td), f in F0.items():
            if td != "temperature":
                continue
            for fu, (tu, (tsc, tzero)) in itertools.product(UNITS[fd][:2], OFFSET_TARGETS.items()):
                for shape in ("array", "scalar"):
                    src = make(src_values(eq, fd), fu, "float64", shape)
                    kel = f(stored_si(src))
                    want = (kel - tzero) / tsc
                    results = {}
                    for ename, ef in list(COPY_ENTRIES.items()) + list(INPLACE_ENTRIES.items()):
                        ctx.count("evaluations")
                        q = src.copy()
                        st, r = run_entry(ef, q, tu, eq, {})
                        case = {"part": "offset-target", "eq": eq, "from": fu, "to": tu, "entry": ename, "shape": shape}
                        ctx.outcome(("offset-target", eq, fd, tu, ename, st))
                        if st != "ok":
                            ctx.count("offset_target_refused")
                            continue
                        ctx.decided(("offset-target", eq, fu, tu, ename, shape))
                        res = q if ename in INPLACE_ENTRIES else r
                        got = np.asarray(res.d if isinstance(res, unyt_array) else res, dtype=float)
                        results[ename] = got
                        tol = 1e-9 * np.maximum(np.abs(kel), 300.0) / tsc
                        if got.shape != np.shape(want) or np.any(np.abs(got - want) > tol):
                            ctx.violation(f"C09|offset-target|eq={eq}|from-dim={fd}|to={tu}|entry={ename}|mode=differs-from-formula", case, np.asarray(want).tolist(), got.tolist())
                    if "to" in results and "convert_to_units" in results and np.any(np.abs(results["to"] - results["convert_to_units"]) > 1e-9 * np.abs(results["to"]) + 1e-9):
                        ctx.violation(f"C09|offset-target|eq={eq}|from-dim={fd}|to={tu}|mode=in-place-differs-from-copy", {"part": "offset-target", "eq": eq, "from": fu, "to": tu}, results["to"].tolist(), results["convert_to_units"].tolist())


def part_custom_registry(ctx, shard):
    """operands and target NAMES that live in a custom registry (a re-defined Msun, a code_mass symbol): every entry point
    reads the target name in the operand's registry"""
    from unyt import dimensions as udims
    from unyt.unit_registry import UnitRegistry

    world.reset_world()
    F = formulas()
    for eq in shard:
        reg = UnitRegistry()
        reg.modify("Msun", 2.0e30)
        reg.add("code_mass", 5.0, udims.mass)
        reg.add("code_length", 3.0, udims.length)
        local = {"mass": ["Msun", "code_mass", "kg"], "length": ["code_length", "km"], "energy": ["J", "code_mass*code_length**2/s**2"]}
        for (fd, td), f in F[eq].items():
            if fd not in local or td not in local:
                continue
            for fu, tu in itertools.product(local[fd], local[td]):
                fscale = float(Unit(fu, registry=reg).base_value)
                tscale = float(Unit(tu, registry=reg).base_value)
                x_si = np.asarray(src_values(eq, fd), dtype=float)
                src = unyt_array(x_si / fscale, fu, registry=reg, name="src")
                want = f(stored_si(src)) / tscale
                rt = rtol_for("float64", eq)
                for ename, ef in list(COPY_ENTRIES.items()) + list(INPLACE_ENTRIES.items()):
                    ctx.count("evaluations")
                    q = src.copy()
                    st, r = run_entry(ef, q, tu, eq, {})
                    case = {"part": "custom-registry", "eq": eq, "from": fu, "to": tu, "entry": ename}
                    base = f"C09|custom-registry|eq={eq}|pair={fd}->{td}|entry={ename}"
                    ctx.outcome(("custom", eq, fu, tu, ename, st))
                    if st == "raise":
                        ctx.violation(base + f"|mode=covered-request-raises:{type(r).__name__}", case, "value", str(r)[:120])
                        continue
                    ctx.decided(("custom", eq, fu, tu, ename))
                    res = q if ename in INPLACE_ENTRIES else r
                    got = np.asarray(res.d if isinstance(res, unyt_array) else res, dtype=float)
                    if got.shape != want.shape or np.any(np.abs(got - want) > rt * np.abs(want)):
                        ctx.violation(base + "|mode=target-name-read-in-another-registry-or-wrong-value", case, want.tolist(), got.tolist())


def part_uncovered(ctx, shard):
    world.reset_world()
    F = formulas()
    for eq in shard:
        members = {d for pair in F[eq] for d in pair}
        for fd, td in itertools.product(UNITS, UNITS):
            if fd == td:
                continue  # same-dimension requests are plain conversions (shortcut), not equivalence requests
            if (fd, td) in F[eq]:
                continue
            for fu, tu in itertools.product(UNITS[fd][:2], UNITS[td][:2]):
                q0 = unyt_array(np.array([1.5, 2.5]), fu)
                for ename, ef in list(COPY_ENTRIES.items()) + list(INPLACE_ENTRIES.items()):
                    ctx.count("evaluations")
                    q = q0.copy()
                    before = (np.asarray(q.d).tobytes(), str(q.units))
                    st, r = run_entry(ef, q, tu, eq, {})
                    klass = "both-members" if fd in members and td in members else "one-member" if fd in members or td in members else "no-member"
                    ctx.outcome(("uncovered", eq, fd, td, ename, st, type(r).__name__ if st == "raise" else ""))
                    ctx.decided(("uncovered", eq, fu, tu, ename))
                    case = {"part": "uncovered", "eq": eq, "from": fu, "to": tu, "entry": ename}
                    base = f"C09|uncovered|eq={eq}|dims={fd}->{td}|entry={ename}"
                    if st == "ok":
                        ctx.violation(base + "|mode=returned-a-value", case, "InvalidUnitEquivalence", repr(r)[:100])
                    elif not isinstance(r, InvalidUnitEquivalence):
                        ctx.violation(base + f"|mode=wrong-exception:{type(r).__name__}", case, "InvalidUnitEquivalence", str(r)[:100])
                    if st == "raise" and (np.asarray(q.d).tobytes(), str(q.units)) != before:
                        ctx.violation(base + "|mode=refused-request-changed-its-input", case, before[1], str(q.units))


EQS = ["thermal", "mass_energy", "spectral", "sound_speed", "lorentz", "schwarzschild", "compton", "number_density", "effective_temperature"]


def run(ctx):
    from unyt.equivalencies import equivalence_registry

    missing = sorted(set(equivalence_registry) - set(EQS))
    if missing:
        raise harness.HarnessError("equivalence without reference formula: " + ", ".join(missing))
    harness.pmap(ctx, part_formula, [[e] for e in EQS])
    harness.pmap(ctx, part_uncovered, [[e] for e in EQS])
    harness.pmap(ctx, part_custom_registry, [["schwarzschild"], ["mass_energy"], ["compton"]])
    harness.pmap(ctx, part_offset_targets, [["thermal"], ["sound_speed"], ["effective_temperature"]])
    return {
        "coverage": {
            "rule": "formula: equivalence x keyword set x ordered member-dimension pair x input unit x target unit x dtype x shape x "
            "entry point, compared with the closed form on SI magnitudes; round trips and via-intermediate paths on the same "
            "alphabet; uncovered: equivalence x every ordered pair of the 11 dimensions outside its member pairs x 2x2 units x entry "
            "point must raise InvalidUnitEquivalence and leave the input alone",
            "equivalences": EQS,
            "units": UNITS,
            "keyword_sets": KWARGS,
            "entry_points": list(COPY_ENTRIES) + list(INPLACE_ENTRIES),
            "dtypes": DTYPES,
        },
        "assumptions": [
            "constants are the library's own (unyt.physical_constants) read once in SI; formulas typed from the defining physics",
            "tolerance 256-512 eps of the dtype relative to the result (power laws doubled); lorentz round trips scaled by gamma**2 (conditioning)",
            "float32 cases whose constants or intermediates leave float32's normal range are filtered and counted",
            "same-dimension requests (K -> R under any equivalence) are plain conversions and carry no verdict here",
            "offset-scale sources (degC, degF) may refuse; a returned value must be the formula's",
        ],
    }


def replay(case):
    ctx = harness.Ctx(PROPERTY, "quick", 0)
    if case["part"] == "custom-registry":
        part_custom_registry(ctx, [case["eq"]])
    elif case["part"] == "uncovered":
        part_uncovered(ctx, [case["eq"]])
    elif case["part"] == "offset-target":
        part_offset_targets(ctx, [case["eq"]])
    else:
        part_formula(ctx, [case["eq"]])
    return list(ctx.violations.items())
