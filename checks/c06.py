"""C06  NumPy functions compute the same numbers on quantities as on bare arrays.

Every catalogue template (all 261 functions dispatching through __array_function__ + ndarray methods;
positional / keyword / out= forms with non-default arguments) x dtype x payload pack x unit assignment is
executed twice on the real code: on bare ndarrays (NumPy is the reference model) and on unyt arrays built
from the same numbers.  Both raise, or shape, dtype kind, values and the contents of every out=/in-place
target agree.
"""

import numpy as np

from mc import harness, world
from mc.catalog import core, run as R

PROPERTY = "C06"
EPS = 2.0**-52

UNIT_SETS = {
    "si": {"X": "m", "Y": "s", "W": "g"},
    "other": {"X": "km", "Y": "hr", "W": "lb"},
    "compound": {"X": "m/s", "Y": "kg*m**2", "W": "1/s"},
    "dimless": {"X": "dimensionless", "Y": "s", "W": "g"},
    # angles: unit-aware behaviour is documented for the trigonometric ufuncs only (C04); everything else computes as NumPy does
    "angle": {"X": "degree", "Y": "s", "W": "g"},
}


def split_tid(tid):
    if "|" in tid:
        form, sh = tid.rsplit("|", 1)
        return form, sh.replace(" ", "")
    return tid, "-"


def key(t, dt, mode, leaf=""):
    form, sh = split_tid(t.tid)
    return f"C06|func={t.func}|form={form}|shape={sh}|dt={dt}{leaf}|mode={mode}"


def arr_close(a, b):
    """a: unyt-side ndarray, b: bare reference.  Returns None if equal, else mode string."""
    if a.shape != b.shape:
        return "wrong-shape"
    if a.dtype.kind != b.dtype.kind:
        return "wrong-dtype-kind"
    if a.dtype == b.dtype and a.tobytes() == b.tobytes():
        return None
    if a.dtype.kind in "biuSUO?":
        return None if np.array_equal(a, b) else "wrong-values"
    if a.size == 0:
        return None
    fa = np.asarray(a, dtype=complex if a.dtype.kind == "c" else float)
    fb = np.asarray(b, dtype=complex if b.dtype.kind == "c" else float)
    nan_a, nan_b = np.isnan(fa), np.isnan(fb)
    if not np.array_equal(nan_a, nan_b):
        return "wrong-values"
    inf_a = np.isinf(fa)
    if not np.array_equal(inf_a, np.isinf(fb)) or not np.array_equal(fa[inf_a], fb[inf_a]):
        return "wrong-values"
    m = ~(nan_a | inf_a)
    if not m.any():
        return None
    scale = np.max(np.abs(fb[m]))
    if np.max(np.abs(fa[m] - fb[m])) <= 64 * EPS * max(scale, 1e-300):
        return None
    return "wrong-values"


def compare_trees(tu, tb, path=()):
    """yield (path, mode) for every disagreement between unyt-side tree tu and bare tree tb"""
    if tu[0] != tb[0]:
        # a 0-d array vs python scalar are both 'arr' already; anything else is a structural difference
        yield path, f"structure-{tu[0]}-vs-{tb[0]}"
        return
    if tu[0] == "seq":
        if len(tu[1]) != len(tb[1]):
            yield path, "structure-length"
            return
        for i, (cu, cb) in enumerate(zip(tu[1], tb[1])):
            yield from compare_trees(cu, cb, path + (i,))
    elif tu[0] == "arr":
        m = arr_close(tu[1], tb[1])
        if m:
            yield path, m
    elif tu[0] == "val":
        if tu[1] != tb[1]:
            yield path, "wrong-values"


def run_template(ctx, t, dt, pack, uset_name, units):
    ctx.count("evaluations")
    data = core.build_data(t, pack, dt)
    case = {"func": t.func, "tid": t.tid, "dt": dt, "pack": pack, "units": uset_name}
    ku = R.mk_unyt(t, data, units)
    stu, tu, _ = R.execute(t, ku)
    kb = R.mk_bare(data)
    stb, tb, _ = R.execute(t, kb)
    ctx.outcome((t.func, t.tid, dt, stb, stu, type(tu).__name__ if stu == "raise" else ""))
    if stb == "raise" and stu == "raise":
        ctx.count("both_raise")
        return
    if stb == "ok" and stu == "raise":
        ctx.count("refused_by_unyt")
        ctx.note_set("refused", f"{t.func}|{t.tid}|{dt}|{type(tu).__name__}")
        return
    if stb == "raise" and stu == "ok":
        ctx.count("unyt_only")
        ctx.note_set("unyt_only", f"{t.func}|{t.tid}|{dt}")
        return
    ctx.decided((t.func, t.tid, dt, pack, uset_name))
    if t.cls != "string":
        for path, mode in compare_trees(tu, tb):
            leaf = "|leaf=" + ".".join(map(str, path)) if path else ""
            ctx.violation(key(t, dt, mode, leaf), case, _short(tb, path), _short(tu, path))
    else:
        if tu[0] != "str":
            ctx.violation(key(t, dt, "structure-not-a-string"), case, "str", tu[0])
    # in-place effect on out= / in-place targets
    for name in t.flags.get("inplace", ()):
        a = np.asarray(ku[name])
        b = np.asarray(kb[name])
        m = arr_close(a, b)
        if m:
            ctx.violation(key(t, dt, "target-" + m, "|target=" + name), case, b, a)
    if ctx.counters["evaluations"] % 97 == 0:
        ctx.sample({"case": case, "bare": _short(tb, ()), "unyt": _short(tu, ())})


def _short(tr, path):
    for p in path:
        tr = tr[1][p]
    if tr[0] == "arr":
        return {"shape": list(tr[1].shape), "dtype": str(tr[1].dtype), "head": harness.jsonable(tr[1].reshape(-1)[:6].tolist()), "cls": tr[3]}
    if tr[0] == "seq":
        return {"seq": len(tr[1])}
    return harness.jsonable(tr[:2])


def plan(tier, seed):
    packs = [seed % 4] if tier == "quick" else [0, 1, 2, 3]
    usets = ["si", "compound", "angle"] if tier == "quick" else list(UNIT_SETS)
    return packs, usets


def shard_fn(ctx, shard):
    world.reset_world()
    packs, usets = plan(ctx.tier, ctx.seed)
    for i in shard:
        t = R.TEMPLATES[i]
        for dt in R.template_dts(t):
            for pack in packs:
                for un in usets:
                    run_template(ctx, t, dt, pack, un, UNIT_SETS[un])


def completeness():
    fs = {}
    for ns, mod in (("np", np), ("np.linalg", np.linalg), ("np.fft", np.fft)):
        for n in dir(mod):
            if n.startswith("_"):
                continue
            try:
                f = getattr(mod, n)
            except Exception:  # noqa: BLE001
                continue
            if callable(f) and hasattr(f, "_implementation"):
                fs.setdefault(f, []).append(ns + "." + n)
    import unyt._array_functions as af

    objs = set()
    for c in {t.func for t in R.TEMPLATES}:
        if c.startswith(("ndarray", "unyt.", "ufunc.")):
            continue
        o = np
        for part in c.split(".")[1:]:
            o = getattr(o, part)
        objs.add(o)
    missing = sorted(v[0] for f, v in fs.items() if f not in objs)
    missing += sorted(getattr(f, "__name__", repr(f)) for f in af._HANDLED_FUNCTIONS if f not in objs)
    return len(fs), missing


def run(ctx):
    n_dispatch, missing = completeness()
    if missing:
        raise harness.HarnessError("catalogue incomplete, no template for: " + ", ".join(missing))
    idx = list(range(len(R.TEMPLATES)))
    shards = [idx[i::64] for i in range(64)]
    harness.pmap(ctx, shard_fn, shards)
    packs, usets = plan(ctx.tier, ctx.seed)
    return {
        "coverage": {
            "rule": "one evaluation = one template x dtype x payload pack x unit assignment executed on bare ndarrays (reference) and on unyt arrays; decided = both calls returned and every leaf of the result tree and every out=/in-place target was compared",
            "functions_dispatching": n_dispatch,
            "functions_catalogued": len({t.func for t in R.TEMPLATES}),
            "templates": len(R.TEMPLATES),
            "uncatalogued": missing,
            "packs": packs,
            "unit_sets": {u: UNIT_SETS[u] for u in usets},
            "dtypes": R.DTS,
        },
        "assumptions": [
            "NumPy on the stripped data is the reference; float results may differ by re-association only (64 eps of the largest reference magnitude), integer/bool/index results exactly",
            "all inputs of one dimension slot carry the same unit (mixed units are C01/C07/C19)",
            "a call that unyt refuses while NumPy succeeds is allowed by the statement and counted (refused_by_unyt)",
        ],
    }


def replay(case):
    t = [x for x in R.TEMPLATES if x.func == case["func"] and x.tid == case["tid"]][0]
    ctx = harness.Ctx(PROPERTY, "quick", 0)
    world.reset_world()
    run_template(ctx, t, case["dt"], case["pack"], case["units"], UNIT_SETS[case["units"]])
    return list(ctx.violations.items())
