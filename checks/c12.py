"""C12  Registry edits take effect everywhere, immediately, regardless of history.

Explicit-state BFS over histories of registry edits interleaved with cache-seeding calls, on the
real UnitRegistry/Unit/unyt_array code.  In every reached state the full probe battery is resolved
 (a) against the warm registry reached by the history,
 (b) against a cold registry freshly built from the reference table T (all memo layers empty),
 (c) by the independent evaluator rparse over T,
and the three must agree; kept Unit objects must still have the value they had.
"""

import itertools
import os
import time

import numpy as np

from mc import explore, world
from mc.ref import rparse
from mc.ref.dims import dim_of

PROPERTY = "C12"

import unyt
from unyt import dimensions as udims
from unyt.exceptions import UnitParseError
from unyt.unit_object import Unit, define_unit
from unyt.unit_registry import UnitRegistry
from unyt.unit_systems import UnitSystem

DIMS = {"length": udims.length, "time": udims.time, "mass": udims.mass}

# ---- alphabets -----------------------------------------------------------------------------------
EDITS_QUICK = [
    ("add", "foo", 2.0, "length", True),
    ("add", "foo", 3.0, "time", True),
    ("add", "bar", 5.0, "length", False),
    ("add", "kfoo", 7.0, "length", False),
    ("modf", "foo", 4.0),
    ("modq", "foo", 6.0, "s"),
    ("rem", "foo"),
    ("rem", "kfoo"),
    ("def", "foo", 2.0, "m", True),
    ("modself", "foo", 2.0),
    ("modself", "s", 2.0),
]
EDITS_THOROUGH = EDITS_QUICK + [
    ("add", "foo", 2.0, "length", False),
    ("modf", "bar", 9.0),
    ("modf", "kfoo", 11.0),
    ("rem", "bar"),
    ("def", "Mfoo", 13.0, "s", False),
    ("modq", "foo", 6.0, "km"),
]
SEEDS_QUICK = [
    ("unit", "foo"),
    ("unit", "kfoo"),
    ("unit", "foo/s"),
    ("unit", "kfoo*bar"),
    ("mul", "foo", "foo"),
    ("conv", "foo", "m"),
    ("conv", "kfoo", "foo"),  # the TARGET string is the edited symbol (w10: string targets memoised per registry object)
    ("keep", "foo"),
    ("keep", "kfoo"),
    ("keepcopy", "foo"),
    ("div", "foo", "bar"),
    ("simp", "foo*s/bar"),
    ("usys", "length"),
    ("usys", "velocity"),
    ("keeparr", "foo"),
    ("copykept",),
]
SEEDS_THOROUGH = SEEDS_QUICK + [
    ("unit", "Mfoo"),
    ("unit", "foo**2"),
    ("unit", "bar"),
    ("sqrt", "foo**2"),
    ("base", "foo"),
    ("add2", "foo", "kfoo"),
    ("keep", "foo/s"),
    ("contains", "kfoo"),
    ("getitem", "Mfoo"),
]
PROBES = ["foo", "kfoo", "Mfoo", "foo/s", "foo**2", "kfoo*bar", "bar", "kbar", "m/foo", "ufoo", "m", "km", "kkfoo", "Mkfoo", "kkm", "mkbar", "s", "m/s", "ms"]
ARR_PROGS = [
    ("mul", "foo", "foo"),
    ("mul", "kfoo", "bar"),
    ("conv", "foo", "m"),
    ("conv", "kfoo", "foo"),
    ("conv", "foo", "s"),
    ("add2", "foo", "kfoo"),
    ("add2", "foo", "m"),
    ("base", "foo"),
    ("base", "kfoo/s"),
    ("sqrt", "foo**2"),
    ("div", "foo", "kfoo"),
    ("div", "foo", "bar"),
    ("div", "foo/s", "bar"),
    ("mul", "foo", "1/bar"),
    ("simp", "foo/bar"),
    ("simp", "foo*s/bar"),
    ("simp", "kfoo/foo"),
    # NumPy array functions whose result unit is computed by a handler (powers / products of the operands' units)
    ("npf", "prod", "foo"),
    ("npf", "var", "foo"),
    ("npf", "std", "kfoo"),
    ("npf", "det", "foo"),
    ("npf", "inv", "foo"),
    ("npf", "sq", "foo"),
    ("npf", "dot", "foo", "bar"),
    ("npf", "trapz", "foo", "kfoo"),
    ("npf", "cross", "foo", "bar"),
    ("npf", "prod", "foo/s"),
]
# (numbers on SI magnitudes, exponent of each operand's unit) for the npf programs: the model's expectation
NPF = {
    "prod": (lambda a: np.prod(a), lambda: (2.0,), (2,)),
    "var": (lambda a: np.var(a), lambda: (0.25,), (2,)),
    "std": (lambda a: np.std(a), lambda: (0.5,), (1,)),
    "det": (lambda a: np.linalg.det(np.array([[1.0, 2.0], [3.0, 4.0]]) * a.units), lambda: (-2.0,), (2,)),
    "inv": (lambda a: np.linalg.inv(np.array([[1.0, 2.0], [3.0, 4.0]]) * a.units), lambda: (-2.0, 1.0, 1.5, -0.5), (-1,)),
    "sq": (lambda a: a**2, lambda: (1.0, 4.0), (2,)),
    "dot": (lambda a, b: np.dot(a, b), lambda: (11.0,), (1, 1)),
    "trapz": (lambda a, b: np.trapezoid(a, b), lambda: (1.5,), (1, 1)),
    "cross": (lambda a, b: np.cross(np.array([1.0, 2.0, 0.0]) * a.units, np.array([3.0, 4.0, 0.0]) * b.units), lambda: (0.0, 0.0, -2.0), (1, 1)),
}


def expected_npf(T, prog):
    """the outcome the definitions in T imply for an npf program (independent of every cache in the library)"""
    _k, name, *units = prog
    vals, exps = NPF[name][1](), NPF[name][2]
    rs = [resolve_ref(T, u) for u in units]
    if any(r[0] != "ok" for r in rs):
        return ("raise",)
    sc, dim = 1.0, None
    for r, e in zip(rs, exps):
        sc *= r[1] ** e
        dim = r[3] ** e if dim is None else dim * r[3] ** e
    return ("ok", tuple(v * sc for v in vals), str(dim))


POPULATED = (("add", "foo", 2.0, "length", True), ("add", "bar", 5.0, "length", False))


def is_edit(ev):
    return ev[0] in ("add", "modf", "modq", "rem", "def", "modself")


# ---- reference model of the registry contents -----------------------------------------------------
_DEFAULT_REF = None


def default_ref():
    global _DEFAULT_REF
    if _DEFAULT_REF is None:
        from unyt._unit_lookup_table import default_unit_symbol_lut

        _DEFAULT_REF = rparse.table_from_lut(default_unit_symbol_lut)
    return _DEFAULT_REF


def ref_table(T):
    t = dict(default_ref())
    for k, row in T.items():
        if row is None:
            t.pop(k, None)  # a user symbol that shadowed a built-in of the same name and was then removed: the name is gone
            continue
        v, dimname_or_rdim, pref = row
        t[k] = (v, dimname_or_rdim, 0.0, pref)
    return t


def ref_resolvable(T, sym):
    t = ref_table(T)
    if sym in t:
        return True
    return rparse.split_prefix(sym, t) is not None


from mc.ref import dims as rd

RDIMS = {"length": rd.length, "time": rd.time, "mass": rd.mass}
UNIT_SI = {"s": (1.0, "time"), "m": (1.0, "length"), "km": (1000.0, "length")}


def ref_apply(T, ev):
    """Update the reference table; returns 'ok' or 'raise' (what the edit must do)."""
    k = ev[0]
    if k == "add":
        _, sym, v, dimname, pref = ev
        T[sym] = (v, RDIMS[dimname], pref)
        return "ok"
    if k == "modf":
        _, sym, v = ev
        if T.get(sym) is None:
            return "raise"
        T[sym] = (v, T[sym][1], T[sym][2])
        return "ok"
    if k == "modq":
        _, sym, v, u = ev
        if T.get(sym) is None:
            return "raise"
        sc, dn = UNIT_SI[u]
        T[sym] = (v * sc, RDIMS[dn], T[sym][2])
        return "ok"
    if k == "modself":
        # modify(sym, quantity expressed in sym itself, in the same registry): the new value is factor x the current one
        _, sym, factor = ev
        cur = T.get(sym)
        if sym in T and cur is None:
            return "raise"
        if cur is None:
            d = default_ref().get(sym)
            if d is None:
                return "raise"
            cur = (d[0], d[1], d[3])
        T[sym] = (cur[0] * factor, cur[1], cur[2])
        return "ok"
    if k == "rem":
        _, sym = ev
        if T.get(sym) is None:
            return "raise"
        if sym in default_ref():
            T[sym] = None  # the user row replaced the built-in one: removing it removes the name altogether
        else:
            del T[sym]
        return "ok"
    if k == "def":
        _, sym, v, u, pref = ev
        if ref_resolvable(T, sym):
            return "raise"
        sc, dn = UNIT_SI[u]
        T[sym] = (v * sc, RDIMS[dn], pref)
        return "ok"
    raise ValueError(ev)


# ---- the real system ----------------------------------------------------------------------------------
class W:
    pass


def arr(r, s, vals=(1.0, 2.0)):
    return unyt.unyt_array(np.array(vals), s, registry=r)


def run_prog(r, prog, rp=None):
    """Execute one array program against registry r; returns a canonical outcome.

    rp: a cold registry with the same contents, used to read the *printed* unit of the result back, so that
    the outcome also carries what the user sees (numbers x the meaning of str(units)), not only
    numbers x units.base_value."""
    try:
        k = prog[0]
        if k == "mul":
            res = arr(r, prog[1]) * arr(r, prog[2], (3.0, 4.0))
        elif k == "div":
            res = arr(r, prog[1]) / arr(r, prog[2], (3.0, 4.0))
        elif k == "conv":
            res = arr(r, prog[1]).to(prog[2])
        elif k == "add2":
            res = arr(r, prog[1]) + arr(r, prog[2], (3.0, 4.0))
        elif k == "base":
            res = arr(r, prog[1]).in_base()
        elif k == "sqrt":
            res = np.sqrt(arr(r, prog[1]))
        elif k == "npf":
            res = NPF[prog[1]][0](*[arr(r, u, (1.0, 2.0) if i == 0 else (3.0, 4.0)) for i, u in enumerate(prog[2:])])
            res = unyt.unyt_array(np.atleast_1d(np.asarray(res.d)).reshape(-1), res.units)
        elif k == "simp":
            u = Unit(prog[1], registry=r).simplify()
            c, u2 = u.as_coeff_unit()
            shown = ()
            if rp is not None:
                try:
                    shown = (float(Unit(str(u), registry=rp).base_value),)
                except Exception as e:  # noqa: BLE001
                    shown = ("unreadable:" + type(e).__name__,)
            return ("ok", (float(u.base_value), float(c) * float(u2.base_value)) + shown, str(dim_of(u.dimensions)) + "|" + str(dim_of(u2.dimensions)))
        else:
            raise ValueError(prog)
    except Exception as e:  # noqa: BLE001
        return ("raise", type(e).__name__)
    u = res.units
    si = np.asarray(res.d, dtype=float) * float(u.base_value)
    shown = ()
    if rp is not None:
        try:
            shown = tuple(float(x) for x in np.asarray(res.d, dtype=float) * float(Unit(str(u), registry=rp).base_value))
        except Exception as e:  # noqa: BLE001
            shown = ("unreadable:" + type(e).__name__,)
    return ("ok", tuple(float(x) for x in si) + shown, str(dim_of(u.dimensions)))


def apply_event(w, ev):
    r = w.r
    k = ev[0]
    try:
        if k == "add":
            r.add(ev[1], ev[2], DIMS[ev[3]], prefixable=ev[4])
        elif k == "modf":
            r.modify(ev[1], ev[2])
        elif k == "modq":
            r.modify(ev[1], unyt.unyt_quantity(ev[2], ev[3]))
        elif k == "modself":
            r.modify(ev[1], unyt.unyt_quantity(ev[2], ev[1], registry=r))
        elif k == "rem":
            r.remove(ev[1])
        elif k == "def":
            define_unit(ev[1], (ev[2], ev[3]), prefixable=ev[4], registry=r)
        elif k == "unit":
            Unit(ev[1], registry=r)
        elif k == "keep":
            u = Unit(ev[1], registry=r)
            w.kept.append((ev[1], u, world.unit_digest(u)))
        elif k == "keepcopy":
            u = Unit(ev[1], registry=r)
            w.kept_copies.append((u * u).copy())  # the copy is bound to a shallow copy of the registry (same table)
        elif k == "keeparr":
            a = arr(r, ev[1])
            w.kept_arrs.append((ev[1], a, float(a.units.base_value), dim_of(a.units.dimensions)))
        elif k == "copykept":
            for _s, a, _sc, _d in w.kept_arrs:
                a.copy()
                a.units.copy()
                a.in_mks() if False else None
        elif k == "usys":
            # a unit system bound to this registry whose length unit is the user symbol; read one of its dimensions
            if w.us is None:
                w.us = UnitSystem("code_sys", "foo", "g", "s", registry=r)
            w.us[ev[1]]
        elif k == "contains":
            ev[1] in r
        elif k == "getitem":
            r[ev[1]]
        else:
            run_prog(r, ev)
        return "ok"
    except Exception as e:  # noqa: BLE001
        return "raise:" + type(e).__name__


def resolve_real(r, s):
    try:
        u = Unit(s, registry=r)
    except UnitParseError:
        return ("unknown",)
    except Exception as e:  # noqa: BLE001
        return ("raise", type(e).__name__)
    return ("ok", float(u.base_value), float(u.base_offset), dim_of(u.dimensions))


def resolve_ref(T, s):
    try:
        x = rparse.parse(s, ref_table(T))
    except rparse.RParseError:
        return ("unknown",)
    return ("ok", x.scale, x.offset, x.dim)


def same(a, b, rel=1e-12):
    if a[0] != b[0]:
        return False
    if a[0] != "ok":
        return True
    return (
        abs(a[1] - b[1]) <= rel * max(abs(a[1]), abs(b[1]))
        and abs(a[2] - b[2]) <= rel * max(abs(a[2]), abs(b[2]), 1e-300)
        and a[3] == b[3]
    )


def cold_registry(T):
    from unyt._unit_lookup_table import default_unit_symbol_lut

    lut = dict(default_unit_symbol_lut)
    r = UnitRegistry(lut=lut, add_default_symbols=False)
    for sym, row in T.items():
        if row is None:
            r.remove(sym)
            continue
        v, rdim, pref = row
        dim = [DIMS[n] for n, d in RDIMS.items() if d == rdim][0]
        r.add(sym, float(v), dim, prefixable=pref)
    return r


class System:
    def __init__(self, edits, seeds, prefix=()):
        self.edits = edits
        self.seeds = seeds
        self.prefix = tuple(prefix)  # set-up events replayed before every history (not counted as deviations)

    def build(self, hist):
        world.reset_world()
        w = W()
        w.r = UnitRegistry()
        w.T = {}
        w.kept = []
        w.kept_copies = []
        w.kept_arrs = []
        w.us = None
        w.log = []
        w.edit_results = []
        for ev in self.prefix + tuple(hist):
            got = apply_event(w, ev)
            if is_edit(ev):
                snapshot = dict(w.T)
                want = ref_apply(w.T, ev)
                if want == "ok" and got != "ok":
                    # the edit was refused by the real registry (reported below as an edit-outcome violation): the model
                    # follows reality from here on, so that one defect is not reported again through every later probe
                    w.T.clear()
                    w.T.update(snapshot)
                w.edit_results.append((ev, want, got))
            w.log.append(got.split(":")[0])
        return w

    def canon(self, w, hist):
        lru_events = tuple(ev for ev in hist if ev[0] in ("mul", "conv", "add2", "base", "sqrt", "div", "simp"))
        return (
            tuple(sorted((k, None if v is None else (v[0], repr(v[1]), v[2])) for k, v in w.T.items())),
            world.lut_delta(w.r.lut, world._PRISTINE_TABLE),
            world.cache_digest(w.r),
            lru_events,
            tuple((s, d) for s, _u, d in w.kept),
            tuple(w.log),
            world.digest()[0:3],
            # a unit system object bound to the registry, and what has been read through it (its own memo, if it had one)
            tuple(ev for ev in hist if ev[0] in ("usys", "keeparr", "copykept")),
        )

    def deviations(self, hist):
        return sum(1 for ev in hist if is_edit(ev))

    def enabled(self, w, hist):
        evs = []
        for ev in self.edits:
            k = ev[0]
            if ev == ("modself", "s", 2.0) and ev in hist:
                continue  # once per history: a second rescaling of a base symbol by itself is ill-defined in the library
            if k in ("modf", "modq", "rem") and w.T.get(ev[1]) is None:
                if ev[1] in default_ref():
                    continue  # 'bar' is also a BUILT-IN unit: editing the built-in row is outside the reference model of user content
                # edits of symbols that are not user content are only exercised once (must raise)
                if len(hist) > 0:
                    continue
            if ("modself", "s", 2.0) in hist and k in ("modq", "modself", "def"):
                continue  # once the base symbol s is redefined, quantity-valued edits are evaluated through it: not modelled
            evs.append(ev)
        if any(v is not None for v in w.T.values()):
            for ev in self.seeds:
                if ev in hist[-2:]:
                    continue
                evs.append(ev)
        return evs

    # ---- invariants --------------------------------------------------------------------------------
    def check(self, ctx, w, hist):
        ctx.count("evaluations")
        case = {"history": [list(e) for e in hist], "prefix": [list(e) for e in self.prefix]}
        info = _hist_info(hist)
        # edit outcomes agree with the reference model
        for ev, want, got in w.edit_results:
            if (got == "ok") != (want == "ok"):
                # was the edited name materialised earlier as prefix + user symbol (a derived row the library wrote back)?
                derived = any(ev[1] == p + e[1] for p in ("k", "M", "u", "m") for e in self.prefix + tuple(hist) if e[0] in ("add", "def") and e[1] != ev[1])
                ctx.violation(
                    f"C12|edit|kind={ev[0]}|want={want}|got={got.split(':')[0]}|name={'earlier-derived-prefixed-row' if derived else 'plain'}|mode=edit-outcome",
                    case,
                    want,
                    got,
                )
        # kept objects keep their value
        for s, u, d in w.kept:
            if world.unit_digest(u) != d:
                ctx.violation(
                    f"C12|kept|probe={_pclass(s)}|mode=old-object-changed", case, d, world.unit_digest(u)
                )
        # default registry untouched
        if world.lut_delta(world.D.lut) or not world.default_table_intact():
            ctx.violation("C12|default|mode=default-registry-written", case, None, world.lut_delta(world.D.lut))
        # the memoised registry id must not survive an edit (hash(Unit) and the process-wide unit-rule caches depend on it)
        if hist and is_edit(hist[-1]) and w.log[-1] == "ok" and w.r._unit_system_id is not None:
            memo = w.r._unit_system_id
            w.r._unit_system_id = None
            fresh = w.r.unit_system_id
            if memo != fresh:
                ctx.violation(f"C12|id|edit={hist[-1][0]}|mode=registry-id-not-refreshed-by-edit", case, fresh, memo)
        # objects bound to a shallow copy of the registry (Unit.copy()) share its table: the edit must reach them too
        for ku in w.kept_copies:
            for s in ("foo", "kfoo", "foo/s"):
                a = resolve_real(ku.registry, s)
                b = resolve_ref(w.T, s)
                if not same(a, b) and same(resolve_real(w.r, s), b):
                    ctx.violation(
                        f"C12|kept-copy|probe={_pclass(s)}|edit={info['last_edit'].get(_base(s), 'none')}|mode=edit-not-seen-through-copied-unit's-registry",
                        {"history": case["history"], "prefix": case["prefix"], "probe": s},
                        b,
                        a,
                    )
        # arrays made before an edit keep the value they had - also when combined with arrays made after it, and when copied
        for s0, a, sc0, d0 in w.kept_arrs:
            ctx.decided((hist, "keptarr", s0))
            if float(a.units.base_value) != sc0 or dim_of(a.units.dimensions) != d0:
                ctx.violation("C12|kept-array|mode=old-array's-unit-changed", case, sc0, float(a.units.base_value))
                continue
            c = a.copy()
            if float(c.units.base_value) != sc0 or not np.array_equal(np.asarray(c.d), np.asarray(a.d)):
                ctx.violation("C12|kept-array|mode=copy-of-an-old-array-differs-from-it", case, sc0, float(c.units.base_value))
            now = resolve_ref(w.T, s0)
            if now[0] != "ok" or not same(resolve_real(w.r, s0), now):
                continue
            try:
                b = arr(w.r, s0, (3.0, 4.0))
                tot = a + b
                got = ("ok", tuple((np.asarray(tot.d, dtype=float) * float(tot.units.base_value)).tolist()))
            except Exception as e:  # noqa: BLE001
                got = ("raise", type(e).__name__)
            if now[3] != d0:
                want = ("raise",)
            else:
                want = ("ok", (1.0 * sc0 + 3.0 * now[1], 2.0 * sc0 + 4.0 * now[1]))
            if got[0] != want[0] or (got[0] == "ok" and not np.allclose(got[1], want[1], rtol=1e-12)):
                ctx.violation(f"C12|kept-array|edit={info['last_edit'].get(s0, 'none')}|mode=old-plus-new-array-wrong", case, want, got)
            # the old array divided by a fresh quantity so that its symbol CANCELS: what is left consists of symbols that were
            # never edited, so the printed unit must mean what its numbers mean (no hidden scale under an untouched name)
            if d0 == dim_of(Unit("m").dimensions) and all(info["last_edit"].get(x, "none") == "none" for x in ("m", "s")) and not any(ev[1] in ("m", "s") for ev in hist if len(ev) > 1 and ev[0] != "keeparr"):
                try:
                    quo = a / unyt.unyt_quantity(1.0, "m/s", registry=w.r)
                    txt = str(quo.units)
                    parsed = Unit(txt, registry=w.r)
                    gq = ("ok", tuple((np.asarray(quo.d, dtype=float) * float(parsed.base_value)).tolist()), txt)
                except Exception as e:  # noqa: BLE001
                    gq = ("raise", type(e).__name__)
                if gq[0] == "ok" and "foo" not in gq[2] and not np.allclose(gq[1], (1.0 * sc0, 2.0 * sc0), rtol=1e-12):
                    ctx.violation(f"C12|kept-array|edit={info['last_edit'].get(s0, 'none')}|mode=quotient-with-cancelled-symbol-prints-numbers-that-its-unit-does-not-mean", case, (1.0 * sc0, 2.0 * sc0, "s"), gq)
        # a unit system bound to the registry answers from the registry's CURRENT contents, like a system built now
        if w.us is not None:
            def _read(us, dim):
                try:
                    u = us[dim]
                    return ("ok", float(u.base_value), 0.0, dim_of(u.dimensions))
                except Exception as e:  # noqa: BLE001
                    return ("raise", type(e).__name__)

            try:
                fresh_us = UnitSystem("code_sys_now", "foo", "g", "s", registry=w.r)
            except Exception:  # noqa: BLE001
                fresh_us = None
            for dim in ("length", "velocity", "energy", "area"):
                a = _read(w.us, dim)
                b = _read(fresh_us, dim) if fresh_us is not None else ("raise", "construction")
                ctx.decided((hist, "usys", dim))
                if a[0] != b[0] or (a[0] == "ok" and not same(a, b)):
                    if fresh_us is None and a[0] == "ok" and same(a, resolve_real(w.r, {"length": "foo", "velocity": "foo/s", "energy": "g*foo**2/s**2", "area": "foo**2"}[dim])):
                        continue  # the symbol changed dimension: the old system is ill-defined now, but what it returns is current
                    ctx.violation(
                        f"C12|unit-system|dim={dim}|edit={info['last_edit'].get('foo', 'none')}|mode=bound-system-answers-from-before-the-edit",
                        {"history": case["history"], "prefix": case["prefix"], "dim": dim},
                        b,
                        a,
                    )
        warm = [resolve_real(w.r, s) for s in PROBES]
        rp = cold_registry(w.T)  # only ever used to read printed units back
        warm_arr = [run_prog(w.r, p, rp) for p in ARR_PROGS]
        # cold world with the same contents
        world.clear_lru()
        rc = cold_registry(w.T)
        cold = [resolve_real(rc, s) for s in PROBES]
        world.clear_lru()
        cold_arr = [run_prog(rc, p, rp) for p in ARR_PROGS]
        ref = [resolve_ref(w.T, s) for s in PROBES]
        stale_strings = set()
        for s, a, b, c in zip(PROBES, warm, cold, ref):
            ctx.outcome(("probe", s, a[0], b[0]))
            ctx.decided((hist, s))
            if not same(b, c):
                ctx.violation(
                    f"C12|fresh|probe={_pclass(s)}|mode=fresh-registry-differs-from-definition",
                    {"history": case["history"], "prefix": case["prefix"], "probe": s},
                    c,
                    b,
                )
            if not same(a, b):
                stale_strings.add(s)
                mode = (
                    "resolves-after-removal"
                    if (a[0], b[0]) == ("ok", "unknown")
                    else "unknown-but-defined"
                    if (a[0], b[0]) == ("unknown", "ok")
                    else "stale-value"
                    if (a[0], b[0]) == ("ok", "ok")
                    else f"{a[0]}-vs-{b[0]}"
                )
                # does the registry table still hold a prefixed row the LIBRARY derived and wrote back earlier (kfoo from
                # foo) for a name in this probe?  Then this is the one known defect "derived prefixed rows are never
                # invalidated", whatever the edit that exposed it was; any other staleness keeps its full coordinates.
                import re as _re

                left = [t for t in _re.findall(r"[A-Za-zµ_]+", s) if t in w.r.lut and w.T.get(t) is None and t not in default_ref()]
                coord = "cause=derived-prefixed-row-left-in-table" if left and mode in ("stale-value", "resolves-after-removal") else (
                    f"edit={info['last_edit'].get(_base(s), 'none')}|seeded={int(_seeded(hist, s))}")
                ctx.violation(
                    f"C12|unit|probe={_pclass(s)}|{coord}|mode={mode}",
                    {"history": case["history"], "prefix": case["prefix"], "probe": s},
                    b,
                    a,
                )
        for p, a in zip(ARR_PROGS, warm_arr):
            if p[0] != "npf":
                continue
            want = expected_npf(w.T, p)
            ctx.decided((hist, "npf", p))
            if want[0] == "raise":
                bad = a[0] != "raise"
            else:
                n = len(want[1])
                bad = a[0] != "ok" or a[2] != want[2] or not _close_tuple(a[1][:n], want[1]) or (len(a[1]) == 2 * n and not _close_tuple(a[1][n:], want[1]))
            if bad and not any(not same(resolve_real(w.r, x), resolve_ref(w.T, x)) for x in p[2:]):
                ctx.violation(
                    f"C12|array|prog=npf:{p[1]}|units={'+'.join(_pclass(x) for x in p[2:])}|edit={info['last_any']}|mode=differs-from-current-definitions",
                    {"history": case["history"], "prefix": case["prefix"], "program": list(p)},
                    want,
                    a,
                )
        for p, a, b in zip(ARR_PROGS, warm_arr, cold_arr):
            ctx.outcome(("prog", p, a[0], b[0]))
            ok = a[0] == b[0] and (
                a[0] != "ok"
                or (a[2] == b[2] and _close_tuple(a[1], b[1]))
            )
            if ok:
                continue
            # a program whose own unit strings already resolve stale is a consequence of the
            # unit-level violation reported above, not a separate memo layer: attribute it there
            if any(not same(resolve_real(w.r, x), resolve_real(rc, x)) for x in p[1:]):
                ctx.count("array_diffs_attributed_to_stale_strings")
                continue
            ctx.violation(
                f"C12|array|prog={p[0]}|units={'+'.join(_pclass(x) for x in p[1:])}"
                f"|edit={info['last_any']}|mode=history-dependent-{a[0]}-vs-{b[0]}",
                {"history": case["history"], "prefix": case["prefix"], "program": list(p)},
                b,
                a,
            )
        if len(hist) == 3:
            ctx.sample({"history": case["history"], "warm": [x[0] for x in warm]})


def _close_tuple(x, y):
    if len(x) != len(y):
        return False
    for a, b in zip(x, y):
        if isinstance(a, str) or isinstance(b, str):
            if a != b:
                return False
        elif not np.allclose(a, b, rtol=1e-12, atol=0.0):
            return False
    return True


def _base(s):
    for b in ("kfoo", "Mfoo", "ufoo", "kbar"):
        if b in s:
            return b[1:]
    for b in ("foo", "bar"):
        if b in s:
            return b
    return s


def _pclass(s):
    pre = any(x in s for x in ("kfoo", "Mfoo", "ufoo", "kbar"))
    comp = any(c in s for c in "*/")
    user = "foo" in s or "bar" in s
    if not user:
        return "builtin"
    return ("prefixed" if pre else "atomic") + ("-compound" if comp else "")


def _hist_info(hist):
    last = {}
    last_any = "none"
    for ev in hist:
        if is_edit(ev):
            sym = ev[1]
            kind = ev[0]
            if kind == "add" and sym in last:
                kind = "readd"
            last[sym] = kind
            if sym.startswith(("k", "M")):
                last[sym[1:]] = last.get(sym[1:], "none") + "+collide-" + kind
            last_any = kind
    return {"last_edit": last, "last_any": last_any}


def _seeded(hist, s):
    """Was something mentioning the probe's spelling constructed before the last edit?"""
    idx = max([i for i, ev in enumerate(hist) if is_edit(ev)], default=-1)
    for ev in hist[:idx]:
        if not is_edit(ev):
            return True
    return False


# ---- built-in symbols with listed aliases: every spelling follows an edit of the symbol ------------------------------
ALIAS_SYMS = ["pc", "Msun", "J", "lb", "N", "yr", "eV", "g", "Hz", "mile"]


def alias_spellings(sym):
    from unyt._unit_lookup_table import default_unit_name_alternatives, default_unit_symbol_lut

    row = default_unit_symbol_lut[sym]
    alts = list(default_unit_name_alternatives.get(sym, ()))
    out = [("symbol", sym, 1.0)] + [("alias", a, 1.0) for a in alts]
    if row[4]:
        out += [("prefix+symbol", "k" + sym, 1e3), ("prefix+symbol", "M" + sym, 1e6)]
        out += [("prefix+alias", "k" + a, 1e3) for a in alts if len(a) < 4]
        out += [("word+alias", "kilo" + a, 1e3) for a in alts] + [("word+alias", "mega" + a, 1e6) for a in alts[:1]]
    out += [("titled-alias", a.title(), 1.0) for a in alts if a.islower() and len(a) >= 4]
    return out


MODSELF_DIMS = ["length", "time", "mass", "temperature", "velocity", "energy", "magnetic_field_cgs", "magnetic_field_mks", "charge_cgs", "charge_mks",
                "current_cgs", "current_mks", "electric_potential_cgs", "electric_potential_mks", "resistance_cgs", "resistance_mks", "angle", "dimensionless"]


def part_modself_dims(ctx, shard):
    """modify(sym, <quantity written in sym itself>) for a user symbol of every kind of dimension - the electromagnetic
    ones work the new value out through a branch of their own: afterwards the string, its compounds and a prefixed
    form resolve to the table's new row, cold and after earlier uses"""
    for dimname in shard:
        dim = getattr(udims, dimname)
        for warm, factor, via in itertools.product((False, True), (3.0, 0.25), ("quantity", "array-element", "product")):
            world.reset_world()
            r = UnitRegistry()
            r.add("zork", 0.5, dim, prefixable=True)
            if warm:
                Unit("zork", registry=r), Unit("zork*s", registry=r), Unit("kzork", registry=r)
            ctx.count("evaluations")
            try:
                b = unyt.unyt_quantity(1.0, "zork", registry=r)
                val = {"quantity": lambda: factor * b, "array-element": lambda: (unyt.unyt_array([factor, 1.0], "zork", registry=r))[0], "product": lambda: b * factor}[via]()
                r.modify("zork", val)
            except Exception as e:  # noqa: BLE001
                ctx.count("modself_refused:" + type(e).__name__)
                continue
            ctx.decided(("modself-dims", dimname, warm, factor, via))
            row = float(r.lut["zork"][0])
            case = {"part": "modself-dims", "dim": dimname, "warm": warm, "factor": factor, "via": via}
            base = f"C12|modself-dims|dim={'em' if ('_cgs' in dimname or '_mks' in dimname) else 'plain'}|warm={int(warm)}"
            if abs(row / (0.5 * factor) - 1.0) > 1e-12:
                ctx.violation(base + "|mode=table-row-is-not-the-quantity's-size", case, 0.5 * factor, row)
                continue
            for sstr, want in (("zork", row), ("zork*s", row), ("zork**2", row * row), ("1/zork", 1.0 / row)):
                try:
                    got = float(Unit(sstr, registry=r).base_value)
                except Exception as e:  # noqa: BLE001
                    ctx.violation(base + f"|mode=string-does-not-resolve:{type(e).__name__}", dict(case, string=sstr), want, None)
                    continue
                if abs(got / want - 1.0) > 1e-12:
                    ctx.violation(base + "|mode=string-resolves-with-the-old-definition", dict(case, string=sstr), want, got)
    world.reset_world()


def part_alias_edits(ctx, shard):
    """modify / remove / re-add of a BUILT-IN symbol in a custom registry: every spelling of it (symbol, listed aliases, prefixed
    and word-prefixed forms, inside compounds) follows, whether or not it was used before the edit."""
    from unyt._unit_lookup_table import default_unit_symbol_lut

    for sym in shard:
        row = default_unit_symbol_lut[sym]
        v0, dim0, pref0 = float(row[0]), dim_of(row[1]), bool(row[4])
        sp = alias_spellings(sym)
        for warm, edit in itertools.product((False, True), ("modify", "modify-quantity", "remove", "readd-same-flags", "readd-nonprefixable")):
            world.reset_world()
            r = UnitRegistry()
            if warm:
                for _c, name, _f in sp:
                    resolve_real(r, name)
                    resolve_real(r, name + "/s")
            try:
                if edit == "modify":
                    r.modify(sym, v0 * 3.0)
                elif edit == "modify-quantity":
                    r.modify(sym, unyt.unyt_quantity(3.0, sym))
                elif edit == "remove":
                    r.remove(sym)
                elif edit == "readd-same-flags":
                    r.add(sym, v0 * 3.0, row[1], prefixable=pref0)
                else:
                    r.add(sym, v0 * 3.0, row[1], prefixable=False)
            except Exception as e:  # noqa: BLE001
                ctx.violation(f"C12|alias-edit|edit={edit}|mode=edit-raises:{type(e).__name__}", {"part": "alias-edit", "sym": sym, "edit": edit, "warm": warm}, "ok", str(e)[:80])
                continue
            now_pref = pref0 if edit != "readd-nonprefixable" else False
            for cls, name, fac in sp:
                for form, text, k in (("plain", name, 1), ("compound", name + "/s", 1), ("power", name + "**2", 2)):
                    ctx.count("evaluations")
                    got = resolve_real(r, text)
                    gone = edit == "remove" or (fac != 1.0 and not now_pref)
                    ctx.decided(("alias-edit", sym, name, form, warm, edit))
                    ctx.outcome(("alias-edit", cls, form, warm, edit, got[0]))
                    case = {"part": "alias-edit", "sym": sym, "spelling": text, "edit": edit, "warm": warm}
                    from unyt._unit_lookup_table import inv_name_alternatives as _inv

                    canon_name = _inv.get(name, name)  # classification only: the table key the spelling resolves through
                    left = canon_name in r.lut and canon_name not in default_unit_symbol_lut
                    cause = "derived-prefixed-row-left-in-table" if left else "none"
                    base = f"C12|alias-edit|spelling={cls}|form={form}|edit={edit}|warm={int(warm)}|cause={cause}"
                    if gone:
                        if got[0] == "ok":
                            ctx.violation(base + "|mode=resolves-after-removal", case, "unknown", got)
                        continue
                    want_scale = (v0 * 3.0 * fac) ** k
                    if got[0] != "ok":
                        ctx.violation(base + f"|mode={got[0]}-but-defined", case, want_scale, got)
                    elif abs(got[1] - want_scale) > 1e-12 * abs(want_scale) or got[3] != (dim0**k if form == "power" else (dim0 / rd.time if form == "compound" else dim0)):
                        ctx.violation(base + "|mode=stale-value", case, want_scale, got)
        # define_unit / membership of names the registry can ALREADY resolve (prefixed and aliased spellings of a built-in):
        # the answer is the same whether or not the spelling was ever looked up before
        outcomes = {}
        for warm in (False, True):
            for cls, name, _fac in sp:
                if cls == "symbol":
                    continue
                world.reset_world()
                r = UnitRegistry()
                if warm:
                    resolve_real(r, name)
                ctx.count("evaluations")
                try:
                    define_unit(name, (1.0, "m"), registry=r)
                    st = "defined"
                except RuntimeError:
                    st = "refused"
                except Exception as e:  # noqa: BLE001
                    st = "raise:" + type(e).__name__
                inreg = None
                world.reset_world()
                r2 = UnitRegistry()
                if warm:
                    resolve_real(r2, name)
                try:
                    inreg = name in r2
                except Exception as e:  # noqa: BLE001
                    inreg = "raise:" + type(e).__name__
                outcomes[(cls, name, warm)] = (st, inreg)
        for (cls, name, warm), (st, inreg) in outcomes.items():
            if warm:
                continue
            st_w, in_w = outcomes[(cls, name, True)]
            ctx.decided(("define-existing", sym, name))
            case = {"part": "alias-edit", "sym": sym, "spelling": name}
            if st != st_w:
                ctx.violation(f"C12|define-existing|spelling={cls}|mode=outcome-depends-on-an-earlier-lookup", case, {"cold": st}, {"warm": st_w})
            if inreg != in_w:
                ctx.violation(f"C12|define-existing|spelling={cls}|mode=membership-depends-on-an-earlier-lookup", case, {"cold": inreg}, {"warm": in_w})
    world.reset_world()


# ---- entry points ------------------------------------------------------------------------------------
def run(ctx):
    t0 = time.time()
    if ctx.tier == "quick":
        system = System(EDITS_QUICK, SEEDS_QUICK)
        depth, dev, budget = 4, 2, 600
    else:
        system = System(EDITS_THOROUGH, SEEDS_THOROUGH)
        depth, dev, budget = 5, 3, int(os.environ.get("VERIF_C12_BUDGET", "600"))
    stats = explore.explore(ctx, system, depth, dev, deadline=t0 + budget)
    # second search from a populated registry (foo prefixable, bar commensurable with it): seed / edit / seed
    # orders that need two user symbols to exist do not spend the edit budget on creating them
    populated = System(system.edits, system.seeds, prefix=POPULATED)
    stats2 = explore.explore(ctx, populated, depth - 1 if ctx.tier == "quick" else depth, dev, deadline=time.time() + budget)
    from mc import harness as _h

    _h.pmap(ctx, part_alias_edits, [[x] for x in ALIAS_SYMS])
    _h.pmap(ctx, part_modself_dims, [[x] for x in MODSELF_DIMS])
    cov = dict(stats)
    cov["alias_edit_symbols"] = ALIAS_SYMS
    cov.update({k + "_populated_start": v for k, v in stats2.items()})
    cov["populated_start"] = [list(e) for e in POPULATED]
    cov["states"] = stats["bfs_states"] + stats2["bfs_states"]  # distinct canonical states reached by the two searches
    stats = dict(stats, bfs_capped=stats["bfs_capped"] or stats2["bfs_capped"])
    cov["rule"] = (
        "BFS over event histories (registry edits add/re-add/modify-float/modify-quantity/remove/"
        "define_unit interleaved with Unit construction, array arithmetic/conversion and keep-object "
        "events) on the real code; a state is distinct by canonical digest (reference table, registry "
        "table delta, string memo, lru-touching events, kept objects); a decided case is one "
        "(state, probe string) pair resolved warm, cold and by the reference evaluator"
    )
    cov["alphabet"] = {
        "edits": [list(e) for e in system.edits],
        "seeds": [list(e) for e in system.seeds],
        "probes": PROBES,
        "array_programs": [list(p) for p in ARR_PROGS],
    }
    ctx.outcomes |= {ctx._h(("state", i)) for i in range(0)}
    return {
        "coverage": cov,
        "exhaustive": not stats["bfs_capped"],
        "assumptions": [
            "lru-cache contents are over-approximated by the ordered list of lru-touching events",
            "the reference table T tracks user-level contents; derived prefixed rows are memo, not content",
        ],
    }


def replay(case):
    from mc import harness

    if case.get("part") == "alias-edit":
        ctx = harness.Ctx(PROPERTY, "quick", 0)
        part_alias_edits(ctx, [case["sym"]])
        return [(k, v) for k, v in ctx.violations.items()]
    if case.get("part") == "modself-dims":
        ctx = harness.Ctx(PROPERTY, "quick", 0)
        part_modself_dims(ctx, [case["dim"]])
        return [(k, v) for k, v in ctx.violations.items()]
    hist = tuple(tuple(e) for e in case["history"])
    system = System(EDITS_THOROUGH, SEEDS_THOROUGH, prefix=tuple(tuple(e) for e in case.get("prefix", ())))
    ctx = harness.Ctx(PROPERTY, "quick", 0)
    w = system.build(hist)
    system.check(ctx, w, hist)
    return [(k, v) for k, v in ctx.violations.items()]
