"""C03  Unit conversion obeys identity, inverse and composition laws on every route.

Per dimension, the unit alphabet is every table symbol of that dimension plus k/m/µ forms of prefixable
symbols (all 22 prefixes for temperature), compounds for derived dimensions, the CGS<->SI electromagnetic
pairs, and a custom registry holding an affine parameter grid (scale x offset x prefixable).  For every
ordered pair (A,B): identity, A->B->A, all routes agree; for triples A->B->C vs A->C.
"""

import itertools
from fractions import Fraction

import numpy as np

from mc import harness, world
from mc.ref import rparse
from mc.ref.dims import dim_of

PROPERTY = "C03"

import unyt
from unyt import dimensions as udims
from unyt import unyt_array, unyt_quantity
from unyt._unit_lookup_table import default_unit_symbol_lut
from unyt.exceptions import UnytError
from unyt.unit_object import Unit
from unyt.unit_registry import UnitRegistry

EPS = {"float64": 2.0**-52, "float32": 2.0**-23, "complex128": 2.0**-52, "int64": 2.0**-52}
VALUES = [1.0, -40.0, 273.15, 1e-3, 1e6, 0.0]
DTYPES = ["float64", "float32", "complex128", "int64"]


# ---- alphabets -----------------------------------------------------------------------------------------------
def default_groups(tier):
    groups = {}
    for s, row in default_unit_symbol_lut.items():
        d = str(dim_of(row[1]))
        g = groups.setdefault(d, [])
        g.append(s)
        if row[4]:
            pre = list(rparse.PREFIXES) if d == "temperature" else ["k", "m", "µ"]
            g += [p + s for p in pre]
    compounds = {
        "length*time^-1": ["m/s", "km/hr", "mile/hr", "cm/s"],
        "length^2*mass*time^-2": ["kg*m**2/s**2", "N*m", "g*cm**2/s**2", "kW*hr", "ft*lbf"],
        "length^-1*mass*time^-2": ["N/m**2", "dyn/cm**2", "lbf/inch**2", "J/m**3"],
        "length^-3*mass": ["g/cm**3", "kg/m**3", "Msun/pc**3", "lb/ft**3"],
        "length*mass*time^-2": ["kg*m/s**2", "g*cm/s**2"],
        "length^3": ["m**3", "cm**3", "ft**3"],
        "length^2": ["m**2", "cm**2", "km**2"],
        "time^-1": ["1/s", "1/hr", "km/s/Mpc"],
        "length^1/2": ["sqrt(m)", "sqrt(km)", "cm**0.5"],
    }
    for d, names in compounds.items():
        groups.setdefault(d, [])
        groups[d] += names
    return groups


def affine_registry():
    """custom registry with an affine parameter grid (temperature dimension)."""
    r = UnitRegistry()
    names = []
    scales = [("h", 0.5), ("n", 5.0 / 9.0), ("o", 1.0), ("f", 9.0 / 5.0), ("m3", 1e-3), ("k3", 1e3)]
    offsets = [("z", 0.0), ("c", -273.15), ("r", -459.67), ("p", 32.0), ("q", 100.0)]
    for (sn, s), (on, o) in itertools.product(scales, offsets):
        for pre in (False, True):
            n = f"af_{sn}{on}{'P' if pre else ''}"
            r.add(n, s, udims.temperature, offset=o, prefixable=pre)
            names.append(n)
            if pre:
                names += ["k" + n, "m" + n]
    return r, names + ["K", "degC", "degF", "R", "mK"]


EM_PAIRS = [("C", "statC"), ("A", "statA"), ("T", "G"), ("V", "statV"), ("Ω", "statohm")]


def em_groups():
    out = []
    for a, b in EM_PAIRS:
        g = []
        for p in ["", "k", "m", "µ"]:
            g += [p + a, p + b]
        out.append(g)
    return out


# ---- helpers -------------------------------------------------------------------------------------------------
def mk(vals, dtype, unit, shape, registry=None):
    arr = np.array(vals)
    if dtype == "int64":
        arr = np.array([int(round(v)) for v in vals])
    arr = arr.astype(dtype)
    if shape == "scalar":
        return unyt_quantity(arr[0], unit, registry=registry)
    return unyt_array(arr[:4].copy(), unit, registry=registry)


def off_si(u):
    """absolute SI size of the unit's affine offset.

    unyt stores the offset of a prefixed unit in unprefixed readings and divides it by the prefixed
    scale when converting; the kelvin-sized quantity that enters the arithmetic is therefore between
    |offset| and |offset| * scale: the largest candidate is used (a tolerance must never be too tight).
    """
    if not u.base_offset:
        return 0.0
    o, sc = abs(float(u.base_offset)), abs(float(u.base_value))
    return max(o, o * sc)


def si_mag(q):
    return np.abs(np.asarray(q.d, dtype=np.complex128)) * float(q.units.base_value)


def out_of_range(chain, eps):
    """float32 data whose readings leave the normal float32 range cannot be judged (declared filter)."""
    if eps < 1e-10:
        return False
    for q in chain:
        v = np.abs(np.asarray(q.d, dtype=np.complex128))
        v = v[np.isfinite(v)]
        if np.any(v > 1e36) or np.any((v != 0) & (v < 1e-36)) or not np.all(np.isfinite(np.asarray(q.d, dtype=np.complex128))):
            return True
    return False


def close(ctx, a, b, chain, eps):
    """|a-b| measured in SI <= 64 eps * largest SI magnitude in the chain (incl. offsets)."""
    if out_of_range(list(chain) + [a, b], eps):
        ctx.count("filtered_out_of_float32_range")
        return True
    if a.units.dimensions != b.units.dimensions or np.shape(a) != np.shape(b):
        return False
    sa = np.asarray(a.d, dtype=np.complex128) * float(a.units.base_value)
    sb = np.asarray(b.d, dtype=np.complex128) * float(b.units.base_value)
    if not (np.all(np.isfinite(sa)) and np.all(np.isfinite(sb))):
        return bool(np.all((sa == sb) | (np.isnan(sa) & np.isnan(sb))))
    # a and b are readings on the same scale when their units are equal; compare readings in SI
    if a.units != b.units:
        return None  # caller must compare in a common unit
    mag = max([float(np.max(si_mag(q))) for q in chain] + [off_si(q.units) for q in chain] + [1e-300])
    return bool(np.max(np.abs(sa - sb)) <= 64 * eps * mag)


def attempt(f):
    try:
        return ("ok", f())
    except UnytError as e:
        return ("refuse", type(e).__name__)
    except Exception as e:  # noqa: BLE001
        return ("error", type(e).__name__)


def ukey(name):
    """key spelling: base symbol with a marker for a prefix."""
    if name in default_unit_symbol_lut or not name.isidentifier():
        return name if name.isidentifier() or name in default_unit_symbol_lut else "compound"
    for p in rparse.PREFIXES:
        if name.startswith(p) and name[len(p) :] in default_unit_symbol_lut:
            return "p." + name[len(p) :]
    if name.startswith(("kaf_", "maf_")):
        return "p.af_" + name.split("_")[1][:2]
    if name.startswith("af_"):
        return "af_" + name.split("_")[1][:2]
    return name


ROUTES = [
    ("in_units", lambda x, B: x.in_units(B)),
    ("to_unitobj", lambda x, B: x.to(Unit(B, registry=x.units.registry))),
    ("to_value", lambda x, B: unyt_array(np.asarray(x.to_value(B)), B, registry=x.units.registry)),
    ("convert_to_units", lambda x, B: (lambda y: (y.convert_to_units(B), y)[1])(x.copy())),
    ("by_hand", lambda x, B: _by_hand(x, B)),
]


def _by_hand(x, B):
    ub = Unit(B, registry=x.units.registry)
    f, off = x.units.get_conversion_factor(ub, x.dtype)
    vals = np.asarray(x.d) * f
    if off:
        vals = vals - off
    return unyt_array(vals, ub)


def check_pair(ctx, A, B, dtype, shape, vals, registry, grp, thirds):
    eps = EPS[dtype]
    x = mk(vals, dtype, A, shape, registry)
    before = (x.tobytes(), str(x.units))
    case = {"part": grp, "A": A, "B": B, "dtype": dtype, "shape": shape, "vals": vals}
    base = f"C03|{grp}|from={ukey(A)}|to={ukey(B)}|dtype={dtype}"
    ctx.count("evaluations")
    r = attempt(lambda: x.to(B))
    ctx.count("transitions")
    ctx.outcome((grp, ukey(A), ukey(B), dtype, r[0]))
    if r[0] == "error":
        ctx.violation(base + f"|mode=escaped-exception:{r[1]}", case, None, r[1])
        return
    if r[0] != "ok":
        ctx.count("refused")
        if A == B:
            ctx.violation(base + "|mode=identity-conversion-refused", case, None, r[1])
        return
    y = r[1]
    if dtype == "float32":
        # declared filter: judge float32 only when the float64 twin of the whole chain stays in float32's normal range
        x64 = mk(vals, "float64", A, shape, registry)
        tw = [x64] + [t[1] for t in (attempt(lambda: x64.to(B)),) if t[0] == "ok"]
        tw += [t[1] for t in (attempt(lambda Cn=Cn: x64.to(Cn)) for Cn in thirds) if t[0] == "ok"]
        if out_of_range(tw, eps):
            ctx.count("filtered_out_of_float32_range")
            return
    ctx.decided((grp, A, B, dtype, shape))
    if (x.tobytes(), str(x.units)) != before:
        ctx.violation(base + "|mode=input-mutated", case, None, None)
    ub = Unit(B, registry=x.units.registry)
    if y.units != ub or str(y.units.expr) != str(ub.expr):
        ctx.violation(base + "|mode=wrong-result-unit", case, str(ub), str(y.units))
    # L1 identity
    if A == B:
        same = np.array_equal(np.asarray(y.d, dtype=np.complex128), np.asarray(x.d, dtype=np.complex128))
        if not same:
            ctx.violation(base + "|mode=identity-not-exact", case, np.asarray(x.d).tolist(), np.asarray(y.d).tolist())
    # L2 there and back
    b = attempt(lambda: y.to(A))
    ctx.count("transitions")
    if b[0] == "ok":
        xf = unyt_array(np.asarray(x.d, dtype=y.dtype if y.dtype.kind in "fc" else float), x.units)
        ok = close(ctx, b[1], xf, [x, y, b[1]], eps)
        if ok is False:
            ctx.violation(base + "|mode=round-trip-differs", case, np.asarray(x.d).tolist(), np.asarray(b[1].d).tolist())
    elif b[0] == "error":
        ctx.violation(base + f"|mode=escaped-exception-on-return:{b[1]}", case, None, b[1])
    # L4 routes
    for rname, rf in ROUTES:
        if grp == "em" and rname == "by_hand":
            continue  # get_conversion_factor is only defined between units of one dimension
        z = attempt(lambda: rf(x.copy() if rname == "convert_to_units" else x, B))
        ctx.count("transitions")
        if z[0] != "ok":
            ctx.violation(base + f"|route={rname}|mode=route-fails-where-to-succeeds:{z[1]}", case, "ok", z[1])
            continue
        zz = z[1]
        if zz.units != y.units:
            ctx.violation(base + f"|route={rname}|mode=route-unit-differs", case, str(y.units), str(zz.units))
            continue
        if np.shape(zz) != np.shape(y):
            zz = zz.reshape(np.shape(y))
        ok = close(ctx, zz, y, [x, y, zz], eps)
        if ok is False:
            ctx.violation(base + f"|route={rname}|mode=route-numbers-differ", case, np.asarray(y.d).tolist(), np.asarray(zz.d).tolist())
        if rname == "convert_to_units" and dtype in ("float64", "float32", "complex128") and zz.dtype != y.dtype:
            ctx.violation(base + f"|route={rname}|mode=route-dtype-differs", case, str(y.dtype), str(zz.dtype))
    # L3 composition
    for Cn in thirds:
        c1 = attempt(lambda: y.to(Cn))
        c2 = attempt(lambda: x.to(Cn))
        ctx.count("transitions", 2)
        if c1[0] == "ok" and c2[0] == "ok":
            ctx.decided((grp, A, B, Cn, dtype, shape))
            ok = close(ctx, c1[1], c2[1], [x, y, c1[1], c2[1]], eps)
            if ok is False:
                ctx.violation(
                    base + f"|via-to={ukey(Cn)}|mode=composition-differs",
                    dict(case, C=Cn), np.asarray(c2[1].d).tolist(), np.asarray(c1[1].d).tolist(),
                )
        elif (c1[0] == "ok") != (c2[0] == "ok") and "error" not in (c1[0], c2[0]):
            ctx.count("composition_one_side_refuses")


def vals_for(seed, i):
    k = (seed + i) % len(VALUES)
    return VALUES[k:] + VALUES[:k]


def part_group(ctx, shard):
    world.reset_world()
    grp, names_a, names_all, tier = shard
    registry = None
    if grp == "affine":
        registry, _n = affine_registry()
    thirds_all = names_all if (tier == "thorough" or grp in ("affine", "em") or len(names_all) <= 12) else names_all[:6]
    for i, (A, B) in enumerate(itertools.product(names_a, names_all)):
        for j, (dtype, shape) in enumerate(itertools.product(DTYPES, ("scalar", "array"))):
            if tier == "quick" and dtype in ("float32", "complex128", "int64") and shape == "scalar":
                continue
            thirds = thirds_all if dtype == "float64" and shape == "array" else ()
            check_pair(ctx, A, B, dtype, shape, vals_for(ctx.seed, i + j), registry, grp, thirds)
    ctx.sample({"group": grp, "from": names_a[:3], "to": names_all[:5]})


BASE_SYSTEMS = ["cgs", "mks", "imperial", "galactic", "solar", "geometrized", "planck"]


def part_base(ctx, shard):
    """in_base / convert_to_base / in_cgs / in_mks twins agree."""
    world.reset_world()
    for name in shard:
        for dtype, shape in (("float64", "array"), ("float64", "scalar"), ("float32", "array"), ("int64", "array")):
            x = mk(vals_for(ctx.seed, 1), dtype, name, shape)
            routes = []
            for S in BASE_SYSTEMS:
                routes.append((f"in_base:{S}", lambda S=S: x.in_base(S), lambda S=S: (lambda y: (y.convert_to_base(S), y)[1])(x.copy())))
            routes.append(("in_cgs", lambda: x.in_cgs(), lambda: (lambda y: (y.convert_to_cgs(), y)[1])(x.copy())))
            routes.append(("in_mks", lambda: x.in_mks(), lambda: (lambda y: (y.convert_to_mks(), y)[1])(x.copy())))
            got = {}
            for rname, fcopy, finpl in routes:
                ctx.count("evaluations")
                ctx.count("transitions", 2)
                a, b = attempt(fcopy), attempt(finpl)
                case = {"part": "base", "unit": name, "route": rname, "dtype": dtype, "shape": shape}
                base = f"C03|base|unit={ukey(name)}|route={rname}|dtype={dtype}"
                ctx.outcome((rname, ukey(name), a[0], b[0]))
                if "error" in (a[0], b[0]):
                    ctx.violation(base + f"|mode=escaped-exception:{a[1] if a[0] == 'error' else b[1]}", case, None, None)
                    continue
                if (a[0] == "ok") != (b[0] == "ok"):
                    ctx.violation(base + "|mode=copy-and-inplace-disagree-on-refusal", case, a[:1], b[:1])
                    continue
                if a[0] != "ok":
                    continue
                ctx.decided((rname, name, dtype, shape))
                got[rname] = a[1]
                if a[1].units != b[1].units:
                    ctx.violation(base + "|mode=copy-and-inplace-units-differ", case, str(a[1].units), str(b[1].units))
                    continue
                ok = close(ctx, a[1], unyt_array(np.asarray(b[1].d, dtype=a[1].dtype), b[1].units), [x, a[1]], EPS[dtype])
                if ok is False:
                    ctx.violation(base + "|mode=copy-and-inplace-numbers-differ", case, np.asarray(a[1].d).tolist(), np.asarray(b[1].d).tolist())
            for alias, full in (("in_cgs", "in_base:cgs"), ("in_mks", "in_base:mks")):
                if alias in got and full in got:
                    a, b = got[alias], got[full]
                    if a.units != b.units or close(ctx, a, b, [x, a], EPS[dtype]) is False:
                        ctx.violation(f"C03|base|unit={ukey(name)}|route={alias}|dtype={dtype}|mode=alias-route-differs", {"part": "base", "unit": name, "route": alias, "dtype": dtype, "shape": shape}, str(b), str(a))


SPELLINGS = {
    "km": ["m", "meter", "(m)", "m**1", "1*m", "m*s/s"],
    "percent": ["", "dimensionless", "1", "(dimensionless)", "m/m"],
    "cm/m": ["", "dimensionless", "m/m"],
    "km/pc": ["", "dimensionless"],
    "hr": ["s", "second", "1/Hz", "s**1"],
}


def part_spellings(ctx, shard):
    """every spelling of one target unit (name, alias, parenthesised, trivial power, the empty string for dimensionless)
    x every route gives the same numbers"""
    from unyt.unit_object import Unit

    world.reset_world()
    for src in shard:
        for dtype, shape in (("float64", "array"), ("float64", "scalar"), ("float32", "array")):
            x = mk(vals_for(ctx.seed, 1), dtype, src, shape)
            ref = None
            for sp in SPELLINGS[src]:
                targets = [("str", sp)]
                try:
                    targets.append(("Unit", Unit(sp)))
                except Exception:  # noqa: BLE001
                    pass
                for tkind, tgt in targets:
                    for rname, f in (
                        ("to", lambda: x.to(tgt)),
                        ("in_units", lambda: x.in_units(tgt)),
                        ("to_value", lambda: x.to_value(tgt)),
                        ("convert_to_units", lambda: (lambda y: (y.convert_to_units(tgt), y)[1])(x.copy())),
                        ("to_value-keyword", lambda: x.to_value(units=tgt)),
                    ):
                        ctx.count("evaluations")
                        r = attempt(f)
                        case = {"part": "spellings", "src": src, "spelling": sp, "target_kind": tkind, "route": rname, "dtype": dtype, "shape": shape}
                        base = f"C03|spelling|src={src}|target={sp or 'empty-string'}|kind={tkind}|route={rname}"
                        ctx.outcome(("spelling", src, sp, tkind, rname, r[0]))
                        if r[0] != "ok":
                            ctx.violation(base + f"|mode=refused:{r[1] if len(r) > 1 else ''}", case, "converted numbers", str(r[1:])[:100])
                            continue
                        ctx.decided(("spelling", src, sp, tkind, rname, dtype, shape))
                        vals = np.asarray(r[1].d if isinstance(r[1], unyt_array) else r[1], dtype=float)
                        if ref is None:
                            ref = (vals, sp, rname)
                            # anchor: stored numbers x ratio of scales
                            want = np.asarray(x.d, dtype=float) * float(x.units.base_value) / float(Unit(sp).base_value)
                            if np.any(np.abs(vals - want) > 64 * EPS[dtype] * np.abs(want)):
                                ctx.violation(base + "|mode=wrong-numbers", case, want.tolist(), vals.tolist())
                        elif vals.shape != ref[0].shape or np.any(np.abs(vals - ref[0]) > 64 * EPS[dtype] * np.abs(ref[0])):
                            ctx.violation(base + "|mode=spelling-or-route-changes-the-numbers", case, {"via": ref[1:], "numbers": ref[0].tolist()}, vals.tolist())


def part_registry_default_system(ctx, shard):
    """a registry created with a non-default unit system: the argument-free routes (in_base(), convert_to_base(),
    Unit.get_base_equivalent()) answer in THAT system, exactly like the routes that name it"""
    from unyt.unit_registry import UnitRegistry

    world.reset_world()
    for us in shard:
        reg = UnitRegistry(unit_system=us)
        for name in ["km", "J", "N", "g/cm**3", "T", "mT", "A", "statA", "G", "C", "mC", "kV", "ohm", "degC", "hr"]:
            for shape in ("array", "scalar"):
                ctx.count("evaluations")
                x = mk(vals_for(ctx.seed, 1), "float64", name, shape, registry=reg)
                named = attempt(lambda: x.in_base(us))
                routes = {
                    "in_base()": attempt(lambda: x.in_base()),
                    "convert_to_base()": attempt(lambda: (lambda y: (y.convert_to_base(), y)[1])(x.copy())),
                    "convert_to_base(name)": attempt(lambda: (lambda y: (y.convert_to_base(us), y)[1])(x.copy())),
                    "get_base_equivalent()": attempt(lambda: x.units.get_base_equivalent()),
                }
                # the routes that NAME their system in their own name answer in that system whatever the registry's default is
                for sysname in ("mks", "cgs"):
                    named2 = attempt(lambda: x.in_base(sysname))
                    fixed = {
                        f"in_{sysname}()": attempt(lambda: getattr(x, "in_" + sysname)()),
                        f"convert_to_{sysname}()": attempt(lambda: (lambda y: (getattr(y, "convert_to_" + sysname)(), y)[1])(x.copy())),
                        f"get_{sysname}_equivalent()": attempt(lambda: getattr(x.units, f"get_{sysname}_equivalent")()),
                    }
                    for rname, r in fixed.items():
                        case = {"part": "registry-default-system", "system": us, "unit": name, "route": rname, "shape": shape}
                        base = f"C03|registry-default-system|system={us}|unit={ukey(name)}|route={rname}"
                        ctx.outcome(("regdefault", us, name, rname, r[0], named2[0]))
                        if (r[0] == "ok") != (named2[0] == "ok"):
                            ctx.violation(base + "|mode=disagrees-with-named-route-on-refusal", case, named2[:1], r[:1])
                            continue
                        if r[0] != "ok":
                            continue
                        ctx.decided(("regdefault", us, name, rname, shape))
                        ru = r[1] if rname.startswith("get_") else r[1].units
                        if ru != named2[1].units or str(ru.expr) != str(named2[1].units.expr):
                            ctx.violation(base + "|mode=answers-in-another-unit-system", case, str(named2[1].units), str(ru))
                        elif not rname.startswith("get_") and close(ctx, r[1], named2[1], [x, named2[1]], EPS["float64"]) is False:
                            ctx.violation(base + "|mode=numbers-differ-from-named-route", case, str(named2[1]), str(r[1]))
                for rname, r in routes.items():
                    case = {"part": "registry-default-system", "system": us, "unit": name, "route": rname, "shape": shape}
                    base = f"C03|registry-default-system|system={us}|unit={ukey(name)}|route={rname}"
                    ctx.outcome(("regdefault", us, name, rname, r[0], named[0]))
                    if (r[0] == "ok") != (named[0] == "ok"):
                        ctx.violation(base + "|mode=disagrees-with-named-route-on-refusal", case, named[:1], r[:1])
                        continue
                    if r[0] != "ok":
                        continue
                    ctx.decided(("regdefault", us, name, rname, shape))
                    ru = r[1] if rname.startswith("get_base") else r[1].units
                    if ru != named[1].units or str(ru.expr) != str(named[1].units.expr):
                        ctx.violation(base + "|mode=answers-in-another-unit-system", case, str(named[1].units), str(ru))
                    elif not rname.startswith("get_base") and close(ctx, r[1], named[1], [x, named[1]], EPS["float64"]) is False:
                        ctx.violation(base + "|mode=numbers-differ-from-named-route", case, str(named[1]), str(r[1]))


def part_namesake(ctx, shard):
    """source and target spelled alike but defined differently: the target Unit object belongs to another registry, or
    was built before its registry was edited.  Every route that takes a Unit object converts by the two DEFINITIONS
    (scale of source / scale of target), never by the spelling."""
    from unyt import dimensions as udims
    from unyt.unit_registry import UnitRegistry

    world.reset_world()

    def regs():
        ra, rb = UnitRegistry(), UnitRegistry()
        for r, (cl, cm_, ct) in ((ra, (10.0, 2.0, 4.0)), (rb, (5.0, 8.0, 4.0))):
            r.add("code_length", cl, udims.length)
            r.add("code_mass", cm_, udims.mass, prefixable=True)
            r.add("code_time", ct, udims.time)
        rb.modify("pc", 3.0e16)
        return ra, rb

    for expr in shard:
        for how in ("foreign-registry", "stale-after-modify", "foreign-to-default", "second-namesake-target"):
            ra, rb = regs()
            tgt0 = None
            if how == "foreign-registry":
                src_reg, tgt = ra, Unit(expr, registry=rb)
            elif how == "second-namesake-target":
                # the same source object was converted to ANOTHER unit of the target's name just before (w9: a memo on the
                # source Unit keyed by the target's name)
                rc = UnitRegistry()
                rc.add("code_length", 7.0, udims.length)
                rc.add("code_mass", 0.5, udims.mass, prefixable=True)
                rc.add("code_time", 4.0, udims.time)
                rc.modify("pc", 2.0e16)
                src_reg, tgt, tgt0 = ra, Unit(expr, registry=rb), Unit(expr, registry=rc)
            elif how == "stale-after-modify":
                tgt = Unit(expr, registry=ra)  # built first ...
                ra.modify("code_length", 40.0)  # ... then its registry moves on: x below is in the NEW unit
                ra.modify("code_mass", 1.0)
                ra.modify("pc", 1.0e16)
                src_reg = ra
            else:
                if "code_" in expr:
                    continue
                src_reg, tgt = rb, Unit(expr)
            for dtype, shape in itertools.product(("float64", "float32", "int64"), ("array", "scalar")):
                ctx.count("evaluations")
                x = mk([1.0, 3.0, 8.0], dtype, expr, shape, registry=src_reg)
                s_src, s_tgt = float(x.units.base_value), float(tgt.base_value)
                want_si = np.asarray(x.d, dtype=float) * s_src
                if tgt0 is not None:
                    attempt(lambda: (x.to(tgt0), x.units.get_conversion_factor(tgt0), x.units.get_conversion_factor(tgt0, x.dtype), x.to_value(tgt0)))
                before = (x.tobytes(), world.unit_digest(x.units))
                routes = {
                    "to": lambda: x.to(tgt),
                    "in_units": lambda: x.in_units(tgt),
                    "to_value": lambda: unyt_array(np.asarray(x.to_value(tgt)), tgt),
                    "convert_to_units": lambda: (lambda y: (y.convert_to_units(tgt), y)[1])(x.copy()),
                    "by_hand": lambda: unyt_array(np.asarray(x.d) * x.units.get_conversion_factor(tgt, x.dtype)[0], tgt),
                    "unit-level-factor": lambda: unyt_array(np.asarray(x.d, dtype=float) * float(x.units.get_conversion_factor(tgt)[0]), tgt),
                }
                for rname, f in routes.items():
                    r = attempt(f)
                    case = {"part": "namesake", "expr": expr, "how": how, "dtype": dtype, "shape": shape, "route": rname}
                    base = f"C03|namesake|how={how}|route={rname}"
                    ctx.outcome(("namesake", how, rname, r[0], dtype))
                    if r[0] != "ok":
                        ctx.violation(base + f"|mode=raises:{r[1] if len(r) > 1 else ''}", case, "value", str(r[1:])[:100])
                        continue
                    ctx.decided(("namesake", expr, how, dtype, shape, rname))
                    if rname in ("to", "in_units", "convert_to_units") and abs(float(r[1].units.base_value) - s_tgt) > 1e-12 * abs(s_tgt):
                        # the numbers may be right, but the unit attached to them is not the target that was asked for
                        ctx.violation(base + "|mode=result-labelled-with-a-namesake-of-the-target", case, s_tgt, float(r[1].units.base_value))
                        continue
                    got_si = np.asarray(r[1].d, dtype=float) * s_tgt
                    tol = 16 * (EPS["float32"] if dtype == "float32" else EPS["float64"])
                    if np.any(np.abs(got_si - want_si) > tol * np.abs(want_si)):
                        ctx.violation(base + "|mode=converted-by-spelling-not-by-definition", case, (np.asarray(want_si) / s_tgt).tolist(), np.asarray(r[1].d, dtype=float).tolist())
                if (x.tobytes(), world.unit_digest(x.units)) != before:
                    ctx.violation(f"C03|namesake|how={how}|mode=source-changed", {"part": "namesake", "expr": expr, "how": how}, None, None)


ALGEBRA_SOURCES = ["km", "hr", "degC", "degF", "mdegC", "lat", "lon", "K", "delta_degC", "percent", "dB"]


def _algebra_targets(u):
    """Unit objects that denote u itself, reached through unit algebra / copies (never through a string)"""
    import copy as _copy

    out = [("u", lambda: u), ("u**1", lambda: u**1), ("u**1.0", lambda: u**1.0), ("(u**1)**1", lambda: (u**1) ** 1), ("copy", lambda: u.copy()),
           ("deepcopy", lambda: _copy.deepcopy(u)), ("Unit(u)", lambda: Unit(u)), ("Unit(str(u))", lambda: Unit(str(u), registry=u.registry))]
    if not u.base_offset and u.dimensions is not udims.logarithmic:
        out += [("u*u/u", lambda: u * u / u), ("(u**2)**0.5", lambda: (u**2) ** 0.5), ("1/(1/u)", lambda: 1 / (1 / u)), ("sqrt(u*u)", lambda: (u * u) ** Fraction(1, 2))]
    return out


def part_algebra(ctx, shard):
    """identity law through targets that are the source's own unit rebuilt by unit algebra: u**1, copies, Unit(u)...;
    and the quantity raised to the first power / made positive converts exactly like the quantity itself"""
    world.reset_world()
    for src in shard:
        for dtype, shape in (("float64", "array"), ("float64", "scalar"), ("float32", "array")):
            x = mk(vals_for(ctx.seed, 1), dtype, src, shape)
            u = x.units
            for tname, mkt in _algebra_targets(u):
                rt = attempt(mkt)
                if rt[0] != "ok":
                    ctx.outcome(("algebra-target-refused", src, tname))
                    continue
                tgt = rt[1]
                for rname, f in (
                    ("to", lambda: x.to(tgt)),
                    ("in_units", lambda: x.in_units(tgt)),
                    ("to_value", lambda: x.to_value(tgt)),
                    ("convert_to_units", lambda: (lambda y: (y.convert_to_units(tgt), y)[1])(x.copy())),
                ):
                    ctx.count("evaluations")
                    r = attempt(f)
                    case = {"part": "algebra", "src": src, "target": tname, "route": rname, "dtype": dtype, "shape": shape}
                    base = f"C03|algebra|src={src}|target={tname}|route={rname}"
                    ctx.outcome(("algebra", src, tname, rname, r[0]))
                    if r[0] != "ok":
                        ctx.violation(base + f"|mode=refused:{r[1] if len(r) > 1 else ''}", case, "the same numbers", str(r[1:])[:100])
                        continue
                    ctx.decided(("algebra", src, tname, rname, dtype, shape))
                    vals = np.asarray(r[1].d if isinstance(r[1], unyt_array) else r[1], dtype=float)
                    want = np.asarray(x.d, dtype=float)
                    if vals.shape != want.shape or np.any(np.abs(vals - want) > 64 * EPS[dtype] * (np.abs(want) + off_si(u) / abs(float(u.base_value)))):
                        ctx.violation(base + "|mode=identity-broken", case, want.tolist(), vals.tolist())
            # the quantity itself through value-preserving operations, then to its base unit
            base_t = attempt(lambda: x.in_base("mks"))
            for oname, f in (("x**1", lambda: x**1), ("np.power(x,1)", lambda: np.power(x, 1)), ("np.positive(x)", lambda: np.positive(x)),
                             ("+x", lambda: +x), ("x*1", lambda: x * 1), ("x/1", lambda: x / 1), ("np.prod([x0])", lambda: np.prod(x.reshape(-1)[:1]))):
                ctx.count("evaluations")
                r = attempt(f)
                case = {"part": "algebra", "src": src, "target": oname, "route": "in_base", "dtype": dtype, "shape": shape}
                base = f"C03|algebra|src={src}|op={oname}|route=in_base"
                ctx.outcome(("algebra-op", src, oname, r[0]))
                if r[0] != "ok" or base_t[0] != "ok":
                    continue  # a refusal of the operation itself is C08's subject
                r2 = attempt(lambda: r[1].in_base("mks"))
                if r2[0] != "ok":
                    ctx.violation(base + "|mode=refused-after-identity-operation", case, str(base_t[1])[:80], str(r2[1:])[:100])
                    continue
                ctx.decided(("algebra-op", src, oname, dtype, shape))
                want = np.asarray(base_t[1].d, dtype=float).reshape(-1)
                vals = np.asarray(r2[1].d, dtype=float).reshape(-1)
                if oname.startswith("np.prod"):
                    want = want[:1]
                if r2[1].units != base_t[1].units or vals.shape != want.shape or np.any(np.abs(vals - want) > 64 * EPS[dtype] * (np.abs(want) + off_si(u))):
                    ctx.violation(base + "|mode=identity-operation-changes-the-quantity", case, want.tolist(), vals.tolist())


NAMESAKE_EXPRS = ["code_length", "code_mass", "kcode_mass", "code_length/code_time", "code_mass*code_length/code_time**2", "code_length**2", "pc", "kpc", "Mpc/code_time", "pc**-3", "sqrt(code_length)"]


def run(ctx):
    harness.pmap(ctx, part_spellings, [[k] for k in SPELLINGS])
    harness.pmap(ctx, part_registry_default_system, [["cgs"], ["imperial"], ["galactic"], ["mks"]])
    harness.pmap(ctx, part_namesake, [[e] for e in NAMESAKE_EXPRS])
    harness.pmap(ctx, part_algebra, [[e] for e in ALGEBRA_SOURCES])
    groups = default_groups(ctx.tier)
    shards = []
    for d, names in sorted(groups.items()):
        if len(names) < 2:
            continue
        for i in range(0, len(names), 4):
            shards.append((d if d in ("temperature", "angle") else "dim", names[i : i + 4], names, ctx.tier))
    for g in em_groups():
        for i in range(0, len(g), 2):
            shards.append(("em", g[i : i + 2], g, ctx.tier))
    _r, afn = affine_registry()
    for i in range(0, len(afn), 3):
        shards.append(("affine", afn[i : i + 3], afn, ctx.tier))
    harness.pmap(ctx, part_group, shards)
    allnames = sorted({n for names in groups.values() for n in names})
    harness.pmap(ctx, part_base, [allnames[i : i + 12] for i in range(0, len(allnames), 12)])
    return {
        "coverage": {
            "rule": "complete product per dimension group: ordered pairs (A,B) x dtype x shape with identity, there-and-back, "
            "five routes (in_units, to(Unit), to_value, convert_to_units, factor by hand) and composition via every third unit "
            "of the group (quick: first 6 thirds for large groups; temperature, angle, EM and the custom affine grid always "
            "complete); base-conversion twins for every unit x 7 systems. A decided case is a distinct (A,B[,C],dtype,shape).",
            "axes": {"groups": {d: len(n) for d, n in groups.items() if len(n) > 1}, "em_groups": len(EM_PAIRS), "affine_units": len(afn),
                     "dtypes": DTYPES, "values": VALUES},
        },
        "assumptions": [
            "tolerance: error measured in SI <= 64 eps(dtype) x largest SI magnitude in the chain incl. absolute size of affine offsets",
            "'all real scale/offset parameters, symbolically' is replaced by the 6x5 affine grid (x prefixable, x prefixes k,m)",
        ],
    }


def replay(case):
    ctx = harness.Ctx(PROPERTY, "quick", 0)
    world.reset_world()
    if case["part"] == "spellings":
        part_spellings(ctx, [case["src"]])
    elif case["part"] == "registry-default-system":
        part_registry_default_system(ctx, [case["system"]])
    elif case["part"] == "base":
        part_base(ctx, [case["unit"]])
    elif case["part"] == "namesake":
        part_namesake(ctx, [case["expr"]])
    elif case["part"] == "algebra":
        part_algebra(ctx, [case["src"]])
    else:
        registry = affine_registry()[0] if case["part"] == "affine" else None
        thirds = [case["C"]] if "C" in case else ()
        check_pair(ctx, case["A"], case["B"], case["dtype"], case["shape"], case["vals"], registry, case["part"], thirds)
    return list(ctx.violations.items())
