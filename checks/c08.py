"""C08  Offset temperature scales follow point/difference semantics or refuse.

All ordered pairs of temperature spellings (8 base spellings x SI prefixes where allowed) x additive
operations in operator / in-place / ufunc / out= / outer form, multiplicative and power operations on
offset-scale quantities, conversions on every route, and diff/ediff1d/ptp, compared with affine
arithmetic done in kelvin by a tiny reference model.
"""

import itertools
import operator

import numpy as np

from mc import harness, world
from mc.ref import rparse

PROPERTY = "C08"

import unyt
from unyt import unyt_array, unyt_quantity
from unyt.unit_object import Unit

EPS = 2.0**-52
# ---- reference model: unit -> (kelvin per unit, kelvin at reading 0, kind, family) -----------------------
BASES = {
    "K": (1.0, 0.0, "diff", None, True),
    "R": (5.0 / 9.0, 0.0, "diff", None, False),
    "degC": (1.0, 273.15, "point", "celsius", True),
    "degF": (5.0 / 9.0, 459.67 * 5.0 / 9.0, "point", "fahrenheit", False),
    "delta_degC": (1.0, 0.0, "diff", None, True),
    "delta_degF": (5.0 / 9.0, 0.0, "diff", None, False),
}
ALL_PREFIXES = list(rparse.PREFIXES)


def spellings(tier):
    prefixes = ALL_PREFIXES
    out = []
    for b, row in BASES.items():
        out.append(("", b))
        if row[4]:
            out += [(p, b) for p in prefixes]
    return out


def model(sp):
    p, b = sp
    s, z, kind, fam, _pre = BASES[b]
    return s * float(rparse.PREFIXES[p]) if p else s, z, kind, fam


def name(sp):
    return sp[0] + sp[1]


def keyname(sp):
    return ("p." if sp[0] else "") + sp[1]


VALUES = [-40.0, 0.0, 10.0, 273.15, 1000.0]


def mkq(sp, vals, shape):
    if shape == "scalar":
        return unyt_quantity(vals[0], name(sp))
    return unyt_array(np.array(vals[:3]), name(sp))


def label_model(u):
    """reference (scale, zero) of the unit object a result is labelled with; None if not a plain temperature."""
    s = str(u.expr)
    for p in [""] + ALL_PREFIXES:
        if s.startswith(p) and s[len(p) :] in BASES and (not p or BASES[s[len(p) :]][4]):
            sc, z, kind, fam = model((p, s[len(p) :]))
            return sc, z, kind
    return None


def tol_k(*mags):
    return 64 * EPS * max([abs(m) for m in mags] + [273.15, 460.0])


# ---- additive operations ------------------------------------------------------------------------------------
def _out(x, y):
    shp = np.broadcast(np.asarray(x), np.asarray(y)).shape
    return unyt_array(np.full(shp, 7.0), "kg") if shp else None


ADD_FORMS = [
    ("operator", lambda f, x, y: {"add": operator.add, "subtract": operator.sub}[f](x, y)),
    ("ufunc", lambda f, x, y: getattr(np, f)(x, y)),
    ("out", lambda f, x, y: getattr(np, f)(x, y, out=_out(x, y))),
    ("inplace", lambda f, x, y: {"add": operator.iadd, "subtract": operator.isub}[f](x, y)),
    ("outer", lambda f, x, y: getattr(np, f).outer(x, y)),
    # the reduction spelling of x + y0: the start value takes part like an operand of +
    ("reduce-initial", lambda f, x, y: np.add.reduce(x[None, ...], axis=0, initial=y.reshape(-1)[0])),
    ("sum-initial", lambda f, x, y: x[None, ...].sum(axis=0, initial=y.reshape(-1)[0])),
    ("np.sum-initial-0d", lambda f, x, y: np.sum(x[None, ...], axis=0, initial=unyt_array(np.array(float(y.reshape(-1)[0].d)), y.units))),
    # the operator applied to a SLICE of a larger array: the result is written back through item assignment
    ("inplace-slice", lambda f, x, y: _inplace_slice(f, x, y)),
]
REDUCE_FORMS = ("reduce-initial", "sum-initial", "np.sum-initial-0d")


def _inplace_slice(f, x, y):
    parent = unyt_array(np.concatenate([np.asarray(x.d), np.asarray(x.d)]), x.units)
    n = x.size
    if f == "add":
        parent[:n] += y
    else:
        parent[:n] -= y
    if not np.array_equal(np.asarray(parent.d)[n:], np.asarray(x.d)):
        raise AssertionError("the rest of the parent changed")
    return parent[:n]


def expected_additive(f, m1, m2, xs, ys):
    """-> ('skip',) | ('raise',) | ('point', kelvin array) | ('diff', kelvin array)."""
    (s1, z1, k1, f1), (s2, z2, k2, f2) = m1, m2
    a = xs * s1 + (z1 if k1 == "point" else 0.0)
    b = ys * s2 + (z2 if k2 == "point" else 0.0)
    if k1 == "point" and k2 == "point":
        if f1 != f2:
            return ("raise",)
        if f == "add":
            return ("skip",)
        return ("diff", a - b)
    if k1 == "point" and k2 == "diff":
        return ("point", a + b if f == "add" else a - b)
    if k1 == "diff" and k2 == "point":
        if f == "add":
            return ("point", a + b)
        return ("skip",)
    return ("diff", a + b if f == "add" else a - b)


def check_additive(ctx, f, form, ffunc, sp1, sp2, shape, vals):
    m1, m2 = model(sp1), model(sp2)
    x = mkq(sp1, vals, shape)
    y = mkq(sp2, vals[::-1], shape)
    if form == "inplace" and shape == "scalar":
        return
    if form == "out" and shape == "scalar":
        return
    if form in REDUCE_FORMS + ("inplace-slice",) and (shape == "scalar" or (f != "add" and form in REDUCE_FORMS)):
        return
    xs, ys = np.array(x.d, dtype=float), np.array(y.d, dtype=float)
    if form in REDUCE_FORMS:
        ys = ys.reshape(-1)[:1]
    if form == "outer":
        exp = expected_additive(f, m1, m2, xs.reshape(xs.shape + (1,) * ys.ndim), ys)
    else:
        exp = expected_additive(f, m1, m2, xs, ys)
    ctx.count("evaluations")
    ctx.count("transitions")
    try:
        res = ffunc(f, x, y)
        out = "ok"
    except Exception as e:  # noqa: BLE001
        res, out = None, "raise:" + type(e).__name__
    case = {"part": "additive", "op": f, "form": form, "left": list(sp1), "right": list(sp2), "shape": shape, "vals": vals}
    base = f"C08|pair|op={f}|form={form}|left={keyname(sp1)}|right={keyname(sp2)}"
    ctx.outcome((f, form, keyname(sp1), keyname(sp2), out.split(":")[0], exp[0]))
    if exp[0] == "skip":
        ctx.count("not_demanded")
        return
    ctx.decided((f, form, name(sp1), name(sp2), shape))
    if out != "ok":
        return  # refusing is always acceptable
    if exp[0] == "raise":
        ctx.violation(base + "|mode=returned-instead-of-raise", case, "raise", _desc(res))
        return
    lm = label_model(res.units) if hasattr(res, "units") else None
    if lm is None:
        ctx.violation(base + "|mode=result-not-a-temperature", case, exp[0], _desc(res))
        return
    sc, z, kind = lm
    got = np.asarray(res.d, dtype=float)
    want_k = np.asarray(exp[1], dtype=float)
    if exp[0] == "diff":
        if z != 0.0:
            ctx.violation(base + "|mode=difference-labelled-with-offset-unit", case, "zero-offset label", _desc(res))
            return
        got_k = got * sc
    else:
        got_k = got * sc + z
    t = tol_k(np.max(np.abs(want_k)), np.max(np.abs(xs)) * m1[0], np.max(np.abs(ys)) * m2[0])
    if got_k.shape != want_k.shape or np.max(np.abs(got_k - want_k)) > t:
        ctx.violation(base + "|mode=wrong-value", case, {"kelvin": want_k.tolist(), "kind": exp[0]}, _desc(res))


def _desc(res):
    if isinstance(res, unyt_array):
        return {"value": np.asarray(res.d).tolist(), "units": str(res.units)}
    return repr(res)


# ---- conversions -------------------------------------------------------------------------------------------------
CONV_ROUTES = [
    ("to", lambda q, u: q.to(u)),
    ("in_units", lambda q, u: q.in_units(u)),
    ("to_value", lambda q, u: unyt_array(np.atleast_1d(q.to_value(u)), u)),
    ("convert_to_units", lambda q, u: (q.convert_to_units(u), q)[1]),
    ("to_unitobj", lambda q, u: q.to(Unit(u))),
    # readings assigned into an array that is on another scale are converted on the way in
    ("setitem-slice", lambda q, u: (lambda t: (t.__setitem__(slice(None), q), t)[1])(unyt_array(np.zeros(np.size(q)), u))),
    ("setitem-index", lambda q, u: (lambda t: ([t.__setitem__(i, qi) for i, qi in enumerate(np.atleast_1d(q))], t)[1])(unyt_array(np.zeros(np.size(q)), u))),
    ("setitem-mask", lambda q, u: (lambda t: (t.__setitem__(np.ones(np.size(q), dtype=bool), np.atleast_1d(q)), t)[1])(unyt_array(np.zeros(np.size(q)), u))),
    # a list of readings on mixed scales is coerced to the scale of its first element
    ("list-coercion", lambda q, u: unyt_array([unyt_quantity(1.0, u)] + [qi for qi in np.atleast_1d(q)])[1:]),
    ("list-coercion-tuple", lambda q, u: unyt_array((unyt_quantity(1.0, u),) + tuple(qi for qi in np.atleast_1d(q)))[1:]),
]


def check_conversion(ctx, route, rfunc, sp1, sp2, shape, vals):
    m1, m2 = model(sp1), model(sp2)
    x = mkq(sp1, vals, shape)
    xs = np.array(x.d, dtype=float)
    kel = xs * m1[0] + m1[1]
    want = (kel - m2[1]) / m2[0]
    ctx.count("evaluations")
    ctx.count("transitions")
    case = {"part": "conversion", "route": route, "from": list(sp1), "to": list(sp2), "shape": shape, "vals": vals}
    base = f"C08|convert|route={route}|from={keyname(sp1)}|to={keyname(sp2)}"
    try:
        res = rfunc(x, name(sp2))
    except Exception as e:  # noqa: BLE001
        ctx.outcome((route, keyname(sp1), keyname(sp2), "raise"))
        ctx.violation(base + f"|mode=raises:{type(e).__name__}", case, want.tolist(), repr(e))
        return
    ctx.outcome((route, keyname(sp1), keyname(sp2), "ok"))
    ctx.decided((route, name(sp1), name(sp2), shape))
    got = np.asarray(res.d, dtype=float).reshape(np.shape(want)) if np.size(res) == np.size(want) else np.asarray(res.d)
    t = tol_k(np.max(np.abs(kel)), np.max(np.abs(xs)) * m1[0])
    if got.shape != want.shape or np.max(np.abs(got * m2[0] - want * m2[0])) > t:
        ctx.violation(base + "|mode=wrong-value", case, want.tolist(), _desc(res))
    elif str(res.units.expr) != str(Unit(name(sp2)).expr):
        ctx.violation(base + "|mode=wrong-label", case, name(sp2), str(res.units))


def check_base_conversion(ctx, sp1, shape, vals):
    """in_base / convert_to_base: mks -> K, imperial -> R."""
    m1 = model(sp1)
    for system, target in (("mks", ("", "K")), ("imperial", ("", "R")), ("cgs", ("", "K"))):
        for route in ("in_base", "convert_to_base"):
            x = mkq(sp1, vals, shape)
            xs = np.array(x.d, dtype=float)
            kel = xs * m1[0] + m1[1]
            m2 = model(target)
            want = kel / m2[0]
            ctx.count("evaluations")
            case = {"part": "base", "route": route, "system": system, "from": list(sp1), "shape": shape, "vals": vals}
            base = f"C08|convert|route={route}:{system}|from={keyname(sp1)}|to={target[1]}"
            try:
                if route == "in_base":
                    res = x.in_base(system)
                else:
                    x.convert_to_base(system)
                    res = x
            except Exception as e:  # noqa: BLE001
                ctx.violation(base + f"|mode=raises:{type(e).__name__}", case, want.tolist(), repr(e))
                continue
            ctx.decided((route, system, name(sp1), shape))
            got = np.asarray(res.d, dtype=float)
            t = tol_k(np.max(np.abs(kel)))
            if str(res.units.expr) != target[1]:
                ctx.violation(base + "|mode=wrong-label", case, target[1], str(res.units))
            elif np.max(np.abs(got * m2[0] - want * m2[0])) > t:
                ctx.violation(base + "|mode=wrong-value", case, want.tolist(), _desc(res))


# ---- multiplicative / power operations on offset scales ---------------------------------------------------------
def mul_ops():
    ops = []

    def second(kind, x):
        if kind == "same":
            return x.copy()
        if kind == "K":
            return unyt_quantity(2.0, "K")
        if kind == "m":
            return unyt_quantity(2.0, "m")
        if kind == "bare":
            return 2.0
        if kind == "dimless":
            return unyt_quantity(2.0, "dimensionless")
        if kind == "unit":
            return Unit("m")
        raise ValueError(kind)

    for sk in ("same", "K", "m", "bare", "dimless", "unit"):
        ops.append((f"mul:{sk}", lambda x, sk=sk: x * second(sk, x)))
        ops.append((f"rmul:{sk}", lambda x, sk=sk: second(sk, x) * x))
        ops.append((f"div:{sk}", lambda x, sk=sk: x / second(sk, x)))
        ops.append((f"rdiv:{sk}", lambda x, sk=sk: second(sk, x) / x))
        if sk != "unit":
            ops.append((f"multiply:{sk}", lambda x, sk=sk: np.multiply(x, second(sk, x))))
            ops.append((f"divide:{sk}", lambda x, sk=sk: np.divide(x, second(sk, x))))
            ops.append((f"floordiv:{sk}", lambda x, sk=sk: x // second(sk, x)))
            ops.append((f"imul:{sk}", lambda x, sk=sk: operator.imul(x, second(sk, x))))
            ops.append((f"itruediv:{sk}", lambda x, sk=sk: operator.itruediv(x, second(sk, x))))
    # products through array functions and Unit objects, with the offset-scale operand on the RIGHT as well as on the left
    def partner(kind, x):
        n = np.atleast_1d(x).shape[0]
        base = np.arange(1.0, n + 1.0)
        if kind == "K":
            return unyt_array(base, "K")
        if kind == "m":
            return unyt_array(base, "m")
        if kind == "dimless":
            return unyt_array(base, "dimensionless")
        return base

    prodfuncs = {
        "dot": np.dot, "vdot": np.vdot, "inner": np.inner, "outer": np.outer, "kron": np.kron, "matmul": np.matmul,
        "convolve": np.convolve, "correlate": np.correlate, "tensordot": lambda a, b: np.tensordot(a, b, axes=0),
        "cross": lambda a, b: np.cross(np.resize(a, 3), np.resize(b, 3)), "einsum": lambda a, b: np.einsum("i,i", a, b),
        "multiply.outer": np.multiply.outer, "linalg.outer": np.linalg.outer, "vecdot": np.vecdot,
    }
    for fname, f in prodfuncs.items():
        for pk in ("K", "m", "dimless", "bare"):
            ops.append((f"{fname}:offset-left:{pk}", lambda x, f=f, pk=pk: f(np.atleast_1d(x), partner(pk, x))))
            ops.append((f"{fname}:offset-right:{pk}", lambda x, f=f, pk=pk: f(partner(pk, x), np.atleast_1d(x))))
    for pk in ("K", "m"):  # (a dimensionless number times a Unit is construction, not multiplication of a quantity)
        ops.append((f"quantity-times-Unit:{pk}", lambda x, pk=pk: partner(pk, x) * x.units))
        ops.append((f"Unit-times-quantity:{pk}", lambda x, pk=pk: x.units * partner(pk, x)))
        ops.append((f"quantity-over-Unit:{pk}", lambda x, pk=pk: partner(pk, x) / x.units))
    # the Unit object of an offset scale divided by plain data (the library reads the Unit as the quantity 1 degC there)
    ops += [
        ("Unit-over-number", lambda x: x.units / 2.0),
        ("Unit-over-int", lambda x: x.units / 2),
        ("Unit-over-list", lambda x: x.units / [1.0, 2.0, 4.0]),
        ("Unit-over-ndarray", lambda x: x.units / np.array([1.0, 2.0])),
        ("number-over-Unit", lambda x: 2.0 / x.units),
        ("ndarray-over-Unit", lambda x: np.array([1.0, 2.0]) / x.units),
    ]
    ops += [
        ("unit_rmul", lambda x: unyt_quantity(1.0, Unit("m") * x.units)),
        ("unit_rmul_K", lambda x: unyt_quantity(1.0, Unit("K") * x.units)),
        ("unit_mul_K", lambda x: unyt_quantity(1.0, x.units * Unit("K"))),
        ("unit_rdiv", lambda x: unyt_quantity(1.0, x.units / Unit("m"))),
    ]
    ops += [
        ("square", lambda x: np.square(x)),
        ("sqrt", lambda x: np.sqrt(np.abs(x) + 1)),
        ("sqrt_direct", lambda x: np.sqrt(x)),
        ("cbrt", lambda x: np.cbrt(x)),
        ("reciprocal", lambda x: np.reciprocal(x + unyt_quantity(1.0, _delta_of(x)))),
        ("reciprocal_direct", lambda x: np.reciprocal(x)),
        ("pow2", lambda x: x**2),
        ("pow0.5", lambda x: x**0.5),
        ("pow-1", lambda x: x**-1),
        ("power_ufunc", lambda x: np.power(x, 2)),
        ("ipow", lambda x: operator.ipow(x, 2)),
        ("multiply.reduce", lambda x: np.multiply.reduce(np.atleast_1d(x))),
        ("multiply.accumulate", lambda x: np.multiply.accumulate(np.atleast_1d(x))),
        ("prod", lambda x: np.prod(np.atleast_1d(x))),
        ("dot", lambda x: np.dot(np.atleast_1d(x), np.atleast_1d(x))),
        ("matmul", lambda x: np.matmul(np.atleast_1d(x), np.atleast_1d(x))),
        ("method_dot", lambda x: np.atleast_1d(x).dot(np.atleast_1d(x))),
        ("cross", lambda x: np.cross(np.atleast_1d(x)[:3], np.atleast_1d(x)[:3])),
        ("outer", lambda x: np.outer(np.atleast_1d(x), np.atleast_1d(x))),
        ("multiply.outer", lambda x: np.multiply.outer(x, x)),
        ("unit_pow", lambda x: unyt_quantity(1.0, x.units**2)),
        ("unit_mul", lambda x: unyt_quantity(1.0, x.units * Unit("m"))),
        ("unit_div", lambda x: unyt_quantity(1.0, Unit("m") / x.units)),
    ]
    return ops


def _delta_of(x):
    s = str(x.units.expr)
    return "delta_degF" if "degF" in s else "delta_degC"


MUL_OPS = mul_ops()


def check_mul(ctx, opname, func, sp, shape, vals):
    if shape == "scalar" and opname in ("multiply.reduce", "multiply.accumulate", "prod"):
        return  # a product over one element multiplies nothing
    x = mkq(sp, [v if v else 1.0 for v in vals], shape)
    ctx.count("evaluations")
    ctx.count("transitions")
    case = {"part": "mul", "op": opname, "unit": list(sp), "shape": shape, "vals": vals}
    try:
        res = func(x)
        out = "ok"
    except Exception as e:  # noqa: BLE001
        res, out = None, "raise"
    ctx.outcome((opname, keyname(sp), out))
    ctx.decided((opname, name(sp), shape))
    if out == "ok":
        ctx.violation(
            f"C08|offset|op={opname}|unit={keyname(sp)}|mode=returned-instead-of-raise", case, "raise", _desc(res)
        )


# ---- diff / ediff1d / ptp ----------------------------------------------------------------------------------------
DELTA_FUNCS = [
    ("diff", lambda a: np.diff(a)),
    ("ediff1d", lambda a: np.ediff1d(a)),
    ("ptp", lambda a: np.ptp(a)),
    ("method_ptp", lambda a: a.max() - a.min()),
    
]


def check_delta(ctx, fname, func, sp, vals):
    m = model(sp)
    a = unyt_array(np.array(vals), name(sp))
    bare = np.array(vals)
    want_k = np.asarray(func(bare), dtype=float) * m[0]
    ctx.count("evaluations")
    ctx.count("transitions")
    case = {"part": "delta", "func": fname, "unit": list(sp), "vals": vals}
    base = f"C08|delta|func={fname}|unit={keyname(sp)}"
    try:
        res = func(a)
    except Exception as e:  # noqa: BLE001
        ctx.outcome((fname, keyname(sp), "raise"))
        return
    ctx.outcome((fname, keyname(sp), "ok"))
    ctx.decided((fname, name(sp)))
    lm = label_model(res.units) if hasattr(res, "units") else None
    if lm is None:
        ctx.violation(base + "|mode=result-not-a-temperature", case, "difference", _desc(res))
        return
    sc, z, kind = lm
    if z != 0.0:
        ctx.violation(base + "|mode=difference-labelled-with-offset-unit", case, "zero-offset label", _desc(res))
        return
    got_k = np.asarray(res.d, dtype=float) * sc
    if got_k.shape != want_k.shape or np.max(np.abs(got_k - want_k)) > tol_k(np.max(np.abs(bare)) * m[0]):
        ctx.violation(base + "|mode=wrong-value", case, {"kelvin": want_k.tolist()}, _desc(res))


# ---- driver ------------------------------------------------------------------------------------------------------------
def vals_for(seed, i):
    k = (seed + i) % len(VALUES)
    return VALUES[k:] + VALUES[:k]


def part_pairs(ctx, shard):
    world.reset_world()
    for sp1, sp2 in shard:
        for i, (f, (form, ffunc), shape) in enumerate(
            itertools.product(("add", "subtract"), ADD_FORMS, ("scalar", "array"))
        ):
            for vi in range(2 if ctx.tier == "quick" else 5):
                check_additive(ctx, f, form, ffunc, sp1, sp2, shape, vals_for(ctx.seed, i + vi * 2))
        for i, ((route, rfunc), shape) in enumerate(itertools.product(CONV_ROUTES, ("scalar", "array"))):
            check_conversion(ctx, route, rfunc, sp1, sp2, shape, vals_for(ctx.seed, i))
    ctx.sample({"pair": [name(shard[0][0]), name(shard[0][1])]})


def part_single(ctx, shard):
    world.reset_world()
    for sp in shard:
        m = model(sp)
        for shape in ("scalar", "array"):
            check_base_conversion(ctx, sp, shape, vals_for(ctx.seed, 1))
            if m[2] == "point":
                for opname, func in MUL_OPS:
                    check_mul(ctx, opname, func, sp, shape, vals_for(ctx.seed, 2))
        for fname, func in DELTA_FUNCS:
            check_delta(ctx, fname, func, sp, vals_for(ctx.seed, 3))


def run(ctx):
    sps = spellings(ctx.tier)
    pairs = list(itertools.product(sps, sps))
    harness.pmap(ctx, part_pairs, [pairs[i : i + 24] for i in range(0, len(pairs), 24)])
    harness.pmap(ctx, part_single, [[sp] for sp in sps])
    return {
        "coverage": {
            "rule": "complete product: ordered pairs of temperature spellings x {add, subtract} x 5 call forms x "
            "{scalar, array} x 2 value rotations, x 5 conversion routes; per spelling: base conversions in 3 unit "
            "systems, every multiplicative/power operation on offset scales, diff/ediff1d/ptp/gradient. A decided "
            "case is one for which the statement fixes the outcome (value, label kind or refusal).",
            "axes": {
                "spellings": [name(s) for s in sps],
                "ordered_pairs": len(pairs),
                "additive_forms": [f for f, _ in ADD_FORMS],
                "conversion_routes": [r for r, _ in CONV_ROUTES],
                "multiplicative_ops": len(MUL_OPS),
                "values": VALUES,
            },
        },
        "assumptions": [
            "degC/degF (and prefixed degC) readings are points, everything else differences (statement)",
            "point+point on one scale and difference-point are not demanded and only recorded",
        ],
    }


def replay(case):
    ctx = harness.Ctx(PROPERTY, "quick", 0)
    part = case["part"]
    if part == "additive":
        ff = dict(ADD_FORMS)[case["form"]]
        check_additive(ctx, case["op"], case["form"], ff, tuple(case["left"]), tuple(case["right"]), case["shape"], case["vals"])
    elif part == "conversion":
        check_conversion(ctx, case["route"], dict(CONV_ROUTES)[case["route"]], tuple(case["from"]), tuple(case["to"]), case["shape"], case["vals"])
    elif part == "base":
        check_base_conversion(ctx, tuple(case["from"]), case["shape"], case["vals"])
    elif part == "mul":
        check_mul(ctx, case["op"], dict(MUL_OPS)[case["op"]], tuple(case["unit"]), case["shape"], case["vals"])
    elif part == "delta":
        check_delta(ctx, case["func"], dict(DELTA_FUNCS)[case["func"]], tuple(case["unit"]), case["vals"])
    return list(ctx.violations.items())
