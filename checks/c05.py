"""C05  Unit objects form a consistent multiplicative algebra.

Explicit-state closure: from all atomic units (+ prefixed + custom-registry units) apply every
transition u*v, u/v, u**p, simplify, as_coeff_unit, copy to depth 2 (depth 3 from a small alphabet in
thorough).  In every reached state the three representations (expr, base_value, dimensions) must agree
(re-evaluated through the library's own evaluator and through the independent reference parser); the
algebraic laws are checked on every pair / triple at the bound.
"""

import itertools
import math
from fractions import Fraction

from mc import harness, world
from mc.ref import rparse
from mc.ref.dims import RDim, dim_of

PROPERTY = "C05"

import unyt
from unyt import dimensions as udims, unyt_quantity
from unyt._unit_lookup_table import default_unit_symbol_lut, inv_name_alternatives
from unyt.exceptions import UnytError
from unyt.unit_object import Unit, _get_unit_data_from_expr
from unyt.unit_registry import UnitRegistry

EPS = 2.0**-52
EXPS = [-3, -2, -1, Fraction(-1, 2), Fraction(-1, 3), Fraction(1, 3), Fraction(1, 2), Fraction(2, 3), 1,
        Fraction(3, 2), 2, 3, 0.5, 1.5, 0.3333333333333333, 0.1]  # fmt: skip
PREFIXED = ["km", "mg", "ms", "kK", "MJ", "keV", "nm", "µm", "GHz", "kPa", "mW", "kpc", "Myr", "mA", "mrad",
            "cL", "kN", "mV", "µF", "nH"]  # fmt: skip
SMALL = ["m", "km", "g", "s", "hr", "K", "N", "erg", "mile", "Msun", "statC", "J", "rad", "A", "eV", "G",
         "code_length", "code_mass", "percent", "dimensionless"]  # fmt: skip
SPECIAL = {"degC", "degF", "lat", "lon", "B", "Np", "delta_degC", "delta_degF", "%", "dimensionless"}


def custom_registry():
    r = UnitRegistry()
    r.add("code_length", 3.2, udims.length)
    r.add("code_mass", 64.0, udims.mass, prefixable=True)
    r.add("code_time", 0.125, udims.time)
    r.add("code_velocity", 25.6, udims.length / udims.time)
    r.add("code_magnetic", 7.0, udims.magnetic_field_cgs)
    r.add("code_temperature", 1.0, udims.temperature)
    return r


def uclass(name):
    if name in SPECIAL:
        return name
    if name.startswith("code_"):
        return "custom"
    if name in default_unit_symbol_lut:
        return "atomic"
    return "prefixed"


def want_pow(p):
    return Fraction(str(p)).limit_denominator()


def rel(a, b):
    if a == b:
        return 0.0
    return abs(a - b) / max(abs(a), abs(b))


def triple(u):
    return float(u.base_value), dim_of(u.dimensions), float(u.base_offset)


def attempt(f):
    try:
        return ("ok", f())
    except UnytError as e:
        return ("refuse", type(e).__name__)
    except Exception as e:  # noqa: BLE001
        return ("error", type(e).__name__)


_LIBTAB = {}


def libtab(reg):
    k = id(reg)
    if k not in _LIBTAB:
        _LIBTAB[k] = rparse.table_from_lut(reg.lut)
    return _LIBTAB[k]


def check_state(ctx, u, how, case, depth):
    """three-representation invariant in one reached state."""
    ctx.count("states_checked")
    sc, dim, off = triple(u)
    key_state = (id(u.registry) % 7, str(u.expr), round(math.log10(abs(sc)) if sc else 0, 11), dim.key())
    ctx.outcome(key_state)
    # (1) the library's own evaluator on expr
    try:
        d = _get_unit_data_from_expr(u.expr, u.registry.lut)
        lib = (float(d[0]), dim_of(d[1]))
    except Exception as e:  # noqa: BLE001
        lib = ("raise", type(e).__name__)
    # (2) the independent reference parser on str(expr)
    try:
        r = rparse.parse(str(u.expr), libtab(u.registry), inv_name_alternatives)
        ref = (r.scale, r.dim)
    except rparse.RParseError as e:
        ref = ("raise", str(e))
    tol = 64 * EPS * (depth + 1)
    base = f"C05|state|how={how}"
    for label, other in (("evaluator", lib), ("refparser", ref)):
        if other[0] == "raise":
            if u.base_offset or "lat" in str(u.expr):
                continue  # affine units in compounds have no scale-only reading
            ctx.violation(base + f"|vs={label}|mode=expr-not-evaluable", case, (sc, dim), other)
        elif other[1] != dim:
            ctx.violation(base + f"|vs={label}|mode=dimension-desynchronised", case, other, (sc, dim))
        elif rel(other[0], sc) > tol:
            ctx.violation(base + f"|vs={label}|mode=scale-desynchronised", case, other, (sc, dim))


def units_of(names, reg_default_cache={}):
    out = []
    r = reg_default_cache.setdefault("r", custom_registry())
    for n in names:
        out.append((n, Unit(n, registry=r)))
    return out


def part_pairs(ctx, shard):
    """all ordered pairs (u, v): transitions u*v, u/v; laws commutativity, inverse, homomorphism, symmetry."""
    world.reset_world()
    all_units = units_of(ALL_NAMES)
    for n1 in shard:
        u = dict(all_units)[n1]
        for n2, v in all_units:
            ctx.count("evaluations")
            ctx.count("transitions", 4)
            case = {"part": "pair", "u": n1, "v": n2}
            cls = f"u={uclass(n1)}|v={uclass(n2)}"
            uv = attempt(lambda: u * v)
            vu = attempt(lambda: v * u)
            ud = attempt(lambda: u / v)
            ctx.decided(("pair", n1, n2))
            # == / != are decided by scale, offset and dimension only (and by nothing looser)
            if u.registry is v.registry:
                (s1, d1, o1), (s2, d2, o2) = triple(u), triple(v)
                same = d1 == d2 and rel(s1, s2) <= 1e-12 and rel(o1, o2) <= 1e-12
                differ = d1 != d2 or rel(s1, s2) > 1e-6 or rel(o1, o2) > 1e-6
                eq, ne = attempt(lambda: bool(u == v)), attempt(lambda: bool(u != v))
                if eq[0] != "ok" or ne[0] != "ok":
                    ctx.violation(f"C05|law=equality|{cls}|mode=escaped-exception", case, None, (eq, ne))
                elif same and (not eq[1] or ne[1]):
                    ctx.violation(f"C05|law=equality|{cls}|mode=equal-units-compare-unequal", case, True, (eq[1], ne[1]))
                elif differ and (eq[1] or not ne[1]):
                    ctx.violation(f"C05|law=equality|{cls}|mode=different-units-compare-equal", case, (triple(u), triple(v)), (eq[1], ne[1]))
                elif eq[1] == ne[1]:
                    ctx.violation(f"C05|law=equality|{cls}|mode=eq-and-ne-agree", case, None, (eq[1], ne[1]))
            if (uv[0] == "ok") != (vu[0] == "ok"):
                ctx.violation(f"C05|law=commutativity|{cls}|mode=asymmetric-refusal", case, uv[:1], vu[:1])
            if uv[0] == "error" or ud[0] == "error":
                ctx.violation(f"C05|law=closure|{cls}|mode=escaped-exception:{(uv if uv[0]=='error' else ud)[1]}", case, None, None)
            if uv[0] == "ok":
                p = uv[1]
                check_state(ctx, p, "mul", case, 1)
                (s1, d1, _o1), (s2, d2, _o2) = triple(u), triple(v)
                sp, dp, _ = triple(p)
                if dp != d1 * d2 or rel(sp, s1 * s2) > 4 * EPS:
                    ctx.violation(f"C05|law=homomorphism-mul|{cls}|mode=wrong-scale-or-dimension", case, (s1 * s2, d1 * d2), (sp, dp))
                if vu[0] == "ok":
                    q = vu[1]
                    if not (p == q) or triple(p)[1] != triple(q)[1] or rel(triple(p)[0], triple(q)[0]) > 4 * EPS:
                        ctx.violation(f"C05|law=commutativity|{cls}|mode=not-equal", case, triple(p), triple(q))
                    if hash(p) != hash(q) and p.registry is q.registry:
                        ctx.violation(f"C05|law=commutativity|{cls}|mode=hash-differs", case, str(p.expr), str(q.expr))
            if ud[0] == "ok":
                p = ud[1]
                check_state(ctx, p, "div", case, 1)
                (s1, d1, _o1), (s2, d2, _o2) = triple(u), triple(v)
                sp, dp, _ = triple(p)
                if dp != d1 / d2 or rel(sp, s1 / s2) > 4 * EPS:
                    ctx.violation(f"C05|law=homomorphism-div|{cls}|mode=wrong-scale-or-dimension", case, (s1 / s2, d1 / d2), (sp, dp))
                # (u/v)*v == u
                back = attempt(lambda: p * v)
                if back[0] == "ok" and not v.base_offset and not u.base_offset:
                    sb, db, _ = triple(back[1])
                    if db != d1 or rel(sb, s1) > 8 * EPS or not (back[1] == u):
                        ctx.violation(f"C05|law=inverse|{cls}|mode=div-then-mul-not-identity", case, triple(u), triple(back[1]))
                    elif str(back[1].expr) == str(u.expr) and back[1].registry is u.registry and hash(back[1]) != hash(u):
                        # the same expression reached by another algebraic route: equal units hash equally (dict / lru keys)
                        ctx.violation(f"C05|law=hash|{cls}|mode=equal-units-with-equal-expression-hash-differently", case, repr(float(u.base_value)), repr(float(back[1].base_value)))
            if uv[0] == "ok" and not v.base_offset and not u.base_offset:
                back = attempt(lambda: uv[1] / v)
                if back[0] == "ok" and back[1] == u and str(back[1].expr) == str(u.expr) and back[1].registry is u.registry and hash(back[1]) != hash(u):
                    ctx.violation(f"C05|law=hash|{cls}|mode=equal-units-with-equal-expression-hash-differently", case, repr(float(u.base_value)), repr(float(back[1].base_value)))
        # identity and self-inverse
        one = Unit(registry=u.registry)
        case = {"part": "pair", "u": n1, "v": "1"}
        # as_coeff_unit denotes the same unit: coefficient x returned unit = u, zero point included
        r = attempt(lambda: u.as_coeff_unit())
        if r[0] == "ok":
            c, cu = r[1]
            (s0_, d0_, o0_), (s1_, d1_, o1_) = triple(u), triple(cu)
            if d0_ != d1_ or rel(float(c) * s1_, s0_) > 8 * EPS or rel(o0_, o1_) > 8 * EPS:
                ctx.violation(f"C05|law=as_coeff_unit|u={uclass(n1)}|offset={int(bool(o0_))}|mode=coefficient-times-unit-differs", case, triple(u), (float(c), triple(cu)))
        elif r[0] == "error":
            ctx.violation(f"C05|law=as_coeff_unit|u={uclass(n1)}|mode=escaped-exception:{r[1]}", case, None, None)
        r = attempt(lambda: u * one)
        if r[0] == "ok" and not (r[1] == u and triple(r[1])[:2] == triple(u)[:2]):
            ctx.violation(f"C05|law=identity|u={uclass(n1)}|mode=not-identity", case, triple(u), triple(r[1]))
        r = attempt(lambda: u * u**-1)
        if r[0] == "ok":
            s, d, _ = triple(r[1])
            if not d.dimensionless or rel(s, 1.0) > 4 * EPS or not r[1].is_dimensionless:
                ctx.violation(f"C05|law=inverse|u={uclass(n1)}|mode=u-times-inverse-not-one", case, 1.0, (s, d))
        r = attempt(lambda: u / u)
        if r[0] == "ok":
            s, d, _ = triple(r[1])
            if not d.dimensionless or rel(s, 1.0) > 4 * EPS:
                ctx.violation(f"C05|law=inverse|u={uclass(n1)}|mode=u-over-u-not-one", case, 1.0, (s, d))
    ctx.sample({"pairs_of": shard[:3]})


def part_powers(ctx, shard):
    """u**p for every unit and exponent; (u**p)**q == u**(p*q); simplify/as_coeff_unit; copy; hash."""
    world.reset_world()
    all_units = dict(units_of(ALL_NAMES))
    for n in shard:
        u = all_units[n]
        s0, d0, o0 = triple(u)
        for p in EXPS:
            ctx.count("evaluations")
            ctx.count("transitions", 2)
            case = {"part": "power", "u": n, "p": str(p)}
            r = attempt(lambda: u**p)
            ctx.decided(("pow", n, str(p)))
            pk = f"u={uclass(n)}|p={p}"
            if r[0] == "error":
                ctx.violation(f"C05|law=closure|{pk}|mode=escaped-exception:{r[1]}", case, None, None)
                continue
            if r[0] != "ok":
                ctx.count("refused")
                continue
            w = r[1]
            check_state(ctx, w, "pow", case, 1)
            q = want_pow(p)
            s, d, _ = triple(w)
            if s0 > 0:
                want = s0 ** int(q) if q.denominator == 1 else math.pow(s0, float(q))
                if d != d0**q or rel(s, want) > 16 * EPS:
                    ctx.violation(f"C05|law=homomorphism-pow|{pk}|mode=wrong-scale-or-dimension", case, (want, d0**q), (s, d))
            for p2 in EXPS:
                ctx.count("transitions", 2)
                a = attempt(lambda: w**p2)
                b = attempt(lambda: u ** (want_pow(p) * want_pow(p2)))
                if a[0] == "ok" and b[0] == "ok":
                    ctx.decided(("powpow", n, str(p), str(p2)))
                    (sa, da, _), (sb, db, _) = triple(a[1]), triple(b[1])
                    if da != db or rel(sa, sb) > 64 * EPS or not (a[1] == b[1]):
                        ctx.violation(
                            f"C05|law=power-of-power|u={uclass(n)}|mode=not-equal",
                            {"part": "power", "u": n, "p": str(p), "q": str(p2)}, (sb, db), (sa, da),
                        )
                    elif str(a[1].expr) != str(b[1].expr):
                        ctx.violation(
                            f"C05|law=power-of-power|u={uclass(n)}|mode=expr-differs",
                            {"part": "power", "u": n, "p": str(p), "q": str(p2)}, str(b[1].expr), str(a[1].expr),
                        )
        # copy, hash
        c = attempt(lambda: u.copy())
        if c[0] == "ok":
            if not (c[1] == u) or triple(c[1]) != triple(u):
                ctx.violation(f"C05|law=copy|u={uclass(n)}|mode=copy-differs", {"part": "power", "u": n, "p": "copy"}, triple(u), triple(c[1]))
        twice = attempt(lambda: Unit(str(u.expr), registry=u.registry))
        if twice[0] == "ok" and hash(twice[1]) != hash(u):
            ctx.violation(f"C05|law=hash|u={uclass(n)}|mode=same-expression-hashes-differently", {"part": "power", "u": n, "p": "hash"}, None, None)
    ctx.sample({"powers_of": shard[:3], "exponents": [str(e) for e in EXPS]})


COEFF_BUILDS = {
    "km*s/m": lambda U: (U("km") * U("s") / U("m")),
    "km/m": lambda U: U("km") / U("m"),
    "cm*km": lambda U: U("cm") * U("km"),
    "hr*km/s": lambda U: U("hr") * U("km") / U("s"),
    "mile/inch*g": lambda U: U("mile") / U("inch") * U("g"),
    "3*m(string)": lambda U: U("3*m"),
    "1000*s(string)": lambda U: U("1000*s"),
}


def part_coefficients(ctx, shard):
    """units that carry a NUMERIC coefficient after simplify() (km*s/m -> 1000*s): powers, roots, products and a second
    simplify stay inside the algebra - the scale is the scale of the unsimplified route, nothing escapes"""
    world.reset_world()
    U = lambda n: Unit(n)  # noqa: E731
    for name in shard:
        base = attempt(lambda: COEFF_BUILDS[name](U))
        if base[0] != "ok":
            continue
        raw = base[1]
        simp = attempt(lambda: COEFF_BUILDS[name](U).simplify())
        if simp[0] != "ok":
            ctx.violation(f"C05|law=coefficient|u={name}|op=simplify|mode=escaped-exception:{simp[1]}", {"part": "coeff", "u": name, "op": "simplify"}, None, None)
            continue
        u = simp[1]
        s0, d0, _ = triple(raw)
        for p in (Fraction(1, 2), Fraction(1, 3), Fraction(3, 2), 2, -1, Fraction(-1, 2), 0.5, 1.5):
            for opname, f in (("pow", lambda: u**p), ("pow-simplify", lambda: (u**p).simplify()), ("pow-simplify-twice", lambda: (u**p).simplify().simplify()),
                              ("pow-times-m", lambda: ((u**p) * Unit("m")).simplify()), ("pow-as_coeff_unit", lambda: (u**p).as_coeff_unit()),
                              ("quantity-power", lambda: unyt_quantity(4.0, u) ** float(p)), ("quantity-power-times", lambda: (unyt_quantity(4.0, u) ** float(p)) * unyt_quantity(3.0, "m"))):
                ctx.count("evaluations")
                ctx.count("transitions")
                r = attempt(f)
                case = {"part": "coeff", "u": name, "p": str(p), "op": opname}
                ctx.decided(("coeff", name, str(p), opname))
                if r[0] != "ok":
                    ctx.violation(f"C05|law=coefficient|u={name}|op={opname}|mode=escaped-exception:{r[1]}", case, "a unit", r[1])
                    continue
                w = r[1]
                mfac = 1.0
                if opname == "pow-as_coeff_unit":
                    sc, dd = float(w[0]) * float(w[1].base_value), triple(w[1])[1]
                elif opname.startswith("quantity"):
                    # the product may move a factor between the number and the unit: judge the quantity as a whole
                    sc, dd = float(w.d) * float(w.units.base_value), triple(w.units)[1]
                    mfac = math.pow(4.0, float(p)) * (3.0 if "times" in opname else 1.0)
                else:
                    sc, dd, _ = triple(w)
                wd = d0 ** want_pow(p)
                if "times" in opname:
                    wd = wd * triple(Unit("m"))[1]
                want = math.pow(s0, float(p)) * mfac
                if dd != wd or rel(float(sc), want) > 64 * EPS:
                    ctx.violation(f"C05|law=coefficient|u={name}|op={opname}|mode=wrong-scale-or-dimension", case, (want, str(wd)), (float(sc), str(dd)))


def part_triples(ctx, shard):
    """associativity and distributivity of powers over a small alphabet; simplify / as_coeff_unit."""
    world.reset_world()
    units = dict(units_of(SMALL_NAMES))
    for n1 in shard:
        a = units[n1]
        for n2, n3 in itertools.product(SMALL_NAMES, SMALL_NAMES):
            regs = {n.startswith("code_") for n in (n1, n2, n3)}
            b, c = units[n2], units[n3]
            ctx.count("evaluations")
            ctx.count("transitions", 8)
            case = {"part": "triple", "u": n1, "v": n2, "w": n3}
            l = attempt(lambda: (a * b) * c)
            r = attempt(lambda: a * (b * c))
            ctx.decided(("assoc", n1, n2, n3))
            if l[0] == "ok" and r[0] == "ok":
                (sl, dl, _), (sr, dr, _) = triple(l[1]), triple(r[1])
                if dl != dr or rel(sl, sr) > 8 * EPS or not (l[1] == r[1]):
                    ctx.violation("C05|law=associativity|mode=not-equal", case, (sl, dl), (sr, dr))
                check_state(ctx, l[1], "mulmul", case, 2)
            l = attempt(lambda: (a / b) / c)
            r = attempt(lambda: a / (b * c))
            if l[0] == "ok" and r[0] == "ok":
                (sl, dl, _), (sr, dr, _) = triple(l[1]), triple(r[1])
                if dl != dr or rel(sl, sr) > 8 * EPS or not (l[1] == r[1]):
                    ctx.violation("C05|law=associativity-div|mode=not-equal", case, (sl, dl), (sr, dr))
                check_state(ctx, l[1], "divdiv", case, 2)
        for n2 in SMALL_NAMES:
            b = units[n2]
            for p in EXPS:
                ctx.count("transitions", 4)
                case = {"part": "triple", "u": n1, "v": n2, "p": str(p)}
                l = attempt(lambda: (a * b) ** p)
                r = attempt(lambda: a**p * b**p)
                if l[0] == "ok" and r[0] == "ok":
                    ctx.decided(("distpow", n1, n2, str(p)))
                    (sl, dl, _), (sr, dr, _) = triple(l[1]), triple(r[1])
                    if dl != dr or rel(sl, sr) > 64 * EPS or not (l[1] == r[1]):
                        ctx.violation(f"C05|law=power-distributes|p={p}|mode=not-equal", case, (sl, dl), (sr, dr))
                    check_state(ctx, l[1], "mulpow", case, 2)
            # simplify / as_coeff_unit denote the same unit
            for how, f in (("mul", lambda: a * b), ("div", lambda: a / b), ("sq_over", lambda: a * a / b)):
                x = attempt(f)
                if x[0] != "ok":
                    continue
                orig = triple(x[1])
                case = {"part": "triple", "u": n1, "v": n2, "how": how}
                def _hashed_then_simplified():
                    xc = Unit(x[1].expr, x[1].base_value, x[1].base_offset, x[1].dimensions, x[1].registry)
                    hash(xc)  # used as a dict / lru key first (every ufunc does this), then simplified in place
                    return xc.simplify()

                s = attempt(_hashed_then_simplified)
                ctx.count("transitions", 2)
                if s[0] == "error":
                    ctx.violation(f"C05|law=simplify|how={how}|mode=escaped-exception:{s[1]}", case, None, None)
                    continue
                if s[0] != "ok":
                    continue
                ctx.decided(("simplify", n1, n2, how))
                su = s[1]
                # the simplified unit hashes like any other unit with that expression in that registry
                fresh = attempt(lambda: Unit(str(su.expr), registry=su.registry))
                if fresh[0] == "ok" and str(fresh[1].expr) == str(su.expr) and fresh[1] == su and hash(fresh[1]) != hash(su):
                    ctx.violation(f"C05|law=hash|how={how}|mode=simplified-unit-keeps-the-hash-of-its-old-expression", case, str(su.expr), None)
                if triple(su)[:2] != orig[:2]:
                    ctx.violation(f"C05|law=simplify|how={how}|mode=value-changed", case, orig, triple(su))
                check_state(ctx, su, "simplify", case, 2)
                cu = attempt(lambda: su.as_coeff_unit())
                if cu[0] == "ok":
                    coeff, unit = cu[1]
                    s2, d2, _ = triple(unit)
                    if d2 != orig[1] or rel(coeff * s2, orig[0]) > 16 * EPS:
                        ctx.violation(f"C05|law=as_coeff_unit|how={how}|mode=coefficient-times-unit-differs", case, orig, (coeff, s2, d2))
                    check_state(ctx, unit, "as_coeff_unit", case, 2)
                elif cu[0] == "error":
                    ctx.violation(f"C05|law=as_coeff_unit|how={how}|mode=escaped-exception:{cu[1]}", case, None, None)
    ctx.sample({"triples_of": shard[:2], "alphabet": SMALL_NAMES})


CROSS_NAMES = ["code_length", "code_mass", "code_time", "code_velocity", "m", "km", "s", "g", "dimensionless", "percent"]


def cross_units():
    """the same symbols in registries that define them differently, and units that predate an edit of their own registry."""
    ra, rb = custom_registry(), custom_registry()
    rb.modify("code_length", 9.6)  # 3 x registry a
    rb.modify("code_mass", 16.0)  # 1/4 x
    rb.modify("code_time", 0.125)  # same
    rb.modify("code_velocity", 12.8)
    rc = custom_registry()
    old = {n: Unit(n, registry=rc) for n in CROSS_NAMES}
    rc.modify("code_length", 1.6)
    rc.modify("code_mass", 256.0)
    rc.modify("code_velocity", 51.2)
    out = []
    for n in CROSS_NAMES:
        out.append((n + "@a", Unit(n, registry=ra)))
        out.append((n + "@b", Unit(n, registry=rb)))
        out.append((n + "@c-old", old[n]))
        out.append((n + "@c-new", Unit(n, registry=rc)))
    return out


def part_cross(ctx, shard):
    """* and / between units whose symbols coincide but whose definitions differ (other registry, or the same registry
    before and after modify): the scale of the result is the product / quotient of the scales whatever the symbols do."""
    world.reset_world()
    allu = cross_units()
    byname = dict(allu)
    for n1 in shard:
        u = byname[n1]
        for n2, v in allu:
            ctx.count("evaluations")
            ctx.count("transitions", 5)
            case = {"part": "cross", "u": n1, "v": n2}
            cls = f"u={n1.split('@')[1]}|v={n2.split('@')[1]}"
            (s1, d1, _), (s2, d2, _) = triple(u), triple(v)
            uv, ud, uinv = attempt(lambda: u * v), attempt(lambda: u / v), attempt(lambda: u * v**-1)
            ctx.decided(("cross", n1, n2))
            for nm, r in (("mul", uv), ("div", ud), ("mul-inverse", uinv)):
                if r[0] == "error":
                    ctx.violation(f"C05|cross|{cls}|op={nm}|mode=escaped-exception:{r[1]}", case, None, None)
            if uv[0] == "ok":
                sp, dp, _ = triple(uv[1])
                ctx.outcome(("cross-mul", str(uv[1].expr), round(math.log2(sp), 6)))
                if dp != d1 * d2 or rel(sp, s1 * s2) > 4 * EPS:
                    ctx.violation(f"C05|cross|{cls}|law=homomorphism-mul|mode=wrong-scale-or-dimension", case, (s1 * s2, d1 * d2), (sp, dp))
                vu = attempt(lambda: v * u)
                if vu[0] == "ok" and (triple(vu[1])[1] != dp or rel(triple(vu[1])[0], sp) > 4 * EPS):
                    ctx.violation(f"C05|cross|{cls}|law=commutativity|mode=not-equal", case, (sp, dp), triple(vu[1]))
                back = attempt(lambda: uv[1] / v)
                if back[0] == "ok" and (triple(back[1])[1] != d1 or rel(triple(back[1])[0], s1) > 8 * EPS):
                    ctx.violation(f"C05|cross|{cls}|law=inverse|mode=mul-then-div-not-identity", case, (s1, d1), triple(back[1]))
            if ud[0] == "ok":
                sp, dp, _ = triple(ud[1])
                ctx.outcome(("cross-div", str(ud[1].expr), round(math.log2(sp), 6)))
                if dp != d1 / d2 or rel(sp, s1 / s2) > 4 * EPS:
                    ctx.violation(f"C05|cross|{cls}|law=homomorphism-div|mode=wrong-scale-or-dimension", case, (s1 / s2, d1 / d2), (sp, dp))
                if uinv[0] == "ok" and (triple(uinv[1])[1] != dp or rel(triple(uinv[1])[0], sp) > 8 * EPS):
                    ctx.violation(f"C05|cross|{cls}|law=div-is-mul-inverse|mode=not-equal", case, (sp, dp), triple(uinv[1]))
                back = attempt(lambda: ud[1] * v)
                if back[0] == "ok" and (triple(back[1])[1] != d1 or rel(triple(back[1])[0], s1) > 8 * EPS):
                    ctx.violation(f"C05|cross|{cls}|law=inverse|mode=div-then-mul-not-identity", case, (s1, d1), triple(back[1]))
                # the quotient as an operand: x * q, x / q for every x (the quotient may print as 1 and still have a scale)
                q = ud[1]
                for n3, x in allu[::4]:
                    ctx.count("transitions", 2)
                    s3, d3, _ = triple(x)
                    for nm, f, ws, wd in (("x*q", lambda: x * q, s3 * sp, d3 * dp), ("x/q", lambda: x / q, s3 / sp, d3 / dp),
                                          ("q*x", lambda: q * x, s3 * sp, d3 * dp), ("q/x", lambda: q / x, sp / s3, dp / d3)):
                        r = attempt(f)
                        if r[0] == "error":
                            ctx.violation(f"C05|cross|{cls}|op={nm}|mode=escaped-exception:{r[1]}", dict(case, x=n3), None, None)
                        elif r[0] == "ok" and (triple(r[1])[1] != wd or rel(triple(r[1])[0], ws) > 8 * EPS):
                            ctx.violation(f"C05|cross|{cls}|op={nm}|law=homomorphism|mode=wrong-scale-or-dimension", dict(case, x=n3), (ws, wd), triple(r[1])[:2])
            for p in (2, -1, Fraction(1, 2)):
                r = attempt(lambda: (u / v) ** p) if ud[0] == "ok" else ("skip",)
                if r[0] == "ok":
                    wd, ws = (d1 / d2) ** p, (s1 / s2) ** float(p)
                    if triple(r[1])[1] != wd or rel(triple(r[1])[0], ws) > 16 * EPS:
                        ctx.violation(f"C05|cross|{cls}|law=homomorphism-pow|p={p}|mode=wrong-scale-or-dimension", case, (ws, wd), triple(r[1])[:2])
    ctx.sample({"cross_of": shard[:3]})


EQUAL_FAMILIES = [
    ["J", "N*m", "kg*m**2/s**2", "W*s", "Pa*m**3", "C*V", "1e7*erg"],
    ["W", "J/s", "V*A", "kg*m**2/s**3"],
    ["Pa", "N/m**2", "kg/(m*s**2)", "J/m**3"],
    ["Hz", "1/s", "s**-1"],
    ["ohm", "V/A", "kg*m**2/(A**2*s**3)"],
    ["T", "Wb/m**2", "kg/(A*s**2)", "V*s/m**2"],
    ["km", "1000*m", "1e5*cm"],
    ["dyn", "g*cm/s**2", "1e-5*N"],
    ["erg", "g*cm**2/s**2", "dyn*cm"],
    ["mph", "mile/hr"],
    ["L", "dm**3", "1000*cm**3"],
]


def part_equality(ctx, shard):
    for fam in shard:
        us = [Unit(s) for s in fam]
        for (s1, a), (s2, b) in itertools.product(zip(fam, us), zip(fam, us)):
            ctx.count("evaluations")
            ctx.decided(("eq", s1, s2))
            if not (a == b) or (a != b):
                ctx.violation("C05|law=equality|mode=equal-units-compare-unequal", {"part": "equality", "a": s1, "b": s2}, True, False)
        for s, a in zip(fam, us):
            b = Unit(s)
            if hash(a) != hash(b):
                ctx.violation("C05|law=hash|mode=same-expression-hashes-differently", {"part": "equality", "a": s, "b": s}, None, None)
    # unequal by scale, offset or dimension
    for s1, s2 in [("m", "cm"), ("K", "degC"), ("J", "N"), ("degC", "delta_degC"), ("rad", "degree"), ("m", "s")]:
        ctx.count("evaluations")
        if Unit(s1) == Unit(s2):
            ctx.violation("C05|law=equality|mode=different-units-compare-equal", {"part": "equality", "a": s1, "b": s2}, False, True)


ALL_NAMES = list(default_unit_symbol_lut) + PREFIXED + ["code_length", "code_mass", "code_time", "code_velocity", "code_magnetic", "code_temperature"]
SMALL_NAMES = SMALL


def run(ctx):
    harness.pmap(ctx, part_pairs, [ALL_NAMES[i : i + 6] for i in range(0, len(ALL_NAMES), 6)])
    harness.pmap(ctx, part_powers, [ALL_NAMES[i : i + 6] for i in range(0, len(ALL_NAMES), 6)])
    harness.pmap(ctx, part_triples, [[n] for n in SMALL_NAMES])
    harness.pmap(ctx, part_coefficients, [[n] for n in COEFF_BUILDS])
    cn = [n for n, _ in cross_units()]
    harness.pmap(ctx, part_cross, [cn[i : i + 3] for i in range(0, len(cn), 3)])
    part_equality(ctx, EQUAL_FAMILIES)
    return {
        "coverage": {
            "rule": "closure from all atomic, 20 prefixed and 6 custom-registry units: every ordered pair under * and /, "
            "every unit under 16 exponents and every exponent pair, every triple of a 20-unit alphabet under "
            "association, power distribution, simplify and as_coeff_unit; states = distinct reached units "
            "(registry, expr, scale, dimension), each checked for agreement of its three representations",
            "axes": {"units": len(ALL_NAMES), "exponents": [str(e) for e in EXPS], "triple_alphabet": SMALL_NAMES,
                     "equal_families": len(EQUAL_FAMILIES),
                     "cross_registry_units": len(cn), "cross_rule": "10 symbols x {registry a, registry b with other scales, registry c before modify, c after}: all ordered pairs under *, /, *inverse, powers of the quotient, and each quotient as an operand of 10 further units"},
        },
        "assumptions": ["law instances in which either side refuses (offset, logarithmic units) are skipped; refusal must be symmetric"],
    }


def replay(case):
    ctx = harness.Ctx(PROPERTY, "quick", 0)
    part = case["part"]
    if part == "pair":
        part_pairs(ctx, [case["u"]])
    elif part == "power":
        part_powers(ctx, [case["u"]])
    elif part == "triple":
        part_triples(ctx, [case["u"]])
    elif part == "cross":
        part_cross(ctx, [case["u"]])
    elif part == "coeff":
        part_coefficients(ctx, [case["u"]])
    else:
        part_equality(ctx, EQUAL_FAMILIES)
    return list(ctx.violations.items())
