"""C16  Scalars are quantities, arrays are arrays, views stay attached to their data.

Four exhaustive product enumerations on the real code, NumPy on the bare data being the reference for shapes,
values and memory sharing:
  index      every shape x every index form of a generated menu (ints, slices, Ellipsis, newaxis, boolean masks,
             fancy lists, tuples of those) to depth 2 (index of an index), iteration
  access     every unit-stripping accessor, converting call and reshaping method on base arrays and on views
  construct  every constructor route x shape x dtype
  results    every unit-carrying result leaf of every catalogue template and of every ufunc x call form
Class rule (from the statement): shape () -> unyt_quantity; more than one element -> unyt_array, never a quantity.
Size-<=1 non-scalar shapes are recorded, not judged.
"""

import itertools

import numpy as np

from mc import harness, world
from mc.catalog import core, run as R

PROPERTY = "C16"

import unyt
from unyt import unyt_array, unyt_quantity
from unyt.unit_object import Unit

SHAPES = [(), (1,), (1, 1), (0,), (2,), (2, 3), (1, 3), (2, 1, 3), (0, 3)]
DTYPES = ["float64", "int64", "float32"]


def data_for(shape, dtype):
    n = int(np.prod(shape)) if shape else 1
    x = (np.arange(n, dtype=np.float64) * 1.5 - 2.0).reshape(shape)
    return x.astype(dtype)


def class_rule(obj):
    """None if fine, else a failure mode.  obj: a unyt result."""
    if not isinstance(obj, unyt_array):
        return None
    if obj.shape == () and not isinstance(obj, unyt_quantity):
        return "zero-d-result-is-not-a-quantity"
    if obj.size > 1 and isinstance(obj, unyt_quantity):
        return "multi-element-quantity"
    return None


# ---- part 1: indexing -----------------------------------------------------------------------------------
def index_menu(shape):
    """finite menu of index expressions for an array of this shape, with a class label for each"""
    out = []
    nd = len(shape)
    out.append(("ellipsis", Ellipsis))
    out.append(("newaxis", None))
    out.append(("empty-tuple", ()))
    if nd == 0:
        out.append(("bool-scalar", True))
        out.append(("bool0d", np.array(True)))
        return out
    n0 = shape[0]
    ints = sorted({0, n0 - 1, -1, -n0}) if n0 else [0]
    for i in ints:
        out.append(("int", i))
        out.append(("npint", np.int64(i)))
    for sl in (slice(None), slice(0, 1), slice(1, None), slice(None, None, 2), slice(None, None, -1), slice(0, 0), slice(-1, None)):
        out.append(("slice", sl))
    out.append(("ellipsis-int", (Ellipsis, 0)))
    out.append(("newaxis-slice", (None, slice(None))))
    out.append(("slice-newaxis", (slice(None), None)))
    # boolean masks over the first axis and over the whole array
    for lab, m in (("all", np.ones(n0, bool)), ("none", np.zeros(n0, bool)), ("mixed", (np.arange(n0) % 2 == 0))):
        out.append(("boolmask-" + lab, m))
    full = np.arange(int(np.prod(shape))).reshape(shape) % 2 == 0
    out.append(("boolmask-full", full))
    # integer fancy lists
    if n0:
        out.append(("fancy-list", [0, n0 - 1]))
        out.append(("fancy-array", np.array([n0 - 1, 0, 0])))
        out.append(("fancy-1elem", [0]))
        out.append(("fancy-empty", np.array([], dtype=int)))
    if nd >= 2:
        n1 = shape[1]
        for i in ints[:2]:
            out.append(("tuple-int-int", (i, 0 if n1 else 0)))
            out.append(("tuple-int-slice", (i, slice(None))))
            out.append(("tuple-slice-int", (slice(None), 0)))
        out.append(("tuple-slice-slice", (slice(0, 1), slice(0, 1))))
        out.append(("tuple-slice-step", (slice(None, None, -1), slice(None, None, 2))))
        out.append(("tuple-int-newaxis", (0, None)))
        out.append(("tuple-ellipsis-slice", (Ellipsis, slice(0, 1))))
        if n0 and n1:
            out.append(("tuple-fancy-fancy", ([0, n0 - 1], [0, n1 - 1])))
            out.append(("tuple-fancy-slice", ([0], slice(None))))
            out.append(("tuple-int-fancy", (0, [0, n1 - 1])))
    if nd >= 3:
        out.append(("tuple-int-int-int", (0, 0, 0)))
        out.append(("tuple-slice-int-slice", (slice(None), 0, slice(1, None))))
    return out


def try_index(x, idx):
    try:
        return ("ok", x[idx])
    except Exception as e:  # noqa: BLE001
        return ("raise", type(e).__name__)


def check_indexed(ctx, base, r, b, root, rootdata, a_units, case):
    """r: unyt result, b: bare reference result, root/rootdata: the arrays the memory must (not) be shared with"""
    if not isinstance(r, unyt_array):
        ctx.violation(base + "|mode=units-dropped", case, "unyt object", type(r).__name__)
        return False
    bb = np.asarray(b)
    if r.shape != bb.shape:
        ctx.violation(base + "|mode=wrong-shape", case, list(bb.shape), list(r.shape))
        return False
    if not np.array_equal(np.asarray(r.d), bb):
        ctx.violation(base + "|mode=wrong-values", case, bb.tolist(), np.asarray(r.d).tolist())
    m = class_rule(r)
    if m:
        ctx.violation(base + "|mode=" + m, case, None, type(r).__name__)
    if r.shape != () and r.size <= 1:
        ctx.note_set("size-le-1 class", f"{case.get('shape')}|{case.get('idx')}|{r.shape}|{type(r).__name__}")
    if r.units != a_units or str(r.units.expr) != str(a_units.expr):
        ctx.violation(base + "|mode=unit-changed", case, str(a_units), str(r.units))
    if getattr(r, "name", None) != "nm":
        ctx.violation(base + "|mode=name-lost", case, "nm", getattr(r, "name", None))
    if isinstance(b, np.ndarray):
        want = bool(np.shares_memory(b, rootdata))
        got = bool(np.shares_memory(r, root))
        if want != got:
            ctx.violation(base + ("|mode=view-detached-from-parent" if want else "|mode=copy-shares-memory"), case, want, got)
    return True


def part_index(ctx, shard):
    world.reset_world()
    for shape, dtype in shard:
        data = data_for(shape, dtype)
        if shape == ():
            a = unyt_quantity(data[()], "m", name="nm")
        else:
            a = unyt_array(data.copy(), "m", name="nm")
        _index_body(ctx, a, shape, dtype, "")
        if shape != () and data.size == 1:
            # a one-element quantity that kept its dimensions (the constructor accepts any single-element array)
            _index_body(ctx, unyt_quantity(data.copy(), "m", name="nm"), shape, dtype, "|parent=quantity")


def _index_body(ctx, a, shape, dtype, ptag):
    if True:
        d = np.asarray(a.d)
        au = a.units
        menu = index_menu(shape)
        for lab, idx in menu:
            ctx.count("evaluations")
            case = {"part": "index", "shape": list(shape), "dtype": dtype, "idx": lab}
            base = f"C16|index|shape={shape}|idx={lab}".replace(" ", "") + ptag
            ru, rb = try_index(a, idx), try_index(d, idx)
            ctx.outcome(("index", shape, lab, ru[0], rb[0], type(ru[1]).__name__))
            if rb[0] == "raise":
                if ru[0] == "ok":
                    ctx.violation(base + "|mode=returns-where-numpy-raises", case, rb[1], repr(ru[1])[:80])
                continue
            if ru[0] == "raise":
                ctx.violation(base + f"|mode=raises:{ru[1]}", case, "value", ru[1])
                continue
            ctx.decided(("index", shape, dtype, lab))
            if not check_indexed(ctx, base, ru[1], rb[1], a, d, au, case):
                continue
            # depth 2: index of the indexed result (views of views stay attached to the root parent)
            r1, b1 = ru[1], np.asarray(rb[1]) if not isinstance(rb[1], np.ndarray) else rb[1]
            if not isinstance(rb[1], np.ndarray):
                continue
            for lab2, idx2 in index_menu(r1.shape)[:18]:
                ctx.count("evaluations")
                r2, b2 = try_index(r1, idx2), try_index(b1, idx2)
                if b2[0] == "raise" or r2[0] == "raise":
                    if b2[0] != r2[0] and r2[0] == "raise":
                        ctx.violation(base + f"|idx2={lab2}|mode=raises:{r2[1]}", dict(case, idx2=lab2), "value", r2[1])
                    continue
                ctx.decided(("index2", shape, dtype, lab, lab2))
                check_indexed(ctx, base + f"|idx2={lab2}", r2[1], b2[1], a, d, au, dict(case, idx2=lab2))
        # iteration
        if len(shape) >= 1:
            ctx.count("evaluations")
            case = {"part": "index", "shape": list(shape), "dtype": dtype, "idx": "iter"}
            base = f"C16|index|shape={shape}|idx=iter".replace(" ", "")
            items = list(iter(a))
            if len(items) != len(d):
                ctx.violation(base + "|mode=wrong-length", case, len(d), len(items))
            for it, bi in zip(items, d):
                check_indexed(ctx, base, it, bi, a, d, au, case)


# ---- part 2: accessors, converting calls, reshaping methods ---------------------------------------------------
ACCESS_SHARE = {
    "d": lambda a: a.d,
    "ndview": lambda a: a.ndview,
    "ndarray_view()": lambda a: a.ndarray_view(),
}
ACCESS_COPY = {
    "v": lambda a: a.v,
    "value": lambda a: a.value,
    "to_ndarray()": lambda a: a.to_ndarray(),
    "to_value()": lambda a: a.to_value(),
    "to_value(same)": lambda a: a.to_value(a.units),
    "to_value(cm)": lambda a: a.to_value("cm"),
}
COPY_Q = {
    "copy()": lambda a: a.copy(),
    "to(same)": lambda a: a.to(a.units),
    "to(same-str)": lambda a: a.to(str(a.units)),
    "to(cm)": lambda a: a.to("cm"),
    "in_units(same)": lambda a: a.in_units(a.units),
    "in_units(km)": lambda a: a.in_units("km"),
    "in_base()": lambda a: a.in_base(),
    "in_base(cgs)": lambda a: a.in_base("cgs"),
    "in_cgs()": lambda a: a.in_cgs(),
    "in_mks()": lambda a: a.in_mks(),
    "to_equivalent(same)": lambda a: a.to_equivalent("m", "spectral"),
    "unary+": lambda a: +a,
    "a*1": lambda a: a * 1,
    "astype": lambda a: a.astype(a.dtype),
    "np.copy-subok": lambda a: np.copy(a, subok=True),
}
RESHAPERS = {
    "T": lambda a: a.T,
    "transpose()": lambda a: a.transpose(),
    "reshape(-1)": lambda a: a.reshape(-1),
    "ravel()": lambda a: a.ravel(),
    "flatten()": lambda a: a.flatten(),
    "squeeze()": lambda a: a.squeeze(),
    "swapaxes": lambda a: a.swapaxes(0, -1),
    "np.transpose": lambda a: np.transpose(a),
    "np.reshape": lambda a: np.reshape(a, (-1,)),
    "np.ravel": lambda a: np.ravel(a),
    "np.squeeze": lambda a: np.squeeze(a),
    "np.expand_dims": lambda a: np.expand_dims(a, 0),
    "np.atleast_1d": lambda a: np.atleast_1d(a),
    "np.atleast_2d": lambda a: np.atleast_2d(a),
    "np.moveaxis": lambda a: np.moveaxis(a, 0, -1),
    "np.flip": lambda a: np.flip(a),
    "np.broadcast-self": lambda a: a[...],
    "view()": lambda a: a.view(),
    "np.asarray-strip": None,
}
VIEWS = {
    "base": lambda a: a,
    "slice": lambda a: a[::-1] if a.ndim else a,
    "transposed": lambda a: a.T,
    "step2": lambda a: a[..., ::2] if a.ndim else a,
}


def part_access(ctx, shard):
    world.reset_world()
    for shape, dtype in shard:
        data = data_for(shape, dtype)
        for vname, mk in VIEWS.items():
            if shape == ():
                if vname != "base":
                    continue
                parent = unyt_quantity(data[()], "m", name="nm")
            else:
                parent = unyt_array(data.copy(), "m", name="nm")
            a = mk(parent)
            bare_parent = np.array(np.asarray(parent.d), copy=True)
            bare = mk(bare_parent)
            case0 = {"part": "access", "shape": list(shape), "dtype": dtype, "view": vname}
            for name, f in ACCESS_SHARE.items():
                ctx.count("evaluations")
                case = dict(case0, call=name)
                base = f"C16|access|call={name}|view={vname}"
                r = f(a)
                ctx.decided(("access", shape, dtype, vname, name))
                if type(r) is not np.ndarray:
                    ctx.violation(base + "|mode=not-a-plain-ndarray", case, "ndarray", type(r).__name__)
                    continue
                if r.shape != bare.shape or not np.array_equal(r, bare):
                    ctx.violation(base + "|mode=wrong-values", case, bare.tolist(), r.tolist())
                if r.size and not np.shares_memory(r, parent):
                    ctx.violation(base + "|mode=view-detached-from-parent", case, True, False)
            for name, f in ACCESS_COPY.items():
                ctx.count("evaluations")
                case = dict(case0, call=name)
                base = f"C16|access|call={name}|view={vname}"
                try:
                    r = f(a)
                except Exception as e:  # noqa: BLE001
                    ctx.violation(base + f"|mode=raises:{type(e).__name__}", case, "value", str(e)[:100])
                    continue
                ctx.decided(("access", shape, dtype, vname, name))
                if isinstance(r, unyt_array):
                    ctx.violation(base + "|mode=units-not-stripped", case, "bare", type(r).__name__)
                    continue
                rr = np.asarray(r)
                if rr.shape != bare.shape:
                    ctx.violation(base + "|mode=wrong-shape", case, list(bare.shape), list(rr.shape))
                if isinstance(r, np.ndarray) and r.size and np.shares_memory(r, parent):
                    ctx.violation(base + "|mode=copy-shares-memory", case, False, True)
            for name, f in COPY_Q.items():
                ctx.count("evaluations")
                case = dict(case0, call=name)
                base = f"C16|access|call={name}|view={vname}"
                try:
                    r = f(a)
                except Exception as e:  # noqa: BLE001
                    ctx.count("copy_call_refused")
                    ctx.note_set("copy_call_refused", f"{name}|{shape}|{dtype}|{type(e).__name__}")
                    continue
                ctx.decided(("access", shape, dtype, vname, name))
                if not isinstance(r, unyt_array):
                    ctx.violation(base + "|mode=units-dropped", case, "unyt object", type(r).__name__)
                    continue
                if r.shape != bare.shape:
                    ctx.violation(base + "|mode=wrong-shape", case, list(bare.shape), list(r.shape))
                m = class_rule(r)
                if m:
                    ctx.violation(base + "|mode=" + m, case, None, type(r).__name__)
                if r.size and np.shares_memory(r, parent):
                    ctx.violation(base + "|mode=copy-shares-memory", case, False, True)
            # in-place operators and out= on a view return an object that is still attached to the parent's data
            if a.ndim >= 1 and a.size >= 1 and dtype.startswith("float"):
                import operator as _op

                for oname, o, other in (
                    ("iadd-quantity", _op.iadd, unyt_quantity(1.0, "m")),
                    ("iadd-other-unit", _op.iadd, unyt_quantity(1.0, "km")),
                    ("isub-quantity", _op.isub, unyt_quantity(1.0, "cm")),
                    ("imul-bare", _op.imul, 2.0),
                    ("imul-dimensionless", _op.imul, unyt_quantity(2.0, "dimensionless")),
                    ("itruediv-bare", _op.itruediv, 2.0),
                    ("ufunc-out", lambda x, y: np.add(x, y, out=x), unyt_quantity(1.0, "m")),
                    ("ufunc-out-multiply", lambda x, y: np.multiply(x, y, out=x), 3.0),
                ):
                    for sub_name, sub in (("whole", lambda v: v), ("first-element", lambda v: v[:1]), ("first-two", lambda v: v[:2])):
                        ctx.count("evaluations")
                        par = unyt_array(data.copy(), "m", name="nm")
                        view = sub(mk(par))
                        if view.size == 0:
                            continue
                        before = np.array(np.asarray(view.d), copy=True)
                        try:
                            res = o(view, other)
                        except Exception as e:  # noqa: BLE001
                            ctx.count("inplace_on_view_refused")
                            continue
                        case = dict(case0, call=oname, sub=sub_name)
                        base = f"C16|inplace-view|op={oname}|sub={sub_name}|view={vname}"
                        ctx.decided(("inplace-view", shape, dtype, vname, oname, sub_name))
                        if not isinstance(res, unyt_array):
                            ctx.violation(base + "|mode=units-dropped", case, "unyt object", type(res).__name__)
                            continue
                        if not np.shares_memory(res, par):
                            ctx.violation(base + "|mode=view-detached-from-parent", case, True, False)
                        if np.array_equal(np.asarray(view.d), before):
                            ctx.violation(base + "|mode=in-place-operation-did-not-reach-the-parent", case, "changed", "unchanged")
            for name, f in RESHAPERS.items():
                if f is None:
                    continue
                ctx.count("evaluations")
                case = dict(case0, call=name)
                base = f"C16|reshape|call={name}|view={vname}"
                try:
                    rb = f(bare)
                except Exception:  # noqa: BLE001
                    continue
                try:
                    r = f(a)
                except Exception as e:  # noqa: BLE001
                    ctx.violation(base + f"|mode=raises:{type(e).__name__}", case, "value", str(e)[:100])
                    continue
                ctx.decided(("reshape", shape, dtype, vname, name))
                if not isinstance(r, unyt_array):
                    ctx.violation(base + "|mode=units-dropped", case, "unyt object", type(r).__name__)
                    continue
                if r.shape != rb.shape or not np.array_equal(np.asarray(r.d), rb):
                    ctx.violation(base + "|mode=wrong-shape-or-values", case, list(rb.shape), list(r.shape))
                    continue
                m = class_rule(r)
                if m:
                    ctx.violation(base + f"|shape={shape}|mode=" + m, case, None, type(r).__name__)
                if r.units != parent.units:
                    ctx.violation(base + "|mode=unit-changed", case, str(parent.units), str(r.units))
                want = bool(np.shares_memory(rb, bare_parent))
                got = bool(np.shares_memory(r, parent))
                if want != got:
                    ctx.violation(base + ("|mode=view-detached-from-parent" if want else "|mode=copy-shares-memory"), case, want, got)


# ---- part 3: constructors -------------------------------------------------------------------------------------

# ---- converting calls on units that are already the target system's own unit (shortcut branches) -------------------------
OWN_UNIT_CALLS = [
    ("A", "in_mks"), ("A", "in_base"), ("T", "in_mks"), ("C", "in_mks"), ("V", "in_mks"), ("ohm", "in_mks"),
    ("statA", "in_cgs"), ("G", "in_cgs"), ("statC", "in_cgs"), ("G", "in_base-cgs"), ("statV", "in_cgs"),
    ("K", "in_mks"), ("kg", "in_mks"), ("m", "in_mks"), ("g", "in_cgs"), ("s", "in_cgs"), ("cm", "in_base-cgs"), ("rad", "in_base"),
    ("J", "in_mks"), ("erg", "in_cgs"), ("N", "in_base"), ("dyn", "in_cgs"), ("ft", "in_base-imperial"), ("lb", "in_base-imperial"),
    ("kpc", "in_base-galactic"), ("Msun", "in_base-galactic"),
]  # fmt: skip


def part_own_unit(ctx, shard):
    """every converting call returns independent data - also when nothing has to be converted"""
    world.reset_world()
    for unit, call in shard:
        for shape, dtype in itertools.product([(), (3,), (2, 3)], ("float64", "int64", "float32")):
            data = data_for(shape, dtype)
            for vname in ("base", "slice"):
                if shape == () and vname != "base":
                    continue
                parent = unyt_quantity(data[()], unit) if shape == () else unyt_array(data.copy(), unit)
                a = parent if vname == "base" else parent[::-1]
                before = np.array(np.asarray(parent.d), copy=True)
                ctx.count("evaluations")
                try:
                    if call.startswith("in_base-"):
                        r = a.in_base(call.split("-")[1])
                    else:
                        r = getattr(a, call)()
                except Exception:  # noqa: BLE001
                    ctx.count("own_unit_call_refused")
                    continue
                ctx.decided(("own-unit", unit, call, shape, dtype, vname))
                case = {"part": "own-unit", "unit": unit, "call": call, "shape": list(shape), "dtype": dtype, "view": vname}
                base = f"C16|own-unit|call={call.split('-')[0]}|unit-kind={'em' if unit in ('A', 'T', 'C', 'V', 'ohm', 'statA', 'G', 'statC', 'statV') else 'plain'}"
                if r is a or r is parent:
                    ctx.violation(base + "|mode=returned-its-input", case, "new object", "same object")
                    continue
                m = class_rule(r)
                if m:
                    ctx.violation(base + "|mode=" + m, case, None, type(r).__name__)
                if r.size and np.shares_memory(np.asarray(r), np.asarray(parent)):
                    ctx.violation(base + "|mode=copy-shares-memory", case, False, True)
                    continue
                if r.size:
                    np.asarray(r.d)[...] = 0  # writing into the result ...
                    if not np.array_equal(np.asarray(parent.d), before):  # ... never reaches the parent
                        ctx.violation(base + "|mode=write-through-result-reached-the-parent", case, before.tolist(), np.asarray(parent.d).tolist())


def part_construct(ctx, shard):
    world.reset_world()
    m, cm, km = Unit("m"), Unit("cm"), Unit("km")
    for shape, dtype in shard:
        data = data_for(shape, dtype)
        case0 = {"part": "construct", "shape": list(shape), "dtype": dtype}

        def judge(name, r, want_data, share_with=None, share=None, unit=None, judge_class=True, tol=0.0):
            ctx.count("evaluations")
            case = dict(case0, route=name)
            base = f"C16|construct|route={name}"
            ctx.decided(("construct", shape, dtype, name))
            ctx.outcome(("construct", name, shape, type(r).__name__))
            if not isinstance(r, unyt_array):
                ctx.violation(base + "|mode=units-dropped", case, "unyt object", type(r).__name__)
                return
            wd = np.asarray(want_data)
            if r.shape != wd.shape:
                ctx.violation(base + "|mode=wrong-shape", case, list(wd.shape), list(r.shape))
                return
            got = np.asarray(r.d, dtype=float)
            if wd.size and np.any(np.abs(got - wd) > tol * np.maximum(np.abs(wd), 1e-300)):
                ctx.violation(base + "|mode=wrong-values", case, wd.tolist(), got.tolist())
            if unit is not None and (r.units != unit or str(r.units.expr) != str(unit.expr)):
                ctx.violation(base + "|mode=wrong-unit", case, str(unit), str(r.units))
            if judge_class:
                mm = class_rule(r)
                if mm:
                    ctx.violation(base + f"|shape={shape}|mode=" + mm, case, None, type(r).__name__)
            if share is not None and r.size:
                g = bool(np.shares_memory(r, share_with))
                if g != share:
                    ctx.violation(base + ("|mode=view-detached-from-input" if share else "|mode=copy-shares-memory"), case, share, g)

        src = data.copy()
        if shape != ():
            judge("unyt_array(ndarray)", unyt_array(src, "m"), data, src, True, m)
            judge("unyt_array(ndarray,Unit)", unyt_array(src, m), data, src, True, m)
            judge("unyt_array(ndarray,dtype=same)", unyt_array(src, "m", dtype=src.dtype), data, src, True, m)
            judge("unyt_array(ndarray,dtype=same-name)", unyt_array(src, "m", dtype=str(src.dtype)), data, src, True, m)
            judge("unyt_array(ndarray,name=)", unyt_array(src, "m", name="x"), data, src, True, m)
            judge("unyt_array(ndarray,bypass_validation)", unyt_array(src, m, bypass_validation=True), data, src, True, m)
            judge("unyt_array(ndarray,registry=)", unyt_array(src, "m", registry=m.registry), data, src, True, m)
            # inputs that are themselves views with unusual memory layout: still a view of the caller's buffer
            big = np.zeros(tuple(2 * n for n in shape) if shape else (), dtype=data.dtype)
            layouts = {
                "reversed": lambda: src[::-1],
                "transposed": lambda: src.T,
                "fortran-order": lambda: np.asfortranarray(src),
                "strided-slice-of-bigger": lambda: big[tuple(slice(None, None, 2) for _ in shape)],
                "last-axis-reversed": lambda: src[..., ::-1],
            }
            for lname, mk in layouts.items():
                v = mk()
                if v.size == 0:
                    continue
                if lname == "strided-slice-of-bigger":
                    v[...] = data
                for cname, ctor in (("unyt_array", lambda x: unyt_array(x, "m")), ("unyt_array-Unit", lambda x: unyt_array(x, m)), ("ndarray-view-then-units", lambda x: unyt_array(x, "m", dtype=x.dtype))):
                    judge(f"{cname}({lname}-ndarray)", ctor(v), np.array(v, copy=True), v, True, m)
            judge("unyt_array(list)", unyt_array(data.tolist(), "m"), np.asarray(data.tolist()), None, None, m)
            inner = unyt_array(src, "m")
            judge("unyt_array(unyt_array)", unyt_array(inner), data, None, None, m)
            judge("unyt_array(unyt_array,other-unit)", unyt_array(inner, "cm"), data, None, None, None)
        else:
            judge("unyt_quantity(number)", unyt_quantity(float(data), "m"), data, None, None, m)
            judge("unyt_quantity(npscalar)", unyt_quantity(data[()], "m"), data, None, None, m)
            judge("unyt_quantity(0d)", unyt_quantity(data, "m"), data, None, None, m)
            judge("unyt_quantity(quantity)", unyt_quantity(unyt_quantity(float(data), "m")), data, None, None, m)
            judge("float*Unit", float(data) * m, data, None, None, m)
            judge("Unit*float", m * float(data), data, None, None, m)
            judge("int*Unit", 3 * m, np.asarray(3.0), None, None, m)
            judge("npscalar*Unit", data[()] * m, data, None, None, m)
        src = data.copy()
        judge("ndarray*Unit", src * m, data, src, False, m)
        src = data.copy()
        judge("Unit*ndarray", m * src, data, src, False, m)
        src = data.copy()
        judge("ndarray/Unit", src / m, data, src, False, None)
        if shape != ():
            judge("list*Unit", data.tolist() * m, np.asarray(data.tolist()), None, None, m)
            judge("Unit*list", m * data.tolist(), np.asarray(data.tolist()), None, None, m)
        # a unit-carrying operand times/over a Unit is a new object too, never a view of the operand
        sec = Unit("s")
        for rname, fn in (("unyt*Unit", lambda x: x * sec), ("Unit*unyt", lambda x: sec * x), ("unyt/Unit", lambda x: x / sec), ("Unit/unyt", None), ("unyt*sameUnit", lambda x: x * m)):
            if fn is None:
                continue
            srcq = unyt_quantity(data[()], "km") if shape == () else unyt_array(data.copy(), "km")
            judge(rname, fn(srcq), data, srcq, False, None)
        q = unyt_quantity(2.0, "m")
        src = data.copy()
        judge("quantity*ndarray", q * src, 2.0 * data.astype(float), src, False, m)
        src = data.copy()
        judge("ndarray*quantity", src * q, 2.0 * data.astype(float), src, False, m)
        src = data.copy()
        judge("ndarray+quantity-dimless", src + unyt_quantity(1.0, "dimensionless"), data.astype(float) + 1.0, src, False, None)
        arr = unyt_array(np.array([1.0, 2.0]), "m")
        if shape in ((), (2,), (2, 3), (1, 3), (1,), (1, 1), (2, 1, 3)) and (shape == () or shape[-1] in (1, 2) or True):
            try:
                want = np.multiply.outer(np.array([1.0, 2.0]), data.astype(float)) if False else None
            except Exception:  # noqa: BLE001
                want = None
        # lists of quantities
        if len(shape) == 1 and shape[0] >= 1:
            n = shape[0]
            same = [unyt_quantity(float(x), "m") for x in data]
            judge("unyt_array(list-of-quantities-same-unit)", unyt_array(same), data.astype(float), None, None, m)
            units = [km, m, cm]
            mixed = [unyt_quantity(float(x), units[i % 3]) for i, x in enumerate(data)]
            ratio = [1.0, 1e-3, 1e-5]
            want = np.array([float(x) * ratio[i % 3] for i, x in enumerate(data)])
            judge("unyt_array(list-of-quantities-mixed-units)", unyt_array(mixed), want, None, None, km, tol=8 * 2.0**-52)
            mixed2 = [unyt_quantity(float(x), [cm, km][i % 2]) for i, x in enumerate(data)]
            want2 = np.array([float(x) * [1.0, 1e5][i % 2] for i, x in enumerate(data)])
            judge("unyt_array(list-of-quantities-mixed-units-cm-first)", unyt_array(mixed2), want2, None, None, cm, tol=8 * 2.0**-52)
            judge("unyt_array(tuple-of-quantities)", unyt_array(tuple(mixed)), want, None, None, km, tol=8 * 2.0**-52)
            # the same unit NAME with different sizes in two registries: coercion converts by size, not by spelling
            from unyt import dimensions as _ud
            from unyt.unit_registry import UnitRegistry as _UR

            r1, r2 = _UR(), _UR()
            r1.add("code_length", 1.0, _ud.length)
            r2.add("code_length", 10.0, _ud.length)
            two = [unyt_quantity(float(x), "code_length", registry=(r1, r2)[i % 2]) for i, x in enumerate(data)]
            want_two = np.array([float(x) * (1.0, 10.0)[i % 2] for i, x in enumerate(data)])
            judge("unyt_array(list-of-quantities-two-registries)", unyt_array(two), want_two, None, None, None, tol=8 * 2.0**-52)
            if n >= 1:
                arrs = [unyt_array(np.array([float(x), float(x) + 1.0]), units[i % 3]) for i, x in enumerate(data)]
                want3 = np.array([[float(x) * ratio[i % 3], (float(x) + 1.0) * ratio[i % 3]] for i, x in enumerate(data)])
                judge("unyt_array(list-of-arrays-mixed-units)", unyt_array(arrs), want3, None, None, km, tol=8 * 2.0**-52)


# ---- part 4: class of every unit-carrying result ----------------------------------------------------------------
def part_results_catalog(ctx, shard):
    world.reset_world()
    units = {"X": "m", "Y": "s", "W": "g"}
    for i in shard:
        t = R.TEMPLATES[i]
        if t.cls == "refuse":
            continue
        for dt in R.template_dts(t):
            data = core.build_data(t, 0, dt)
            kw = R.mk_unyt(t, data, units)
            st, tr, _ = R.execute(t, kw)
            ctx.count("evaluations")
            if st != "ok":
                continue
            for path, leaf in core.leaves(tr):
                if leaf[0] != "arr" or leaf[2] is None:
                    continue
                ctx.decided(("result", t.func, t.tid, dt, path))
                shp, cls = leaf[1].shape, leaf[3]
                ctx.outcome(("result", t.func, shp == (), leaf[1].size > 1, cls))
                mode = None
                if shp == () and cls != "unyt_quantity":
                    mode = "zero-d-result-is-not-a-quantity"
                elif leaf[1].size > 1 and cls == "unyt_quantity":
                    mode = "multi-element-quantity"
                if shp != () and leaf[1].size <= 1:
                    ctx.note_set("size-le-1 class", f"{t.func}|{shp}|{cls}")
                if mode:
                    form, sh = (t.tid.rsplit("|", 1) + ["-"])[:2]
                    ctx.violation(
                        f"C16|result|func={t.func}|form={form}|shape={sh.replace(' ', '')}|mode={mode}",
                        {"part": "result", "func": t.func, "tid": t.tid, "dt": dt},
                        "quantity for shape (), array for size>1",
                        {"shape": list(shp), "cls": cls},
                    )


UF_SHAPES = [(), (1,), (3,), (2, 3)]


def part_results_misc(ctx, shard):
    """properties and operator branches that build their result by hand"""
    world.reset_world()
    for unit in shard:
        for sh in UF_SHAPES + [(1, 1), (0,)]:
            d = (np.arange(int(np.prod(sh)) if sh else 1, dtype=float) + 1.5).reshape(sh)
            x = unyt_quantity(d[()], unit) if sh == () else unyt_array(d, unit)
            calls = [
                ("ua", lambda: x.ua), ("unit_array", lambda: x.unit_array), ("uq", lambda: x.uq), ("unit_quantity", lambda: x.unit_quantity),
                ("pow0", lambda: x**0), ("pow0.0", lambda: x**0.0), ("np.power0", lambda: np.power(x, 0)), ("pow1", lambda: x**1), ("pow-int-array0", lambda: x ** np.int64(0)),
                ("abs", lambda: abs(x)), ("neg", lambda: -x), ("pos", lambda: +x), ("round", lambda: round(x) if sh == () else np.round(x)),
                ("divmod0", lambda: divmod(x, x)[0]), ("divmod1", lambda: divmod(x, x)[1]), ("floordiv", lambda: x // x), ("mod", lambda: x % x),
                ("rtruediv", lambda: 2.0 / x), ("rmul-list", lambda: [2.0] * 1 * x if sh != () else 2.0 * x), ("sum-builtin", lambda: sum(x) if sh not in ((), (0,)) else x),
                ("min-builtin", lambda: min(x) if len(sh) == 1 and sh[0] else x), ("dot-method", lambda: x.dot(x) if len(sh) == 1 else x), ("std", lambda: x.std() if sh != (0,) else x),
                ("prod", lambda: x.prod() if sh != (0,) else x), ("cumsum", lambda: x.cumsum()), ("clip", lambda: x.clip(x.min(), x.max()) if sh != (0,) else x),
                ("item-via-index", lambda: x[(0,) * len(sh)] if sh and 0 not in sh else x), ("iter-first", lambda: next(iter(x)) if sh and 0 not in sh else x),
                ("copy", lambda: x.copy()), ("deepcopy", lambda: __import__("copy").deepcopy(x)), ("pickle", lambda: __import__("pickle").loads(__import__("pickle").dumps(x))),
                ("quantity-ctor-bypass", lambda: unyt_quantity(np.asarray(x.d), x.units, bypass_validation=True)),
                ("quantity-ctor-bypass-from-unyt", lambda: unyt_quantity(x, x.units, bypass_validation=True)),
                ("quantity-ctor", lambda: unyt_quantity(np.asarray(x.d), str(x.units))), ("quantity-ctor-from-unyt", lambda: unyt_quantity(x)),
                ("unorm", lambda: unyt.unorm(x) if sh != () else x), ("unorm-axis0", lambda: unyt.unorm(x, axis=0) if sh not in ((),) else x),
                ("unorm-axis-1", lambda: unyt.unorm(x, axis=-1) if sh != () else x), ("unorm-all-axes", lambda: unyt.unorm(x, axis=tuple(range(len(sh)))) if len(sh) == 2 else x),
                ("unorm-keepdims", lambda: unyt.unorm(x, axis=0, keepdims=True) if sh != () else x), ("udot", lambda: unyt.udot(x, x) if len(sh) == 1 else x),
                ("ucross", lambda: unyt.ucross(x, x) if sh == (3,) else x), ("np.linalg.norm", lambda: np.linalg.norm(x) if sh != () else x),
                ("np.linalg.norm-axis0", lambda: np.linalg.norm(x, axis=0) if len(sh) >= 1 else x), ("np.trace", lambda: np.trace(x) if len(sh) == 2 else x),
                ("np.vdot", lambda: np.vdot(x, x) if sh != () else x), ("np.inner", lambda: np.inner(x, x) if len(sh) == 1 else x), ("np.tensordot", lambda: np.tensordot(x, x, axes=len(sh)) if sh != () else x),
                ("np.sum-all-axes", lambda: np.sum(x, axis=tuple(range(len(sh)))) if sh != () else x), ("np.max-axis0", lambda: np.max(x, axis=0) if sh not in ((), (0,)) else x),
                ("np.median-axis0", lambda: np.median(x, axis=0) if sh not in ((), (0,)) else x), ("np.mean-axis-1", lambda: np.mean(x, axis=-1) if sh not in ((), (0,)) else x),
                ("to", lambda: x.to(x.units)), ("in_base", lambda: x.in_base()), ("to_equivalent", lambda: x.to_equivalent(x.units, "spectral") if False else x),
            ]
            _run_calls(ctx, "misc", unit, (sh,), calls)




def part_results_ufunc(ctx, shard):
    world.reset_world()
    import unyt.array as ua

    def mk(shape, unit, k):
        d = (np.arange(int(np.prod(shape)) if shape else 1, dtype=float) + 1.0 + k).reshape(shape) / 4.0
        return unyt_quantity(d[()], unit) if shape == () else unyt_array(d, unit)

    for uf in shard:
        name = uf.__name__
        for unit in ("m", "dimensionless", "rad"):
            if uf.nin == 1:
                for sh in UF_SHAPES:
                    calls = [("call", lambda: uf(mk(sh, unit, 0)))]
                    _run_calls(ctx, name, unit, (sh,), calls)
            elif uf.nin == 2:
                for s1, s2 in itertools.product(UF_SHAPES, UF_SHAPES):
                    try:
                        np.broadcast_shapes(s1, s2)
                    except ValueError:
                        continue
                    a, b = mk(s1, unit, 0), mk(s2, unit, 1)
                    if unit == "m":
                        # operands whose units combine to a number times a unit (km with 1/m, s/m, m): the class of the
                        # result is decided after the leftover factor has been applied
                        for ub in ("1/m", "s/m", "km", "cm**-1"):
                            a2, b2 = mk(s1, "km", 0), mk(s2, ub, 1)
                            _run_calls(ctx, name, f"km,{ub}", (s1, s2), [("call", lambda: uf(a2, b2)), ("call-swapped", lambda: uf(b2, a2)), ("outer", lambda: uf.outer(a2, b2))]
                                       + ([("reduce", lambda: uf.reduce(mk(s1, "km", 0) * mk((), ub, 1)))] if s2 == () and s1 != () else []))
                    calls = [
                        ("call", lambda: uf(a, b)),
                        ("call-bare-right", lambda: uf(a, np.asarray(b.d))),
                        ("call-bare-left", lambda: uf(np.asarray(a.d), b)),
                        ("outer", lambda: uf.outer(a, b)),
                    ]
                    if s2 == ():
                        calls += [
                            ("reduce", lambda: uf.reduce(a)) if s1 != () else ("skip", None),
                            ("reduce-axis-none", lambda: uf.reduce(a, axis=None)) if s1 != () else ("skip", None),
                            ("reduce-keepdims", lambda: uf.reduce(a, keepdims=True)) if s1 != () else ("skip", None),
                            ("accumulate", lambda: uf.accumulate(a)) if s1 != () else ("skip", None),
                            ("reduceat", lambda: uf.reduceat(a, [0])) if len(s1) == 1 else ("skip", None),
                        ]
                    _run_calls(ctx, name, unit, (s1, s2), calls)


GUF_SHAPES = [((3,), (3,)), ((2, 3), (3,)), ((3,), (3, 2)), ((2, 3), (3, 2)), ((1, 3), (3, 1)), ((2, 2, 3), (3,))]


def part_results_gufunc(ctx, shard):
    """matmul / vecdot / (matvec, vecmat where NumPy has them): contractions reach shape () from array operands."""
    world.reset_world()

    def mk(shape, unit, k):
        d = (np.arange(int(np.prod(shape)), dtype=float) + 1.0 + k).reshape(shape) / 4.0
        return unyt_array(d, unit)

    for name in shard:
        uf = getattr(np, name, None)
        if uf is None:
            continue
        for (s1, s2), (ua_, ub) in itertools.product(GUF_SHAPES, [("m", "m"), ("m", "s"), ("km", "1/m"), ("km", "s/m"), ("km", "m"), ("dimensionless", "m"), ("hr", "1/s")]):
            a, b = mk(s1, ua_, 0), mk(s2, ub, 1)
            calls = [("call", lambda: uf(a, b)), ("call-bare-right", lambda: uf(a, np.asarray(b.d))), ("call-bare-left", lambda: uf(np.asarray(a.d), b))]
            if name == "matmul":
                calls += [("operator", lambda: a @ b), ("operator-bare-right", lambda: a @ np.asarray(b.d)), ("operator-bare-left", lambda: np.asarray(a.d) @ b)]
            _run_calls(ctx, name, f"{ua_},{ub}", (s1, s2), calls)


def _run_calls(ctx, name, unit, shapes, calls):
    import warnings

    for form, f in calls:
        if f is None:
            continue
        ctx.count("evaluations")
        try:
            with warnings.catch_warnings():
                warnings.simplefilter("ignore")
                r = f()
        except Exception as e:  # noqa: BLE001
            ctx.count("ufunc_call_refused")
            if isinstance(e, RuntimeError) and "must be scalars" in str(e) and name != "misc":
                # not a refusal of the operands: the library tried to wrap a multi-element result as a quantity
                ctx.violation(
                    f"C16|ufunc|name={name}|form={form}|shapes={shapes}|mode=multi-element-quantity-attempted".replace(" ", ""),
                    {"part": "ufunc", "name": name, "unit": unit, "shapes": [list(s) for s in shapes], "form": form}, "unyt_array", str(e)[:80])
            continue
        rs = r if isinstance(r, tuple) else (r,)
        for k, x in enumerate(rs):
            if not isinstance(x, unyt_array):
                continue
            ctx.decided(("ufunc", name, unit, shapes, form, k))
            ctx.outcome(("ufunc", name, form, x.shape == (), x.size > 1, type(x).__name__))
            m = class_rule(x)
            if x.shape != () and x.size <= 1:
                ctx.note_set("size-le-1 class", f"ufunc {form}|{x.shape}|{type(x).__name__}")
            if m:
                ctx.violation(
                    f"C16|ufunc|name={name}|form={form}|shapes={shapes}|mode={m}".replace(" ", ""),
                    {"part": "ufunc", "name": name, "unit": unit, "shapes": [list(s) for s in shapes], "form": form},
                    None,
                    {"shape": list(x.shape), "cls": type(x).__name__},
                )


def part_int_views(ctx, shard):
    """in-place operators and out= on a VIEW of integer data: whatever the call does to the view, the parent read through
    its own dtype and unit still holds the untouched elements unchanged and the touched ones updated (or the call refuses
    and nothing changed) - the view stays attached to the parent's data, it does not reinterpret it"""
    import operator as _op

    world.reset_world()
    for shape, dtype in shard:
        n = int(np.prod(shape))
        data = (np.arange(n) + 2).reshape(shape).astype(dtype)
        subs = [("first-two", lambda v: v.reshape(-1)[:2] if v.flags.c_contiguous else v[:2]), ("strided", lambda v: v.reshape(-1)[::2]), ("last-row", lambda v: v[-1:]), ("whole-view", lambda v: v[...])]
        ops = [
            ("iadd-same-unit", lambda v: _op.iadd(v, unyt_quantity(1, "m")), lambda x: x + 1.0),
            ("iadd-self", lambda v: _op.iadd(v, v), lambda x: x + x),
            ("iadd-other-unit", lambda v: _op.iadd(v, unyt_quantity(1, "km")), lambda x: x + 1000.0),
            ("imul-bare", lambda v: _op.imul(v, 2), lambda x: x * 2.0),
            ("ufunc-out-self", lambda v: np.add(v, v, out=v), lambda x: x + x),
            ("negative-out", lambda v: np.negative(v, out=v), lambda x: -x),
            ("refused-other-dimension", lambda v: _op.iadd(v, unyt_quantity(1, "s")), None),
        ]
        for (sname, sub), (oname, op, ref) in itertools.product(subs, ops):
            if dtype.startswith("uint") and oname == "negative-out":
                continue
            ctx.count("evaluations")
            raw = data.copy()
            par = unyt_array(raw, "m")
            view = sub(par)
            if not np.shares_memory(view, raw):
                continue
            touched = np.zeros(raw.shape, dtype=bool)
            sub(touched)[...] = True
            before = raw.astype(float)
            case = {"part": "int-views", "shape": list(shape), "dtype": dtype, "sub": sname, "call": oname}
            base = f"C16|int-view|op={oname}|sub={sname}"
            try:
                op(view)
                st = "ok"
            except Exception:  # noqa: BLE001
                st = "raise"
            ctx.outcome(("int-view", oname, sname, dtype, st))
            ctx.decided(("int-view", shape, dtype, sname, oname))
            # the parent, and the plain array the parent was built over, read through their own dtypes
            for who, arr, scale in (("parent", np.asarray(par.d), float(par.units.base_value)), ("source-array", raw, 1.0)):
                now = arr.astype(float) * scale
                want = before.copy()
                if st == "ok" and ref is not None:
                    want[touched] = ref(before[touched])
                elif st == "ok":
                    ctx.violation(base + "|mode=accepted-other-dimension", case, "refusal", "value")
                    break
                if who == "source-array" and sname == "whole-view" and par.dtype != raw.dtype:
                    continue  # the whole buffer was handed over and consistently retyped: the bare source is no longer a reader
                if now.shape != want.shape or not np.allclose(now, want, rtol=1e-6, atol=0):
                    mode = "data-reinterpreted-after-refusal" if st == "raise" else "data-reinterpreted"
                    ctx.violation(base + f"|who={who}|mode={mode}", case, want.reshape(-1)[:6].tolist(), now.reshape(-1)[:6].tolist())
                    break


def run(ctx):
    sd = [(s, d) for s in SHAPES for d in DTYPES]
    harness.pmap(ctx, part_index, [[x] for x in sd])
    harness.pmap(ctx, part_access, [[x] for x in sd])
    harness.pmap(ctx, part_construct, [[x] for x in sd])
    idx = list(range(len(R.TEMPLATES)))
    harness.pmap(ctx, part_results_catalog, [idx[i::32] for i in range(32)])
    import unyt.array as ua

    ufs = sorted((f for f in ua.unyt_array._ufunc_registry if isinstance(f, np.ufunc)), key=lambda f: f.__name__)
    harness.pmap(ctx, part_results_ufunc, [ufs[i::16] for i in range(16)])
    harness.pmap(ctx, part_results_gufunc, [[n] for n in ("matmul", "vecdot", "matvec", "vecmat")])
    harness.pmap(ctx, part_results_misc, [["m"], ["dimensionless"], ["degC"], ["km/s"]])
    harness.pmap(ctx, part_own_unit, [[x] for x in OWN_UNIT_CALLS])
    harness.pmap(ctx, part_int_views, [[(sh, dt)] for sh in ((6,), (2, 3)) for dt in ("int64", "int32", "int16", "uint8", "float64")])
    return {
        "coverage": {
            "rule": "index: shape x dtype x index form (x second index form) executed on the unyt array and on its bare data; "
            "access/reshape: shape x dtype x view kind x call; construct: shape x dtype x route; results: every unit-carrying "
            "leaf of every catalogue template and of every ufunc x call form x shape pair; decided = compared with the NumPy "
            "reference / class rule",
            "shapes": [list(s) for s in SHAPES],
            "dtypes": DTYPES,
            "index_forms_per_shape": {str(s): len(index_menu(s)) for s in SHAPES},
            "accessors_sharing": list(ACCESS_SHARE),
            "accessors_copying": list(ACCESS_COPY) + list(COPY_Q),
            "reshapers": [k for k, v in RESHAPERS.items() if v],
            "ufuncs": len(ufs),
            "ufunc_unit_pairs": "same unit on both sides (m, dimensionless, rad) and km with 1/m, s/m, km, cm**-1 (units that combine to a number times a unit)",
            "gufuncs": {"names": ["matmul", "vecdot", "matvec", "vecmat"], "shape_pairs": [[list(a), list(b)] for a, b in GUF_SHAPES], "unit_pairs": 7},
            "templates": len(R.TEMPLATES),
        },
        "assumptions": [
            "NumPy on the bare data decides shapes, values and whether a result aliases its parent (np.shares_memory)",
            "size-<=1 non-scalar results ((1,), (1,1), (0,)) may be either class per the statement; their classes are listed, not judged",
            "inputs are well formed: a 0-d operand is always a unyt_quantity",
        ],
    }


def replay(case):
    ctx = harness.Ctx(PROPERTY, "quick", 0)
    p = case.get("part")
    if p in ("index", "access", "construct"):
        f = {"index": part_index, "access": part_access, "construct": part_construct}[p]
        f(ctx, [(tuple(case["shape"]), case["dtype"])])
    elif p == "int-views":
        part_int_views(ctx, [(tuple(case["shape"]), case["dtype"])])
    elif p == "result":
        i = [k for k, t in enumerate(R.TEMPLATES) if t.func == case["func"] and t.tid == case["tid"]]
        part_results_catalog(ctx, i)
    else:
        import unyt.array as ua

        part_results_ufunc(ctx, [f for f in ua.unyt_array._ufunc_registry if f.__name__ == case["name"]])
        part_results_gufunc(ctx, [case["name"]] if case["name"] in ("matmul", "vecdot", "matvec", "vecmat") else [])
    return list(ctx.violations.items())
