"""C15  Physical constants are coherent across unit systems and with the unit table.

Finite and complete: every constant x every alias x {'', _mks, _cgs} in the default namespace and in
namespaces built by add_constants for a registry with each built-in unit system (+2 generated systems);
all defining relations; every name that is both a constant and a unit; every value vs its class tolerance.
"""

import math

from mc import harness, world
from mc.ref import deftable
from mc.ref.dims import dim_of
from mc.ref import dims as rd

PROPERTY = "C15"

import unyt
import unyt.physical_constants as pc
from unyt._unit_lookup_table import physical_constants as TABLE
from unyt.exceptions import UnitParseError
from unyt.unit_object import Unit
from unyt.unit_registry import UnitRegistry
from unyt.unit_systems import UnitSystem, add_constants, unit_system_registry

EPS = 2.0**-52
C_CGS = 29979245800.0
# independent CGS<->SI electromagnetic counterpart factors: SI dimension -> (cgs dimension, cgs value per SI value)
EM = {
    rd.charge.key(): (rd.charge_cgs, C_CGS / 10),
    rd.current.key(): (rd.current_cgs, C_CGS / 10),
    rd.mag_field.key(): (rd.mag_field_cgs, 1e4),
    rd.epot.key(): (rd.epot_cgs, 1e8 / C_CGS),
    rd.resistance.key(): (rd.resistance_cgs, 1e9 / C_CGS**2),
}


def si(q):
    """(SI magnitude in kg-m-s-A..., RDim) of a quantity."""
    return float(q.d) * float(q.units.base_value), dim_of(q.units.dimensions)


def rel(a, b):
    if a == b:
        return 0.0
    return abs(a - b) / max(abs(a), abs(b))


def same_quantity(ref, other, tol):
    """ref, other: (magnitude, RDim). Equal dimension, or documented CGS/SI EM counterpart."""
    (m0, d0), (m1, d1) = ref, other
    if d0 == d1:
        return rel(m0, m1) <= tol, "same-dimension"
    em = EM.get(d0.key())
    if em and em[0] == d1:
        # other is expressed in Gaussian units: its kg-m-s magnitude is value_cgs * base_value(cgs unit)
        # value_cgs = value_SI * factor ; base_value of the canonical cgs unit per the Gaussian definitions
        cgs_unit_si = {"charge": 10**-4.5, "current": 10**-4.5, "mag_field": math.sqrt(0.1), "epot": 10**-2.5, "resistance": 100.0}
        name = {rd.charge.key(): "charge", rd.current.key(): "current", rd.mag_field.key(): "mag_field", rd.epot.key(): "epot", rd.resistance.key(): "resistance"}[d0.key()]
        want = m0 * em[1] * cgs_unit_si[name]
        return rel(want, m1) <= max(tol, 8 * EPS), "em-counterpart"
    return False, "different-dimension"


def guises(ns, name):
    out = {}
    for suffix in ("", "_mks", "_cgs"):
        q = ns.get(name + suffix)
        if q is not None:
            out[suffix or "plain"] = q
    return out


def check_namespace(ctx, ns, label, default_ns):
    # every constant NAME of unyt.physical_constants is in every filled namespace (names read off the module, not off the
    # table's alias lists: w9 made one alias list a one-shot iterator that only the import-time call could read)
    for nm, q0 in list(default_ns.items()):
        if nm.startswith("_") or not (hasattr(q0, "d") and hasattr(q0, "units")):
            continue
        ctx.count("evaluations")
        if nm not in ns:
            ctx.violation(f"C15|guise|ns={label}|mode=constant-name-of-the-module-missing-from-namespace", {"part": "guises", "namespace": label, "name": nm}, nm, None)
    for cname, (value, unit_name, aliases) in TABLE.items():
        ref = None
        for nm in [cname] + list(aliases):
            g = guises(ns, nm)
            ctx.count("evaluations")
            case = {"part": "guises", "namespace": label, "constant": cname, "name": nm}
            if "plain" not in g:
                ctx.violation(f"C15|guise|ns={label}|const={cname}|mode=name-missing", case, nm, None)
                continue
            if ref is None:
                # reference: the default namespace's canonical constant (first name)
                ref = si(default_ns[cname + "_mks"]) if cname + "_mks" in default_ns else si(default_ns[cname])
            for suffix, q in g.items():
                ctx.count("transitions")
                if not hasattr(q, "d") or not hasattr(q, "units"):
                    ctx.violation(f"C15|guise|ns={label}|const={cname}|suffix={suffix}|mode=name-is-not-the-constant", case, "the constant (a quantity)", repr(q)[:60])
                    continue
                ok, how = same_quantity(ref, si(q), 16 * EPS)
                ctx.outcome((label, cname, suffix, how, ok))
                ctx.decided((label, nm, suffix))
                if not ok:
                    ctx.violation(
                        f"C15|guise|ns={label}|const={cname}|suffix={suffix}|mode=guises-differ:{how}",
                        case, ref, si(q) + (str(q.units),),
                    )


def check_relations(ctx):
    v = {k: si(getattr(pc, k))[0] for k in ("h", "hbar", "c", "G", "kb", "eps_0", "mu_0", "me", "qp", "qe", "R_inf", "m_pl", "l_pl", "t_pl", "E_pl", "T_pl", "q_pl", "Msun")}
    v["sigma"] = si(pc.stefan_boltzmann_constant)[0]
    v["a"] = si(pc.radiation_density_constant)[0]
    v["Ry"] = float(Unit("Ry").base_value)
    pi = math.pi
    rels = {
        "hbar=h/2pi": (v["hbar"], v["h"] / (2 * pi)),
        "eps0*mu0*c^2=1": (v["eps_0"] * v["mu_0"] * v["c"] ** 2, 1.0),
        "sigma=2pi^5k^4/15c^2h^3": (v["sigma"], 2 * pi**5 * v["kb"] ** 4 / (15 * v["c"] ** 2 * v["h"] ** 3)),
        "a=4sigma/c": (v["a"], 4 * v["sigma"] / v["c"]),
        "R_inf=me*e^4/8eps0^2h^3c": (v["R_inf"], v["me"] * v["qp"] ** 4 / (8 * v["eps_0"] ** 2 * v["h"] ** 3 * v["c"])),
        "Ry=h*c*R_inf": (v["Ry"], v["h"] * v["c"] * v["R_inf"]),
        "m_pl=sqrt(hbar*c/G)": (v["m_pl"], math.sqrt(v["hbar"] * v["c"] / v["G"])),
        "l_pl=sqrt(hbar*G/c^3)": (v["l_pl"], math.sqrt(v["hbar"] * v["G"] / v["c"] ** 3)),
        "t_pl=sqrt(hbar*G/c^5)": (v["t_pl"], math.sqrt(v["hbar"] * v["G"] / v["c"] ** 5)),
        "E_pl=sqrt(hbar*c^5/G)": (v["E_pl"], math.sqrt(v["hbar"] * v["c"] ** 5 / v["G"])),
        "T_pl=E_pl/kb": (v["T_pl"], math.sqrt(v["hbar"] * v["c"] ** 5 / v["G"]) / v["kb"]),
        "q_pl=sqrt(4pi*eps0*hbar*c)": (v["q_pl"], math.sqrt(4 * pi * v["eps_0"] * v["hbar"] * v["c"])),
        "qe=-qp": (v["qe"], -v["qp"]),
        "l_geom=G*Msun/c^2": (float(Unit("l_geom").base_value), v["G"] * v["Msun"] / v["c"] ** 2),
        "t_geom=G*Msun/c^3": (float(Unit("t_geom").base_value), v["G"] * v["Msun"] / v["c"] ** 3),
    }
    for name, (got, want) in rels.items():
        ctx.count("evaluations")
        ctx.decided(("relation", name))
        ctx.outcome(("relation", name, rel(got, want) <= 64 * EPS))
        if rel(got, want) > 64 * EPS:
            ctx.violation(f"C15|relation|rel={name}|mode=residual-too-large", {"part": "relation", "relation": name}, want, got)
    ctx.sample({"relations": sorted(rels)})


def check_unit_constant_pairs(ctx):
    names = sorted(k for k, q in vars(pc).items() if not k.startswith("_") and hasattr(q, "units"))
    both = []
    for n in names:
        if n.endswith(("_mks", "_cgs")) or n in ("hmks", "hcgs"):
            continue
        try:
            u = Unit(n)
        except UnitParseError:
            continue
        both.append(n)
        ctx.count("evaluations")
        ctx.decided(("pair", n))
        q = getattr(pc, n)
        ok, how = same_quantity((float(u.base_value), dim_of(u.dimensions)), si(q), 16 * EPS)
        ctx.outcome(("pair", n, ok))
        if not ok:
            ctx.violation(
                f"C15|unit-vs-constant|name={n}|mode=unit-and-constant-differ:{how}",
                {"part": "pairs", "name": n}, (float(u.base_value), str(dim_of(u.dimensions))), si(q),
            )
        # top-level namespace: the constant wins and must be that constant
        top = getattr(unyt, n, None)
        if top is None or not hasattr(top, "d") or si(top) != si(q):
            ctx.violation(f"C15|toplevel|name={n}|mode=toplevel-name-is-not-the-constant", {"part": "pairs", "name": n}, si(q), repr(top))
    ctx.note_set("names_both_unit_and_constant", ",".join(both))


def check_values(ctx):
    for cname, (want, dim, cls) in deftable.CONSTANTS.items():
        ctx.count("evaluations")
        ctx.decided(("value", cname))
        q = getattr(pc, cname)
        got, gdim = si(q)
        tol = deftable.CLASS_TOL[cls]
        tol = max(tol, 4 * EPS)
        if gdim != dim:
            ctx.violation(f"C15|value|const={cname}|mode=wrong-dimension", {"part": "values", "constant": cname}, str(dim), str(gdim))
        elif rel(got, want) > tol:
            ctx.violation(f"C15|value|const={cname}|mode=outside-uncertainty-class:{cls}", {"part": "values", "constant": cname}, want, got)
    missing = sorted(set(TABLE) - set(deftable.CONSTANTS) - {"hbar", "σ", "a", "m_pl", "l_pl", "t_pl", "E_pl", "q_pl", "T_pl"})
    for m in missing:
        ctx.violation("C15|coverage|mode=constant-without-reference-value", {"part": "values", "constant": m}, None, m)


def run(ctx):
    world.reset_world()
    default_ns = vars(pc)
    check_namespace(ctx, default_ns, "default", default_ns)
    systems = list(unit_system_registry)  # 7 built-in
    UnitSystem("verif_a", "km", "Msun", "Myr")
    UnitSystem("verif_b", "ft", "lb", "hr", temperature_unit="R")
    for sname in systems + ["verif_a", "verif_b"]:
        reg = UnitRegistry(unit_system=sname)
        ns = {}
        add_constants(ns, reg)
        check_namespace(ctx, ns, sname, default_ns)
        # the unit-container pattern: symbols first, constants on top - where both have a name, the constant wins
        from unyt.unit_systems import add_symbols

        ns2 = {}
        add_symbols(ns2, reg)
        add_constants(ns2, reg)
        check_namespace(ctx, ns2, sname + "+symbols-first", default_ns)
        ns3 = {}
        add_constants(ns3, reg)
        add_constants(ns3, reg)  # idempotent
        check_namespace(ctx, ns3, sname + "+twice", default_ns)
    # code-unit systems: the same system NAME over registries that define the code units differently, one after the other
    # (and the same registry again after its code units were modified): every namespace still holds the default constants
    from unyt import dimensions as udims

    for tag, (cl, cm_, ct) in (("first", (2.0, 3.0, 4.0)), ("second", (5.0, 7.0, 0.5))):
        reg = UnitRegistry()
        reg.add("code_length", cl, udims.length)
        reg.add("code_mass", cm_, udims.mass)
        reg.add("code_time", ct, udims.time)
        reg.unit_system = UnitSystem("verif_code", "code_length", "code_mass", "code_time", registry=reg)
        ns = {}
        add_constants(ns, reg)
        check_namespace(ctx, ns, "code-system-" + tag, default_ns)
        if tag == "second":
            reg.modify("code_length", 11.0)
            reg.modify("code_mass", 13.0)
            ns = {}
            add_constants(ns, reg)
            check_namespace(ctx, ns, "code-system-after-modify", default_ns)
    # top-level namespace exports
    for cname, (_v, _u, aliases) in TABLE.items():
        for nm in [cname] + list(aliases):
            top = getattr(unyt, nm, None)
            ctx.count("evaluations")
            if top is None or not hasattr(top, "d") or si(top) != si(default_ns[nm]):
                ctx.violation(f"C15|toplevel|name={cname}|mode=toplevel-name-is-not-the-constant", {"part": "toplevel", "name": nm}, None, repr(top))
    check_relations(ctx)
    check_unit_constant_pairs(ctx)
    check_values(ctx)
    world.reset_world()
    return {
        "coverage": {
            "rule": "finite and complete: every constant x alias x {plain,_mks,_cgs} x {default namespace, registry with each of "
            "7 built-in and 2 generated unit systems}; 15 defining relations; every name that is both constant and unit "
            "(found by intersection); every table value vs its class tolerance",
            "axes": {"constants": len(TABLE), "namespaces": 10 * 3 + 3, "relations": 15, "code_unit_systems": "one system name over two registries with different code units, and after modify"},
        },
        "assumptions": ["ref/deftable.CONSTANTS (CODATA 2018 / IAU values, class tolerances) and the EM counterpart factors are typed independently"],
    }


def replay(case):
    ctx = harness.Ctx(PROPERTY, "quick", 0)
    run(ctx)
    return list(ctx.violations.items())
