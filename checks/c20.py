"""C20  The unit-string interface is total, canonical and re-readable.

(a) spelling variants of every expression tree of a small grammar parse to equal units;
(b) str()/repr() of every unit in an algebraic closure parse back to an equal unit (identical expr and
    hash when there is no numeric coefficient);
(c) malformed input, exhaustively: every token sequence up to a length over a 16-token alphabet
    (concatenated and space separated), every single-character edit of a corpus, hostile strings, bytes:
    only UnitParseError may escape, and a vocabulary monitor (AST of the code handed to eval + audit
    hook) asserts that nothing outside the parser's vocabulary is evaluated.
"""

import ast
import itertools
import sys

from mc import harness, world
from mc.ref.dims import dim_of

PROPERTY = "C20"

import sympy.parsing.sympy_parser as _sp
import unyt
from unyt import dimensions as udims
from unyt._unit_lookup_table import default_unit_symbol_lut
from unyt.exceptions import UnitParseError, UnytError
from unyt.unit_object import Unit
from unyt.unit_registry import UnitRegistry

EPS = 2.0**-52

# ---- vocabulary monitor --------------------------------------------------------------------------------------
ALLOWED_NAMES = {"Symbol", "Integer", "Float", "Rational", "sqrt", "True", "positive"}
# syntax that could bind names or build code; subscripts, star-args or f-strings applied to Symbol objects
# reach eval but can only operate on the Symbols/numbers of the vocabulary (they fail with TypeError ->
# UnitParseError), so they are not counted as "outside the vocabulary"
BAD_NODES = (ast.Lambda, ast.ListComp, ast.SetComp, ast.DictComp, ast.GeneratorExp, ast.NamedExpr, ast.Await,
             ast.Yield, ast.YieldFrom)  # fmt: skip
MON = {"active": False, "events": [], "codes": 0, "bad": []}
_orig_eval_expr = _sp.eval_expr


def _monitored_eval_expr(code, local_dict, global_dict):
    MON["codes"] += 1
    try:
        tree = ast.parse(code.strip(), mode="eval")
    except SyntaxError:
        tree = None  # eval will raise the same SyntaxError; nothing gets evaluated
    if tree is not None:
        for node in ast.walk(tree):
            if isinstance(node, BAD_NODES):
                MON["bad"].append(("node", type(node).__name__))
            elif isinstance(node, ast.Name) and node.id not in ALLOWED_NAMES:
                # a name that resolves nowhere (e.g. the I that auto_number emits for 1j) raises
                # NameError before anything is evaluated; one that resolves would be evaluated
                import builtins

                if node.id in global_dict or (local_dict and node.id in local_dict) or hasattr(builtins, node.id):
                    MON["bad"].append(("name", node.id))
            elif isinstance(node, ast.Attribute) and node.attr not in ALLOWED_NAMES:
                MON["bad"].append(("attribute", node.attr))
            elif isinstance(node, ast.keyword) and node.arg not in ("positive", None):
                MON["bad"].append(("keyword", node.arg))
    MON["active"] = True
    try:
        return _orig_eval_expr(code, local_dict, global_dict)
    finally:
        MON["active"] = False


def _audit(event, args):
    if not MON["active"] or event in ("compile", "exec", "marshal.loads"):
        return
    head = event.split(".")[0]
    if event == "import":
        # sympy imports some of its own submodules lazily (floor division, Mod, ...): not user vocabulary
        mod = str(args[0]) if args else ""
        if mod.split(".")[0] in ("sympy", "mpmath"):
            return
        MON["events"].append(f"import:{mod}")
    elif event == "open":
        path = str(args[0]) if args else ""
        if "site-packages" in path or "/lib/python" in path:
            return
        MON["events"].append(f"open:{path}")
    elif head in ("os", "subprocess", "socket", "shutil", "ctypes", "pty", "urllib", "webbrowser", "pickle"):
        MON["events"].append(event)


_INSTALLED = False


def install_monitor():
    global _INSTALLED
    if not _INSTALLED:
        _sp.eval_expr = _monitored_eval_expr
        sys.addaudithook(_audit)
        _INSTALLED = True
        try:
            Unit("m*s")  # warm lazy imports outside the measured window
        except Exception:  # noqa: BLE001
            pass
        MON["events"].clear()
        MON["bad"].clear()


def try_unit(s, registry=None):
    """-> (kind, unit or exception name, monitor findings)"""
    MON["events"].clear()
    MON["bad"].clear()
    try:
        u = Unit(s, registry=registry) if registry is not None else Unit(s)
        kind = ("ok", u)
    except UnitParseError:
        kind = ("parse_error", None)
    except BaseException as e:  # noqa: BLE001
        if isinstance(e, (KeyboardInterrupt, SystemExit)) and not isinstance(s, (str, bytes)):
            raise
        kind = ("escaped", type(e).__name__)
    mon = (list(MON["bad"]), list(MON["events"]))
    return kind + (mon,)


def judge_total(ctx, s, res, part):
    kind, val, (bad, events) = res
    case = {"part": part, "string": s if isinstance(s, str) else repr(s)}
    if kind == "escaped":
        ctx.violation(f"C20|total|part={part}|mode=escaped-exception:{val}", case, "UnitParseError", val)
    for what, name in bad:
        # a name that is rewritten to Symbol(...) never shows up here; anything else was handed to eval
        ctx.violation(f"C20|vocabulary|what={what}|mode=evaluated-outside-vocabulary", case, sorted(ALLOWED_NAMES), name)
    for ev in events:
        ctx.violation(f"C20|vocabulary|event={ev.split('.')[0]}|mode=side-effect-during-eval", case, None, ev)


# ---- (c) malformed ------------------------------------------------------------------------------------------------
TOKENS = ["m", "s", "foo", "2", "0", "1.5", "*", "/", "**", "(", ")", "sqrt", "-", ",", ".", "%"]
EDIT_CHARS = list("ms2.*/()-+^@!'\";=[]{}\0\n°%,: _eE\\µΩ~`#$&|<>?")
HOSTILE = [
    "__import__('os')", "__import__('os').system('true')", "lambda: 1", "(lambda: 1)()", "m.__class__", "m.__class__.__mro__",
    "Symbol.__subclasses__()", "Symbol('x').__class__", "1e400*m", "1e-400*m", "(" * 500 + "m" + ")" * 500, "(" * 100 + "m" + ")" * 100,
    "m" + "*m" * 2000, "m**" + "9" * 400, "m**(1/0)", "0**-1", "m/0", "exec('1')", "eval('1')", "open('/etc/passwd')",
    "[m for m in (1,2)]", "{m: 1}", "m if s else g", "m; s", "import os", "m = 1", "m := 1", "print(1)", "f'{m}'", "'abc'",
    '"m"', "b'm'", "m\\", "m\n*s", "m\t*s", "\x00", "m\x00s", "𝓂", "м", "m̃", "①", "½m", "m²", "m^2", "m^-1", "m***s",
    "sqrt", "sqrt()", "sqrt(m,s)", "sqrt(m)(s)", "Symbol", "Symbol()", "Symbol(1)", "Integer", "Integer('x')", "Float('nan')*m",
    "Rational(1,0)*m", "Rational('x')", "True", "False", "None", "positive", "m**True", "True*m", "m**s", "2**m", "m**m**m",
    "-m", "+m", "~m", "not m", "m and s", "m or s", "m<s", "m==s", "m!=s", "m in s", "m is s", "m@s", "m//s", "m%s", "m|s", "m&s",
    "m>>1", "m<<1", "m[0]", "m()", "m(s)", "m.real", "m.s", "1.m", "1..2*m", "1e", "1e+", "0x10*m", "0b11*m", "0o7*m", "1_000*m",
    "1j*m", "(1+2j)*m", "...", "*", "**", "/", "()", "(,)", "(m,)", "(m,s)", " ", "\n", "#comment", "m #c", "m\\\n*s", "m*\\", "°", "%%",
    "%", "°C", "°°C", "Δ°C", "d°C", "%/%", "m %", "100%", "m**%", "dimensionless", "(dimensionless)", "1", "0", "1.0", "-1", "1/m",
    "Symbol('')", "Symbol('')*m", "Symbol(' ')", "Symbol('m s')", "Symbol('1')", "Symbol('')**2", "sqrt(Symbol(''))",
    "sqrt(-m)", "(-1)**0.5*m", "(-1)**(1/3)", "(-8)**(1/3)*m", "(-m)**(1/3)", "(-m)**(2/3)", "(-2)**-3*m", "(-m)**0.25", "(-1.5)**1.5*m", "m**(-1)**(1/3)", "sqrt(-4)*m", "(0-m)**(1/3)", "(-m)**2", "m**-0.5", "m**(1/3)", "m**(-1/3)", "m**1/3", "m**0", "m**0.0", "(m)", "((m))",
    "m*(s)", "m*(1+2)", "m+s", "m-m", "m*0", "0*m", "m/m", "kfoo", "foo", "kilofoo", "kkm", "dakm", "ddam", "code_length",
    "a" * 5000, "m*" * 3000 + "m", "Symbol('m', positive=True)", "Symbol('m', positive=True, real=False)",
    "Symbol('os').system", "Float('1e5')*m", "Integer(3)*m", "Rational(1,2)*m", "sqrt(Integer(4))*m",
    "globals()", "locals()", "vars()", "dir()", "__builtins__", "__name__", "quit()", "exit()", "help()", "input()", "breakpoint()",
]  # fmt: skip
CORPUS = None


def corpus():
    global CORPUS
    if CORPUS is None:
        atoms = ["m", "cm", "km", "g", "s", "hr", "K", "N", "erg", "Msun", "degC", "µm", "Ω", "Å", "%", "dB"]
        c = []
        for a in atoms:
            c += [a, f"{a}**2", f"1/{a}", f"sqrt({a})"]
        for a, b in itertools.product(atoms[:8], atoms[:8]):
            c.append(f"{a}*{b}")
            c.append(f"{a}/{b}**2")
        c += ["kg*m**2/s**2", "g/cm**3", "km/s/Mpc", "erg/(cm**2*s*Hz)", "2*m", "1.5e3*g", "m**(1/2)", "m**-0.5", "(m/s)**2", "sqrt(m/s)"]
        CORPUS = c[:200]
    return CORPUS


def edits(s):
    out = set()
    for i in range(len(s) + 1):
        for ch in EDIT_CHARS:
            out.add(s[:i] + ch + s[i:])
        if i < len(s):
            out.add(s[:i] + s[i + 1 :])
            for ch in EDIT_CHARS:
                out.add(s[:i] + ch + s[i + 1 :])
    return out


def part_tokens(ctx, shard):
    install_monitor()
    world.reset_world()
    n, prefix = shard
    oks = 0
    for rest in itertools.product(TOKENS, repeat=n - len(prefix)):
        toks = prefix + rest
        for sep in ("", " "):
            s = sep.join(toks)
            ctx.count("evaluations")
            res = try_unit(s)
            judge_total(ctx, s, res, "tokens")
            ctx.outcome((res[0], res[1] if res[0] == "escaped" else None))
            if res[0] == "ok":
                oks += 1
                ctx.decided(s)
    ctx.count("transitions", MON["codes"])
    MON["codes"] = 0
    ctx.count("token_strings_accepted", oks)
    world.D._unit_object_cache.clear()
    ctx.sample({"token_prefix": list(prefix), "length": n})


def part_edits(ctx, shard):
    install_monitor()
    world.reset_world()
    for base in shard:
        for s in sorted(edits(base)):
            ctx.count("evaluations")
            res = try_unit(s)
            judge_total(ctx, s, res, "edits")
            ctx.outcome((res[0], res[1] if res[0] == "escaped" else None))
            ctx.decided(s)
    ctx.count("transitions", MON["codes"])
    MON["codes"] = 0
    world.D._unit_object_cache.clear()


def part_hostile(ctx, shard):
    install_monitor()
    for s in shard:
        for form in (s, s.encode("utf-8", "surrogatepass") if isinstance(s, str) else s):
            ctx.count("evaluations")
            res = try_unit(form)
            judge_total(ctx, form, res, "hostile")
            ctx.outcome((res[0], res[1] if res[0] == "escaped" else None))
            ctx.decided(repr(form)[:80])
    for bad in (b"\xff\xfe", b"m\xffs", bytearray(b"m"), 3, 2.5, None, ["m"], ("m",), {"m": 1}, object()):
        ctx.count("evaluations")
        res = try_unit(bad)
        if res[0] == "escaped" and isinstance(bad, (bytes,)):
            judge_total(ctx, bad, res, "bytes")
        elif res[0] == "escaped":
            ctx.note_set("non_string_input_exceptions", f"{type(bad).__name__}:{res[1]}")
    ctx.count("transitions", MON["codes"])
    MON["codes"] = 0


def part_names(ctx, shard):
    """every builtin / sympy / math name, bare, called and multiplied: must be rewritten to a Symbol."""
    install_monitor()
    for name in shard:
        for s in (name, f"{name}(m)", f"{name}*m", f"m.{name}", f"{name}.{name}", f"{name}(2)*m"):
            ctx.count("evaluations")
            res = try_unit(s)
            judge_total(ctx, s, res, "names")
            ctx.outcome((res[0],))
            ctx.decided(s)
            if res[0] == "ok" and name not in ALLOWED_NAMES and s != name and "(" in s:
                # a call that succeeds means the name resolved to something callable
                ctx.violation("C20|vocabulary|what=call|mode=evaluated-outside-vocabulary", {"part": "names", "string": s}, "UnitParseError", "accepted")
    ctx.count("transitions", MON["codes"])
    MON["codes"] = 0
    world.D._unit_object_cache.clear()


def vocabulary_probe_names():
    import builtins
    import keyword
    import math

    import sympy

    names = set(dir(builtins)) | set(dir(sympy)) | set(dir(math)) | set(keyword.kwlist)
    names |= {"os", "sys", "np", "numpy", "unyt", "sympy", "__import__", "__builtins__", "__class__", "__globals__", "self"}
    return sorted(n for n in names if n.isidentifier())


# ---- (b) print round trip ----------------------------------------------------------------------------------------
RT_ALPHABET = ["m", "cm", "km", "g", "kg", "s", "hr", "K", "N", "erg", "J", "mile", "Msun", "statC", "G", "T", "A", "rad",
               "degree", "arcsec", "µm", "Ω", "Å", "eV", "keV", "Hz", "Pa", "W", "V", "C", "mol", "cd", "lm", "sr", "dB", "Np",
               "%", "dimensionless", "pc", "Mpc", "yr", "Myr", "L", "mL", "ha", "lbf", "psi", "degC", "degF", "delta_degC",
               "delta_degF", "R", "mK", "lat", "lon", "code_length", "code_mass"]  # fmt: skip
RT_EXPS = [-2, -1, -0.5, 1 / 3, 0.5, 1.5, 2, 3, 2 / 3, 0.1]


def rt_registry():
    r = UnitRegistry()
    r.add("code_length", 3.2, udims.length)
    r.add("code_mass", 64.0, udims.mass, prefixable=True)
    return r


def unit_facts(u):
    return float(u.base_value), dim_of(u.dimensions), float(u.base_offset)


def check_roundtrip(ctx, u, how, case):
    ctx.count("evaluations")
    sc, dim, off = unit_facts(u)
    try:
        coeff_free = not any(a.is_Number and a != 1 for a in u.expr.as_coeff_Mul()[:1]) and not u.expr.is_Number
    except Exception:  # noqa: BLE001
        coeff_free = False
    for label, text in (("str", str(u)), ("repr", repr(u))):
        ctx.count("transitions")
        res = try_unit(text, registry=u.registry)
        judge_total(ctx, text, res, "roundtrip")
        ctx.decided((label, text))
        ctx.outcome((label, how, res[0]))
        c = dict(case, printed=text, via=label)
        spec = _special(u)
        if res[0] != "ok":
            ctx.violation(f"C20|roundtrip|via={label}|how={how}|unit={spec}|mode=unparseable-print", c, "parses", res[0])
            continue
        v = res[1]
        s2, d2, o2 = unit_facts(v)
        if d2 != dim:
            ctx.violation(f"C20|roundtrip|via={label}|how={how}|unit={spec}|mode=dimension-changed", c, (sc, dim, off), (s2, d2, o2))
        elif abs(o2 - off) > 1e-12 * max(1.0, abs(off)):
            ctx.violation(f"C20|roundtrip|via={label}|how={how}|unit={spec}|mode=offset-changed", c, (sc, dim, off), (s2, d2, o2))
        elif abs(s2 - sc) > 16 * EPS * abs(sc):
            ctx.violation(f"C20|roundtrip|via={label}|how={how}|unit={spec}|mode=scale-changed", c, (sc, dim, off), (s2, d2, o2))
        elif coeff_free:
            if v.expr != u.expr:
                ctx.violation(f"C20|roundtrip|via={label}|how={how}|unit={spec}|mode=expression-changed", c, str(u.expr), str(v.expr))
            elif hash(v) != hash(u):
                ctx.violation(f"C20|roundtrip|via={label}|how={how}|unit={spec}|mode=hash-changed", c, None, None)


def _special(u):
    s = str(u.expr)
    for k in ("delta_degC", "delta_degF", "degC", "degF", "lat", "lon", "dB", "Np"):
        if k in s:
            return k
    return "generic"


def part_roundtrip(ctx, shard):
    install_monitor()
    world.reset_world()
    r = rt_registry()
    units = {n: Unit(n, registry=r) for n in RT_ALPHABET}
    for n1 in shard:
        u = units[n1]
        check_roundtrip(ctx, u, "atom", {"part": "roundtrip", "u": n1})
        for p in RT_EXPS:
            try:
                w = u**p
            except Exception:  # noqa: BLE001  (what the algebra refuses or chokes on is C05's business; here only printed units are judged)
                continue
            check_roundtrip(ctx, w, "pow", {"part": "roundtrip", "u": n1, "p": p})
        for n2, v in units.items():
            for how, f in (("mul", lambda: u * v), ("div", lambda: u / v), ("div_sq", lambda: u / v**2), ("sqrt_mul", lambda: (u * v) ** 0.5),
                           ("unit-ratio-times", lambda: (v / v) * u), ("times-unit-ratio", lambda: u * (v / v)), ("over-unit-ratio", lambda: u / (v / v))):
                try:
                    w = f()
                except Exception:  # noqa: BLE001  (what the algebra refuses or chokes on is C05's business; here only printed units are judged)
                    continue
                case = {"part": "roundtrip", "u": n1, "v": n2, "how": how}
                check_roundtrip(ctx, w, how, case)
                if how in ("mul", "div"):
                    try:
                        sw = Unit(w.expr, w.base_value, w.base_offset, w.dimensions, w.registry).simplify()
                    except Exception:  # noqa: BLE001  (what the algebra refuses or chokes on is C05's business; here only printed units are judged)
                        continue
                    check_roundtrip(ctx, sw, how + "+simplify", case)
        for c in (2, 0.5, 1e3, 1e-7, 12345.678):
            try:
                q = unyt.unyt_quantity(c, u)
                w = Unit(q, registry=r)
            except Exception:  # noqa: BLE001  (what the algebra refuses or chokes on is C05's business; here only printed units are judged)
                continue
            check_roundtrip(ctx, w, "coef", {"part": "roundtrip", "u": n1, "c": c})
    ctx.sample({"roundtrip_of": shard[:3]})


# ---- (b') persisted text: pickle / savetxt carry the unit as text + a table; what comes back denotes what was written ------
PERSIST_UNITS = ["m", "Msun", "Msun/pc**3", "Zsun", "yr", "km/s/Mpc", "code_length", "kcode_mass", "code_length**2/yr", "degC", "µm", "erg/Msun", "sqrt(pc)"]


def persist_registry():
    r = rt_registry()
    for sym, v in (("Msun", 2.0e30), ("pc", 4.0e16), ("Zsun", 0.0134), ("yr", 3.0e7)):
        r.modify(sym, v)
    return r


def part_persist(ctx, shard):
    import os
    import pickle
    import tempfile

    import numpy as np

    install_monitor()
    world.reset_world()
    for text in shard:
        for regkind in ("default", "edited"):
            if regkind == "default" and "code_" in text:
                continue
            reg = None if regkind == "default" else persist_registry()
            u = Unit(text, registry=reg) if reg is not None else Unit(text)
            sc, dim, off = unit_facts(u)
            holders = {"unit": lambda: u, "array": lambda: unyt.unyt_array(np.array([1.0, 2.0]), u), "quantity": lambda: unyt.unyt_quantity(3.0, u)}
            for hname, mk in holders.items():
                for proto in (2, 3, 4, 5):  # SymPy objects refuse protocols 0 and 1
                    ctx.count("evaluations")
                    case = {"part": "persist", "text": text, "registry": regkind, "holder": hname, "via": f"pickle{proto}"}
                    base = f"C20|persist|via=pickle|holder={hname}|registry={regkind}"
                    try:
                        back = pickle.loads(pickle.dumps(mk(), protocol=proto))
                    except Exception as e:  # noqa: BLE001
                        ctx.violation(base + f"|mode=round-trip-raises:{type(e).__name__}", case, None, str(e)[:100])
                        continue
                    bu = back if isinstance(back, Unit) else back.units
                    ctx.decided(("persist", text, regkind, hname, proto))
                    if str(bu) != str(u):
                        ctx.violation(base + "|mode=text-changed", case, str(u), str(bu))
                    f2 = unit_facts(bu)
                    if f2[1] != dim or abs(f2[0] - sc) > 1e-12 * abs(sc) or abs(f2[2] - off) > 1e-9 * max(1.0, abs(off)):
                        ctx.violation(base + "|mode=restored-unit-denotes-another-unit", case, (sc, str(dim), off), (f2[0], str(f2[1]), f2[2]))
                    # the persisted TEXT read against the restored table
                    try:
                        f3 = unit_facts(Unit(str(bu), registry=bu.registry))
                    except Exception as e:  # noqa: BLE001
                        ctx.violation(base + f"|mode=persisted-text-unreadable-in-restored-registry:{type(e).__name__}", case, str(u), str(e)[:80])
                        continue
                    if f3[1] != dim or abs(f3[0] - sc) > 1e-12 * abs(sc):
                        ctx.violation(base + "|mode=persisted-text-denotes-another-unit-in-restored-registry", case, (sc, str(dim)), (f3[0], str(f3[1])))
            if regkind == "default":
                ctx.count("evaluations")
                fd, fn = tempfile.mkstemp(prefix="c20_", suffix=".txt", dir="/tmp")
                os.close(fd)
                case = {"part": "persist", "text": text, "registry": regkind, "via": "savetxt"}
                try:
                    unyt.savetxt(fn, [unyt.unyt_array(np.array([1.0, 2.0]), u)])
                    back = unyt.loadtxt(fn)
                    f2 = unit_facts(back.units)
                    ctx.decided(("persist", text, "savetxt"))
                    if f2[1] != dim or abs(f2[0] - sc) > 1e-12 * abs(sc) or abs(f2[2] - off) > 1e-9 * max(1.0, abs(off)):
                        ctx.violation("C20|persist|via=savetxt|mode=restored-unit-denotes-another-unit", case, (sc, str(dim), off), (f2[0], str(f2[1]), f2[2]))
                    # the header line that carries the unit texts, next to a second column and under every column delimiter
                    for delim in ("\t", ",", ";", " "):
                        ctx.count("evaluations")
                        unyt.savetxt(fn, [unyt.unyt_array(np.array([1.0, 2.0]), u), unyt.unyt_array(np.array([3.0, 4.0]), "km/s")], delimiter=delim)
                        cols = unyt.loadtxt(fn, delimiter=delim)
                        ctx.decided(("persist", text, "savetxt-2col", delim))
                        f3 = unit_facts(cols[0].units) if isinstance(cols, tuple) and len(cols) == 2 else None
                        if f3 is None or f3[1] != dim or abs(f3[0] - sc) > 1e-12 * abs(sc) or unit_facts(cols[1].units)[1] != dim_of(Unit("km/s").dimensions):
                            ctx.violation("C20|persist|via=savetxt-two-columns|mode=restored-unit-denotes-another-unit", dict(case, delimiter=delim), (sc, str(dim)), None if f3 is None else (f3[0], str(f3[1])))
                except Exception as e:  # noqa: BLE001
                    ctx.violation(f"C20|persist|via=savetxt|mode=round-trip-raises:{type(e).__name__}", case, None, str(e)[:100])
                finally:
                    os.remove(fn)


# ---- (a) spelling variants ------------------------------------------------------------------------------------------
VARIANT_ATOMS = [("m", "m"), ("µm", "um"), ("Ω", "ohm"), ("Å", "angstrom"), ("g", "g"), ("s", "s"), ("degC", "°C"), ("μs", "us")]
VARIANT_EXPS = [("-1", ["**-1", "**(-1)", "**-1.0", "**(-1.0)"]), ("2", ["**2", "**(2)", "**2.0", "** 2"]),
                ("1/2", ["**(1/2)", "**0.5", "**(0.5)", "**( 1 / 2 )"]), ("-1/2", ["**(-1/2)", "**-0.5", "**(-0.5)"]),
                ("3/2", ["**(3/2)", "**1.5"]), ("1/3", ["**(1/3)", "**(1.0/3)"])]  # fmt: skip


def part_variants(ctx, shard):
    install_monitor()
    world.reset_world()
    for (a1, a1b), (a2, a2b) in shard:
        groups = []
        for e, spellings in VARIANT_EXPS:
            groups.append([f"{x}{sp}" for x in (a1, a1b) for sp in spellings])
            groups.append([f"{x}*{y}{sp}" for x in (a1, a1b) for y in (a2, a2b) for sp in spellings]
                          + [f"{x} * {y}{sp}" for x in (a1,) for y in (a2,) for sp in spellings])
            if e == "-1":
                groups[-1] += [f"{x}/{y}" for x in (a1, a1b) for y in (a2, a2b)] + [f"{a1} / {a2}", f"1/{a2}*{a1}", f"{a1}*(1/{a2})"]
                groups[-2] += [f"1/{x}" for x in (a1, a1b)] + [f"1 / {a1}", f"({a1})**-1"]
            if e == "1/2":
                groups[-2] += [f"sqrt({x})" for x in (a1, a1b)]
        for grp in groups:
            facts = []
            for s in grp:
                ctx.count("evaluations")
                ctx.count("transitions")
                res = try_unit(s)
                judge_total(ctx, s, res, "variants")
                if res[0] == "ok":
                    facts.append((s, unit_facts(res[1]), res[1]))
                else:
                    facts.append((s, None, None))
            ok = [f for f in facts if f[1] is not None]
            ctx.outcome(("variants", len(ok), len(facts)))
            if not ok:
                continue
            ref = ok[0]
            for s, f, u in facts:
                ctx.decided(s)
                case = {"part": "variants", "a": [a1, a1b], "b": [a2, a2b], "string": s, "reference": ref[0]}
                if f is None:
                    ctx.violation("C20|variants|mode=one-spelling-rejected", case, ref[0], s)
                elif f[1] != ref[1][1] or abs(f[0] - ref[1][0]) > 16 * EPS * abs(ref[1][0]) or f[2] != ref[1][2] or not (u == ref[2]):
                    ctx.violation("C20|variants|mode=spellings-denote-different-units", case, ref[1], f)


def run(ctx):
    n = 5 if ctx.tier == "quick" else 6
    shards = []
    for L in range(1, n + 1):
        if L <= 2:
            shards.append((L, ()))
        else:
            shards += [(L, pre) for pre in itertools.product(TOKENS, repeat=2)]
    harness.pmap(ctx, part_tokens, shards)
    cor = corpus()
    harness.pmap(ctx, part_edits, [cor[i : i + 4] for i in range(0, len(cor), 4)])
    part_hostile(ctx, HOSTILE)
    probe = vocabulary_probe_names()
    harness.pmap(ctx, part_names, [probe[i : i + 100] for i in range(0, len(probe), 100)])
    harness.pmap(ctx, part_roundtrip, [[nme] for nme in RT_ALPHABET])
    harness.pmap(ctx, part_persist, [[t] for t in PERSIST_UNITS])
    pairs = list(itertools.product(VARIANT_ATOMS, VARIANT_ATOMS))
    harness.pmap(ctx, part_variants, [pairs[i : i + 4] for i in range(0, len(pairs), 4)])
    return {
        "coverage": {
            "rule": f"(c) all token sequences of length <= {n} over a 16-token alphabet, concatenated and space separated; "
            "all single-character insert/delete/replace edits (41-character alphabet) of a 200-string valid corpus; a fixed "
            "hostile list as str and bytes; (b) str/repr round trip of every unit in a closure (57 atoms incl. custom "
            "registry, powers, all pairwise products/quotients, simplify, coefficients); (a) all spelling variants of "
            "small expressions. Every Unit(s) call runs under the vocabulary monitor. A decided case is a distinct string.",
            "axes": {"tokens": TOKENS, "max_len": n, "corpus": len(cor), "edit_chars": len(EDIT_CHARS), "hostile": len(HOSTILE),
                     "roundtrip_atoms": len(RT_ALPHABET), "roundtrip_exponents": RT_EXPS},
        },
        "assumptions": [
            "sympy.parsing.sympy_parser.parse_expr looks eval_expr up as a module global (verified): the harness wraps it",
            "a byte-level fuzzer is replaced by the complete token language up to the bound and the complete 1-edit neighbourhood",
        ],
    }


def replay(case):
    ctx = harness.Ctx(PROPERTY, "quick", 0)
    install_monitor()
    part = case["part"]
    if part in ("tokens", "edits", "hostile", "bytes", "names"):
        s = case["string"]
        if part in ("hostile", "bytes") and s.startswith("b'"):
            s = ast.literal_eval(s)
        judge_total(ctx, s, try_unit(s), part)
    elif part == "roundtrip":
        part_roundtrip(ctx, [case["u"]])
    elif part == "variants":
        part_variants(ctx, [(tuple(case["a"]), tuple(case["b"]))])
    elif part == "persist":
        part_persist(ctx, [case["text"]])
    return list(ctx.violations.items())
