"""C02  Every unit's scale and dimension agree with its definition.

(a) names:     every resolvable name (3872) and every table symbol x every prefix spelling is resolved by
               unyt and by the independent definition table (ref/deftable.py) + my own prefix splitter.
(b) pairs:     every ordered pair of names sharing a dimension: x.to(u2) == x*scale(u1)/scale(u2) (affine
               for offset units), get_conversion_factor likewise.
(c) compounds: the complete language of a small expression grammar (<= 3 factors, exponent and
               coefficient alphabets) is evaluated by Unit(string), by the reference parser and through
               Unit operator algebra; all three must agree on scale and dimension.
"""

import itertools
import math

import numpy as np

from mc import harness, world
from mc.ref import deftable, rparse
from mc.ref.dims import dim_of

PROPERTY = "C02"

import unyt
from unyt import unyt_quantity
from unyt._unit_lookup_table import default_unit_symbol_lut, inv_name_alternatives, unit_prefixes
from unyt.exceptions import UnitParseError
from unyt.unit_object import Unit

EPS = 2.0**-52


def lib_constants():
    """SI magnitudes of the library's own constants (inputs of the 'derived' rows)."""
    import unyt.physical_constants as pc

    def si(q):
        return float(q.d) * float(q.units.base_value)

    return {
        "hbar": si(pc.hbar),
        "c": si(pc.c),
        "G": si(pc.G),
        "kb": si(pc.kb),
        "eps_0": si(pc.eps_0),
        "Msun": si(pc.Msun),
    }


def ref_rows():
    rows = dict(deftable.ROWS)
    k = lib_constants()
    for name, (f, dim) in deftable.DERIVED.items():
        rows[name] = (float(f(k)), dim, 0.0, False, "derived", deftable.DERIVED_TOL)
    return rows


def real_triplet(u):
    return float(u.base_value), dim_of(u.dimensions), float(u.base_offset)


def rel(a, b):
    if a == b:
        return 0.0
    return abs(a - b) / max(abs(a), abs(b))


# ---- (a) names ------------------------------------------------------------------------------------------
def part_names(ctx, shard):
    rows = ref_rows()
    table = {k: (v[0], v[1], v[2], v[3]) for k, v in rows.items()}
    for kind, name in shard:
        ctx.count("evaluations")
        ctx.count("transitions")
        if kind == "alias":
            canon = inv_name_alternatives[name]
        else:
            canon = name
        # reference reading
        try:
            sc, dim, off = rparse.resolve(canon, table)
            sp = None if canon in table else rparse.split_prefix(canon, table)
            base = canon if sp is None else sp[1]
            tol = rows[base][5]
            # a prefix adds one rounding (float product)
            tol = max(tol, deftable.EXACT) + (2 * EPS if sp else 0.0)
            ref = ("ok", sc, dim, off)
        except rparse.RParseError:
            ref, base, tol = ("unknown",), canon, 0.0
        if kind == "prefix" and name in inv_name_alternatives and ref[0] == "unknown":
            # the string is itself a listed alias of something: that reading wins (C14's business)
            ctx.count("prefix_string_is_alias")
            continue
        try:
            u = Unit(name)
            got = ("ok",) + real_triplet(u)
        except UnitParseError:
            got = ("unknown",)
        ctx.outcome((kind, got[0], ref[0], base))
        ctx.decided((kind, name))
        key = None
        if got[0] == "unknown":
            # C02 speaks about expressions unyt *accepts*; an unusable listed name is C14's matter
            ctx.count("names_not_accepted_by_unyt")
            continue
        if got[0] != ref[0]:
            key = f"C02|name|sym={base}|mode=resolves-but-undefined"
        elif got[0] == "ok":
            gsc, gdim, goff = got[1:]
            if gdim != ref[2]:
                key = f"C02|name|sym={base}|mode=wrong-dimension"
            elif rel(gsc, ref[1]) > tol:
                key = f"C02|name|sym={base}|mode=wrong-scale"
            elif abs(goff - ref[3]) > 1e-12 * max(1.0, abs(ref[3])):
                key = f"C02|name|sym={base}|mode=wrong-offset"
        if key:
            ctx.violation(key, {"part": "names", "kind": kind, "name": name}, ref, got)
        if kind == "alias" and name in ("nautical_mile", "kilometer", "mm"):
            ctx.sample({"name": name, "unyt": got, "reference": ref})


def names_cases():
    cases = [("alias", n) for n in inv_name_alternatives]
    for sym in default_unit_symbol_lut:
        for p in unit_prefixes:
            cases.append(("prefix", p + sym))
    return cases


# ---- (b) pairs ------------------------------------------------------------------------------------------
def pair_names(tier):
    if tier == "thorough":
        return list(inv_name_alternatives)
    names = list(default_unit_symbol_lut)
    for s, row in default_unit_symbol_lut.items():
        if row[4]:
            names += ["k" + s, "m" + s, "µ" + s]
    return names


def part_pairs(ctx, shard):
    world.reset_world()
    vals = [1.0, -2.5, 273.15][ctx.seed % 3 :] + [1.0, -2.5, 273.15][: ctx.seed % 3]
    for names_a, names_b in shard:
        ua, ub = [], []
        for names, units in ((names_a, ua), (names_b, ub)):
            for n in names:
                u = Unit(n)
                units.append((n, u, float(u.base_value), float(u.base_offset)))
        names = names_a
        for (n1, u1, s1, o1), (n2, u2, s2, o2) in itertools.product(ua, ub):
            ctx.count("evaluations")
            ctx.count("transitions", 2)
            x = vals[0] if (o1 or o2) else vals[1]
            try:
                q = unyt_quantity(x, u1)
                got = float(q.to(u2).d)
                f, off = u1.get_conversion_factor(u2)
            except Exception as e:  # noqa: BLE001
                ctx.outcome(("pair-raise", type(e).__name__))
                ctx.violation(
                    f"C02|convert|from={_basekey(n1)}|to={_basekey(n2)}|mode=raises:{type(e).__name__}",
                    {"part": "pairs", "from": n1, "to": n2, "value": x},
                    "a number",
                    repr(e),
                )
                continue
            # physical (SI) value is invariant: (x - oX)*sX with unyt's convention value_SI = x*s + ...
            # unyt: SI = (x + o1_eff) * s1 ; here use the statement: x*scale1/scale2 (+ affine offsets)
            want = _affine(x, n1, s1, o1, n2, s2, o2)
            by_hand = x * f - (off or 0.0)
            mag = max(abs(x * s1), abs(want * s2), abs(_off_si(n1, s1, o1)), abs(_off_si(n2, s2, o2)))
            tol_si = 64 * EPS * mag
            ctx.outcome(("pair", bool(o1), bool(o2), n1 == n2))
            ctx.decided((n1, n2))
            if abs(got * s2 - want * s2) > tol_si or abs(by_hand * s2 - want * s2) > tol_si:
                ctx.violation(
                    f"C02|convert|from={_basekey(n1)}|to={_basekey(n2)}|mode=wrong-factor",
                    {"part": "pairs", "from": n1, "to": n2, "value": x},
                    want,
                    {"to": got, "factor_by_hand": by_hand},
                )
        if len(names) > 3:
            ctx.sample({"pair_group": names[:6], "n": len(names)})


def _prefix_of(name):
    canon = inv_name_alternatives.get(name, name)
    if canon in default_unit_symbol_lut:
        return ""
    if canon.startswith("da"):
        return "da"
    return canon[:1]


def _off_si(name, scale, off):
    """Absolute SI size of the affine offset of a unit.

    unyt stores offsets in units of the *unprefixed* scale (degC: -273.15 with scale 1; a prefixed
    mdegC has scale 1e-3 and the same offset row, the conversion code divides it back out).
    """
    if not off:
        return 0.0
    p = _prefix_of(name)
    if p:
        return off * (scale / float(rparse.PREFIXES[p]))
    return off * scale


def _affine(x, n1, s1, o1, n2, s2, o2):
    """Reference affine map: value_SI = x*s1 - off1_SI ; result = (value_SI + off2_SI)/s2.

    Sign convention derived from the definitions: 0 degC = 273.15 K with table offset -273.15,
    i.e. K = degC*1 - (-273.15).
    """
    si = x * s1 - _off_si(n1, s1, o1)
    return (si + _off_si(n2, s2, o2)) / s2


def _basekey(name):
    canon = inv_name_alternatives.get(name, name)
    if canon in default_unit_symbol_lut:
        return canon
    sp = rparse.split_prefix(canon, {k: (0, 0, 0, v[4]) for k, v in default_unit_symbol_lut.items()})
    return sp[1] if sp else canon


def pair_groups(tier):
    groups = {}
    for n in pair_names(tier):
        try:
            u = Unit(n)
        except UnitParseError:
            continue
        groups.setdefault(str(dim_of(u.dimensions)), []).append(n)
    out = []
    for dim, names in sorted(groups.items()):
        # split very large groups into blocks x blocks so that all ordered pairs are still covered
        B = 120
        blocks = [names[i : i + B] for i in range(0, len(names), B)]
        for a in blocks:
            for b in blocks:
                out.append((a, b))
    return out


# ---- (c) compounds ---------------------------------------------------------------------------------------
ATOMS = ["m", "cm", "km", "g", "s", "hr", "K", "N", "erg", "mile", "Msun", "statC"]
ATOMS_SMALL = ["m", "km", "g", "hr", "erg", "statC"]
EXPS = ["-2", "-1", "-1/2", "1/3", "1/2", "1", "3/2", "2", "3", "0.5", "2.0"]
EXPS_SMALL = ["-1", "2", "1/2"]
COEFS = [None, "2", "0.5", "1e3"]


def factor_forms(atoms, exps):
    out = []
    for a in atoms:
        out.append(("atom", a))
        for p in exps:
            out.append(("pow", a, p))
        out.append(("sqrt", a))
    return out


def render(f):
    k = f[0]
    if k == "atom":
        return f[1]
    if k == "pow":
        p = f[2]
        return f"{f[1]}**({p})" if ("/" in p or p.startswith("-")) else f"{f[1]}**{p}"
    if k == "sqrt":
        return f"sqrt({f[1]})"
    if k == "mul":
        return f"{render(f[1])}*{render(f[2])}"
    if k == "div":
        return f"{render(f[1])}/{render(f[2])}"
    if k == "group_pow":
        return f"({render(f[1])})**({f[2]})"
    if k == "group_sqrt":
        return f"sqrt({render(f[1])})"
    if k == "div_group":
        return f"{render(f[1])}/({render(f[2])})"
    if k == "coef":
        return f"{f[1]}*{render(f[2])}"
    if k == "numsqrt":
        return f"sqrt({f[1]})"
    if k == "numpow":
        return f"{f[1]}**({f[2]})"
    raise ValueError(f)


def _exp_value(p):
    from fractions import Fraction

    if "/" in p:
        a, b = p.split("/")
        return Fraction(int(a), int(b))
    return Fraction(p)


def algebra(f):
    """Evaluate the tree through Unit operator algebra -> (numeric coefficient, Unit)."""
    k = f[0]
    if k == "atom":
        return 1.0, Unit(f[1])
    if k == "pow":
        p = _exp_value(f[2])
        return 1.0, Unit(f[1]) ** (float(p) if "." in f[2] else p)
    if k == "sqrt":
        return 1.0, Unit(f[1]) ** 0.5
    if k == "mul":
        (c1, u1), (c2, u2) = algebra(f[1]), algebra(f[2])
        return c1 * c2, u1 * u2
    if k in ("div", "div_group"):
        (c1, u1), (c2, u2) = algebra(f[1]), algebra(f[2])
        return c1 / c2, u1 / u2
    if k == "group_pow":
        c, u = algebra(f[1])
        p = _exp_value(f[2])
        return c ** float(p), u**p
    if k == "group_sqrt":
        c, u = algebra(f[1])
        return c**0.5, u**0.5
    if k == "coef":
        c, u = algebra(f[2])
        return float(f[1]) * c, u
    if k == "numsqrt":
        return float(f[1]) ** 0.5, Unit()
    if k == "numpow":
        return float(f[1]) ** float(_exp_value(f[2])), Unit()
    raise ValueError(f)


def shape_of(f):
    k = f[0]
    if k in ("atom", "pow", "sqrt", "numsqrt", "numpow"):
        return k
    if k == "coef":
        return "coef." + shape_of(f[2])
    if k in ("group_pow", "group_sqrt"):
        return k + "(" + shape_of(f[1]) + ")"
    return k + "(" + shape_of(f[1]) + "," + shape_of(f[2]) + ")"


def compound_cases(tier):
    full = factor_forms(ATOMS, EXPS)
    small = factor_forms(ATOMS_SMALL, EXPS_SMALL)
    for f in full:
        for c in COEFS:
            yield ("coef", c, f) if c else f
    for a, b in itertools.product(full, full):
        yield ("mul", a, b)
        yield ("div", a, b)
    three = small if tier == "quick" else factor_forms(ATOMS_SMALL + ["s", "N"], EXPS_SMALL + ["-2", "1/3"])
    for a, b, c in itertools.product(three, three, three):
        yield ("mul", ("mul", a, b), c)
        yield ("div", ("mul", a, b), c)
        yield ("div", ("div", a, b), c)
        yield ("div_group", a, ("mul", b, c))
    for a, b in itertools.product(small, small):
        for p in EXPS:
            yield ("group_pow", ("mul", a, b), p)
            yield ("group_pow", ("div", a, b), p)
        yield ("group_sqrt", ("mul", a, b))
        yield ("group_sqrt", ("div", a, b))
        for c in COEFS[1:]:
            yield ("coef", c, ("div", a, b))
            yield ("group_sqrt", ("coef", c, ("mul", a, b)))
    # numeric factors under a root or power (the coefficient's exponent must be applied to it too)
    for a in full:
        for c in COEFS[1:] + ["8", "3"]:
            yield ("group_sqrt", ("coef", c, a))
            yield ("mul", ("numsqrt", c), a)
            yield ("div", a, ("numsqrt", c))
            for p in ("1/2", "1/3", "-1", "2", "0.5", "3/2"):
                yield ("group_pow", ("coef", c, a), p)
                yield ("mul", ("numpow", c, p), a)


_REFTAB = None


def lib_table():
    global _REFTAB
    if _REFTAB is None:
        _REFTAB = rparse.table_from_lut(default_unit_symbol_lut)
    return _REFTAB


def eval_compound(ctx, f):
    s = render(f)
    case = {"part": "compound", "tree": f, "string": s}
    nf = s.count("*") + s.count("/") + 2
    tol = 64 * EPS * nf
    try:
        r = rparse.parse(s, lib_table(), inv_name_alternatives)
        ref = ("ok", r.scale, r.dim)
    except rparse.RParseError as e:
        ref = ("unknown", str(e))
    try:
        u = Unit(s)
        got = ("ok", float(u.base_value), dim_of(u.dimensions))
    except Exception as e:  # noqa: BLE001
        got = ("raise", type(e).__name__)
    try:
        c, a = algebra(f)  # numeric coefficient kept apart, folded into the scale here
        alg = ("ok", c * float(a.base_value), dim_of(a.dimensions))
    except Exception as e:  # noqa: BLE001
        alg = ("raise", type(e).__name__)
    shape = shape_of(f)
    ctx.outcome((shape, got[0], alg[0], ref[0]))
    ctx.decided(s)
    if ref[0] != "ok":
        ctx.count("compound_reference_refuses")
        return
    for label, obs in (("string", got), ("algebra", alg)):
        if obs[0] != "ok":
            ctx.violation(f"C02|compound|route={label}|shape={shape}|mode=raises:{obs[1]}", case, ref, obs)
        elif obs[2] != ref[2]:
            ctx.violation(f"C02|compound|route={label}|shape={shape}|mode=wrong-dimension", case, ref, obs)
        elif rel(obs[1], ref[1]) > tol:
            ctx.violation(f"C02|compound|route={label}|shape={shape}|mode=wrong-scale", case, ref, obs)


def part_compound(ctx, shard):
    world.reset_world()
    for f in shard:
        ctx.count("evaluations")
        ctx.count("transitions", 2)
        eval_compound(ctx, f)
    ctx.sample({"compound": render(shard[len(shard) // 2])})


def chunks(it, n):
    buf = []
    for x in it:
        buf.append(x)
        if len(buf) == n:
            yield buf
            buf = []
    if buf:
        yield buf


DEFINE_SPECS = [  # (value, unit it is given in, exact SI scale, dimension of the new unit)
    (0.75, "m", 0.75, "length"), (3.0, "km", 3000.0, "length"), (2.0, "hr", 7200.0, "time"), (5.0, "g", 0.005, "mass"),
    (1.5, "erg", 1.5e-7, "energy"), (2.0, "mile/hr", 2.0 * 1609.344 / 3600.0, "velocity"), (4.0, "dyn", 4.0e-5, "force"),
    # electromagnetic definitions: SI ones, and Gaussian ones (scale None = v x the table's own scale of that Gaussian unit,
    # which the names part checks; the new unit keeps the Gaussian dimension)
    (3.0, "mT", 3.0e-3, "magnetic_field_mks"), (2.0, "mC", 2.0e-3, "charge_mks"), (5.0, "kV", 5.0e3, "electric_potential_mks"),
    (1000.0, "G", None, "magnetic_field_cgs"), (2.0, "statC", None, "charge_cgs"), (3.0, "statV", None, "electric_potential_cgs"), (7.0, "statA", None, "current_cgs"),
]


def part_define(ctx, shard):
    """user-defined units: the scale stored by define_unit / UnitRegistry.add / modify is the SI scale of the definition,
    whatever default unit system the registry was created with, and prefixed / compound uses inherit it"""
    from unyt import dimensions as udims
    from unyt.unit_object import define_unit
    from unyt.unit_registry import UnitRegistry
    from unyt import unyt_quantity

    world.reset_world()
    for us in shard:
        for (v, u, si_scale, dimname), form in itertools.product(DEFINE_SPECS, ("tuple", "quantity", "quantity-in-registry", "modify-quantity")):
            ctx.count("evaluations")
            reg = UnitRegistry() if us is None else UnitRegistry(unit_system=us)
            if si_scale is None:
                si_scale = v * float(Unit(u).base_value)
            case = {"part": "define", "unit_system": us, "value": v, "given_in": u, "form": form}
            base = f"C02|define|system={us}|form={form}|dim={dimname}"
            try:
                if form == "tuple":
                    define_unit("pace", (v, u), prefixable=True, registry=reg)
                elif form == "quantity":
                    define_unit("pace", unyt_quantity(v, u), prefixable=True, registry=reg)
                elif form == "quantity-in-registry":
                    define_unit("pace", unyt_quantity(v, u, registry=reg), prefixable=True, registry=reg)
                else:
                    reg.add("pace", 1.0, getattr(udims, dimname), prefixable=True)
                    reg.modify("pace", unyt_quantity(v, u, registry=reg))
                got = Unit("pace", registry=reg)
                kgot = Unit("kpace", registry=reg)
                comp = Unit("pace**2/s", registry=reg)
                q = float(unyt_quantity(8.0, "pace", registry=reg).to(u).d)
            except Exception as e:  # noqa: BLE001
                ctx.violation(base + f"|mode=raises:{type(e).__name__}", case, "a unit", str(e)[:100])
                continue
            ctx.decided(("define", us, v, u, form))
            ctx.outcome(("define", us, form, dimname))
            ref_dim = dim_of(getattr(udims, dimname))
            if dim_of(got.dimensions) != ref_dim:
                ctx.violation(base + "|mode=wrong-dimension", case, repr(ref_dim), str(got.dimensions))
            for label, obj, want in (("atom", got, si_scale), ("prefixed", kgot, 1000.0 * si_scale), ("compound", comp, si_scale**2)):
                if abs(float(obj.base_value) / want - 1.0) > 16 * EPS:
                    ctx.violation(base + f"|use={label}|mode=wrong-scale", case, want, float(obj.base_value))
            if abs(q / (8.0 * v) - 1.0) > 64 * EPS:
                ctx.violation(base + "|use=conversion|mode=wrong-scale", case, 8.0 * v, q)


def run(ctx):
    harness.pmap(ctx, part_define, [[None], ["cgs"], ["imperial"], ["galactic"], ["mks"]])
    names = names_cases()
    harness.pmap(ctx, part_names, list(chunks(names, 400)))
    groups = pair_groups(ctx.tier)
    harness.pmap(ctx, part_pairs, [[g] for g in groups])
    comp = list(compound_cases(ctx.tier))
    harness.pmap(ctx, part_compound, list(chunks(comp, 2000)))
    return {
        "coverage": {
            "rule": "complete enumeration: (a) all names in inv_name_alternatives and all table symbol x prefix "
            "strings vs the independently typed definition table; (b) all ordered pairs of names sharing a "
            "dimension (quick: table symbols + k/m/µ forms; thorough: all names) vs the scale ratio / affine map; "
            "(c) all expression trees of the compound grammar up to 3 factors, evaluated by Unit(string), by the "
            "reference parser and by Unit operator algebra. A decided case is a distinct name, ordered pair or "
            "expression string that reached the comparison.",
            "axes": {
                "names": len(names),
                "pair_groups": len(groups),
                "ordered_pairs": sum(len(a) * len(b) for a, b in groups),
                "compound_trees": len(comp),
                "atoms": ATOMS,
                "exponents": EXPS,
                "coefficients": COEFS,
            },
        },
        "assumptions": [
            "ref/deftable.py (hand-typed definitions and class tolerances) is a trusted base",
            "alias -> canonical spelling map is taken from unyt (checked structurally by C14)",
        ],
    }


def replay(case):
    ctx = harness.Ctx(PROPERTY, "quick", 0)
    part = case.get("part")
    if part == "define":
        part_define(ctx, [case["unit_system"]])
    elif part == "names":
        part_names(ctx, [(case["kind"], case["name"])])
    elif part == "pairs":
        part_pairs(ctx, [([case["from"]], [case["to"]])])
    else:

        def tup(x):
            return tuple(tup(i) for i in x) if isinstance(x, list) else x

        eval_compound(ctx, tup(case["tree"]))
    return list(ctx.violations.items())
