"""C17  Conversions and mixed-unit arithmetic never truncate to integers.

Exhaustive product   dtype x conversion route x unit pair x value alphabet (up to the dtype limits and around the
float-precision thresholds) x {scalar, array, strided view}   and   dtype pair x mixed-unit binary ufunc x call form,
on the real code.  Oracle: exact rational arithmetic (fractions.Fraction) on the stored numbers, rounded to the float
type the statement prescribes: integers -> float of the same item size (at least 16 bits) or a refusal when none
exists; float16/32 keep their width; complex stays complex; copy and in-place routes agree bit for bit; a
RuntimeWarning accompanies integers that the target float cannot hold exactly.
"""

import itertools
import warnings
from fractions import Fraction

import numpy as np

from mc import harness, world

PROPERTY = "C17"

from unyt import unyt_array, unyt_quantity

INT_DT = ["int8", "int16", "int32", "int64", "uint8", "uint16", "uint32", "uint64"]
FLT_DT = ["float16", "float32", "float64"]
CPX_DT = ["complex64", "complex128"]
ALL_DT = INT_DT + FLT_DT + CPX_DT
MANT = {2: 11, 4: 24, 8: 53}  # significand bits of float16/32/64

# (from, to, exact factor, exact offset): new = old * factor - offset   (offset in target readings)
PAIRS = [
    ("km", "m", Fraction(1000), Fraction(0)),
    ("m", "km", Fraction(1, 1000), Fraction(0)),
    ("mile", "ft", Fraction(5280), Fraction(0)),
    ("ft", "inch", Fraction(12), Fraction(0)),
    ("degC", "K", Fraction(1), Fraction(-27315, 100)),
    ("m", "m", Fraction(1), Fraction(0)),
    # the SI <-> Gaussian electromagnetic route (a separate branch of in_units / convert_to_units)
    ("T", "G", Fraction(10000), Fraction(0)),
    ("G", "T", Fraction(1, 10000), Fraction(0)),
]
# units whose table value is held as a NumPy float64 scalar (the Planck units): under NumPy 2 such a factor promotes narrow
# floats unless the conversion casts it - the width rules hold for them as for every other unit.  (The factor is read from the
# library: this pair judges widths, warnings and route agreement; the VALUE of the Planck length is C02/C15's business.)
try:
    from unyt.unit_object import Unit as _U

    _LPL = Fraction(float(_U("l_pl").base_value))
    PAIRS += [("l_pl", "m", _LPL, Fraction(0)), ("m", "l_pl", 1 / _LPL, Fraction(0))]
except Exception:  # noqa: BLE001
    _LPL = None
BASE_PAIRS = {  # routes without an explicit target: unit -> (target name, factor)
    "in_base": {"km": ("m", Fraction(1000)), "m": ("m", Fraction(1)), "mile": ("m", Fraction(1609344, 1000)), "ft": ("m", Fraction(3048, 10000)), "degC": None,
                "T": ("T", Fraction(1)), "G": ("T", Fraction(1, 10000))},
    "in_mks": {"km": ("m", Fraction(1000)), "m": ("m", Fraction(1)), "mile": ("m", Fraction(1609344, 1000)), "ft": ("m", Fraction(3048, 10000)), "degC": None,
               "T": ("T", Fraction(1)), "G": ("T", Fraction(1, 10000))},
    # the electromagnetic units go through a branch of their own in in_base / in_cgs / in_mks
    "in_cgs": {"km": ("cm", Fraction(100000)), "m": ("cm", Fraction(100)), "mile": ("cm", Fraction(1609344, 10)), "ft": ("cm", Fraction(3048, 100)), "degC": None,
               "T": ("G", Fraction(10000)), "G": ("G", Fraction(1))},
}


def kcls(dt):
    d = np.dtype(dt)
    return ("i" if d.kind in "iu" else d.kind) + str(d.itemsize)


def pcls(factor, offset, u_from, u_to):
    return "identity" if u_from == u_to else ("offset" if offset else "ratio")


def value_alphabet(dt):
    d = np.dtype(dt)
    if d.kind in "iu":
        info = np.iinfo(d)
        vals = {0, 1, 3, 100, info.max, info.min, info.max - 1}
        for p in MANT.values():
            for x in (2**p - 1, 2**p, 2**p + 1, 2**p + 2, -(2**p) - 1):
                if info.min <= x <= info.max:
                    vals.add(x)
        return sorted(vals)
    if d.kind == "f":
        return [0.0, 1.0, 3.0, 100.0, 0.5, -2.25, 1000.5]
    return [0j, 1 + 2j, 3.5 - 0.25j, 100j]


def target_dtype(dt):
    d = np.dtype(dt)
    if d.kind in "iu":
        return np.dtype("f" + str(max(2, d.itemsize)))
    return d


def exact(v, factor, offset):
    if isinstance(v, complex):
        return complex(float(Fraction(v.real) * factor - offset), float(Fraction(v.imag) * factor))
    return Fraction(v) * factor - offset


def representable(v, tdt):
    """is the integer v exactly representable in float type tdt?"""
    p = MANT[tdt.itemsize]
    v = abs(int(v))
    if v == 0:
        return True
    return v.bit_length() <= p or (v >> (v.bit_length() - p)) << (v.bit_length() - p) == v


def close(got, want, tdt, scale_terms):
    """got: numpy scalar, want: Fraction or complex; tolerance 4 ulp of the target type at the largest magnitude involved"""
    rdt = np.dtype("f" + str(tdt.itemsize // 2)) if tdt.kind == "c" else tdt
    eps = float(np.finfo(rdt).eps)
    fmax = float(np.finfo(rdt).max)
    if tdt.kind == "c":
        g, w = complex(got), complex(want)
        mag = max([abs(w)] + [abs(float(s)) for s in scale_terms])
        return abs(g - w) <= 4 * eps * mag
    w = float(want) if abs(want) < Fraction(10) ** 300 else float("inf")
    g = float(got)
    if abs(w) > fmax:
        return np.isinf(g) or abs(g) >= fmax * (1 - 4 * eps)
    mag = max([abs(w)] + [abs(float(s)) for s in scale_terms])
    tiny = float(np.finfo(rdt).smallest_subnormal)
    return abs(g - w) <= 4 * eps * mag + tiny


def ulps_off(got, want, tdt):
    """error of got against the exact value want, in units of the spacing of float type tdt at |want| (real types)"""
    w = float(want) if abs(want) < Fraction(10) ** 300 else float("inf")
    g = float(got)
    with np.errstate(all="ignore"):
        wt = float(np.array(w, dtype=np.float64).astype(tdt))  # the exact value rounded to the type (inf on overflow)
    if np.isinf(wt):
        return 0.0 if np.isinf(g) and (g > 0) == (wt > 0) else float("inf")
    if np.isnan(g) or np.isinf(g):
        return float("inf")
    sp = float(np.spacing(np.array(abs(wt), dtype=tdt))) if wt != 0 else float(np.finfo(tdt).smallest_subnormal)
    r = abs(float(Fraction(g) - Fraction(want))) / sp
    return r if r == r else float("inf")


def build(dt, vals, form):
    a = np.array(vals, dtype=dt)
    if form == "scalar":
        return None  # handled per value
    if form == "array":
        return a
    buf = np.zeros(2 * len(vals), dtype=dt)
    buf[::2] = a
    return buf[::2]


ROUTES_COPY = {
    "to": lambda q, u: q.to(u),
    "in_units": lambda q, u: q.in_units(u),
    "to_value": lambda q, u: q.to_value(u),
    "to(Unit)": lambda q, u: q.to(__import__("unyt").Unit(u)),
}
ROUTES_INPLACE = {
    "convert_to_units": lambda q, u: q.convert_to_units(u),
}
ROUTES_BASE_COPY = {"in_base": lambda q: q.in_base(), "in_mks": lambda q: q.in_mks(), "in_cgs": lambda q: q.in_cgs()}
ROUTES_BASE_INPLACE = {"in_base": lambda q: q.convert_to_base(), "in_mks": lambda q: q.convert_to_mks(), "in_cgs": lambda q: q.convert_to_cgs()}


def run_call(f):
    with warnings.catch_warnings(record=True) as rec:
        warnings.simplefilter("always")
        try:
            r = f()
            st = "ok"
        except Exception as e:  # noqa: BLE001
            r, st = e, "raise"
    warned = any(issubclass(w.category, RuntimeWarning) and "verflow" in str(w.message) for w in rec)
    return st, r, warned


def judge_conversion(ctx, base, case, dt, vals, res, warned, factor, offset, in_place_target=None, width=True):
    """res: the returned object (copy routes) or the converted target (in-place routes)"""
    d = np.dtype(dt)
    tdt = target_dtype(dt)
    arr = np.asarray(res.d if isinstance(res, unyt_array) else res)
    ok = True
    if arr.dtype.kind not in "fc":
        ctx.violation(base + "|mode=result-not-floating", case, str(tdt), str(arr.dtype))
        return False
    if d.kind == "c" and arr.dtype.kind != "c":
        ctx.violation(base + "|mode=complex-became-real", case, str(tdt), str(arr.dtype))
        return False
    if arr.dtype != tdt and width:
        ctx.violation(base + f"|mode=wrong-float-width:{arr.dtype}", case, str(tdt), str(arr.dtype))
        ok = False
    flat = arr.reshape(-1)
    if len(flat) != len(vals):
        ctx.violation(base + "|mode=wrong-size", case, len(vals), len(flat))
        return False
    cmp_dt = arr.dtype if arr.dtype.kind in "fc" else tdt
    for v, g in zip(vals, flat):
        pv = complex(v) if d.kind == "c" else (int(v) if d.kind in "iu" else float(np.array(v, dtype=dt)))
        want = exact(pv, factor, offset)
        terms = [offset, Fraction(pv) * factor if d.kind != "c" else abs(pv) * float(factor)]
        if d.kind in "iu" and cmp_dt.kind == "f":
            # integers: the exact product rounded (once) to the float type; 1 spacing allowed for the float64 factor
            wide = tdt if cmp_dt.itemsize > tdt.itemsize else cmp_dt
            off = min(ulps_off(g, want, wide), ulps_off(g, want, cmp_dt))
            if offset and np.isfinite(float(g)):
                off = min(off, abs(float(Fraction(float(g)) - want)) / float(np.spacing(np.array(max(abs(float(t)) for t in terms), dtype=wide))))
            if off <= 2.0:  # input rounding + product rounding
                continue
            trunc = float(g) == float(int(want)) and want != int(want)
            mode = "integer-truncated" if trunc else ("not-correctly-rounded" if off <= 16.0 else "wrong-value")
            ctx.violation(base + "|mode=" + mode, case, str(float(want)), repr(g))
            ok = False
            break
        # float/complex input keeps its own precision: the tolerance is that of the narrower of input and result type
        if not close(g, want, tdt if tdt.itemsize < cmp_dt.itemsize else cmp_dt, terms):
            ctx.violation(base + "|mode=wrong-value", case, str(want), repr(g))
            ok = False
            break
    if d.kind in "iu":
        inexact = [v for v in vals if not representable(v, tdt)]
        if inexact and not warned:
            first = 2 ** MANT[tdt.itemsize] + 1
            where = "at-first-inexact-integer" if all(abs(int(v)) == first for v in inexact) else "beyond-first-inexact-integer"
            ctx.violation(base + f"|mode=no-warning-{where}:{tdt}", case, "RuntimeWarning", None)
            ok = False
        ctx.count("warned" if warned else "not_warned")
    return ok


def part_convert(ctx, shard):
    world.reset_world()
    for dt in shard:
        d = np.dtype(dt)
        alphabet = value_alphabet(dt)
        groups = [("scalar", [v]) for v in alphabet] + [("array", alphabet), ("strided", alphabet)]
        # big and small values separately so that one warning cannot hide a missing one
        if d.kind in "iu":
            small = [v for v in alphabet if representable(v, target_dtype(dt))]
            groups.append(("array-representable", small))
        for u_from, u_to, factor, offset in PAIRS:
            for form, vals in groups:
                def mk():
                    if form == "scalar":
                        return unyt_quantity(np.array(vals[0], dtype=dt)[()], u_from)
                    data = build(dt, vals, "strided" if form == "strided" else "array")
                    return unyt_array(data if form == "strided" else data.copy(), u_from)

                results = {}
                for rname, f in list(ROUTES_COPY.items()) + list(ROUTES_INPLACE.items()):
                    ctx.count("evaluations")
                    q = mk()
                    before = np.array(np.asarray(q.d), copy=True)
                    st, r, warned = run_call(lambda: f(q, u_to))
                    inplace = rname in ROUTES_INPLACE
                    case = {"part": "convert", "dtype": dt, "route": rname, "from": u_from, "to": u_to, "form": form, "values": [str(v) for v in vals]}
                    base = f"C17|convert|route={rname}|dtype={kcls(dt)}|pair={pcls(factor, offset, u_from, u_to)}|form={'scalar' if form == 'scalar' else 'array'}"
                    ctx.outcome(("convert", rname, dt, u_from, u_to, st, form))
                    if st == "raise":
                        # allowed only when no float type of that item size exists for an in-place change
                        if inplace and d.kind in "iu" and d.itemsize == 1:
                            ctx.count("refused_no_float_type")
                            if not np.array_equal(np.asarray(q.d), before) or str(q.units) != u_from and u_from != u_to:
                                ctx.count("refused_but_target_changed")  # C18's business
                            continue
                        ctx.violation(base + f"|mode=raises:{type(r).__name__}", case, "converted values", str(r)[:120])
                        continue
                    ctx.decided(("convert", rname, dt, u_from, u_to, form, tuple(map(str, vals))))
                    res = q if inplace else r
                    if u_from == u_to and d.kind in "iu" and rname != "to_value":
                        pass  # identity conversion of integers: the statement still says "converting ... yields floating"
                    # a 0-d to_value() result is a bare NumPy/Python scalar: its width is not a property of unyt data
                    judge_conversion(ctx, base, case, dt, vals, res, warned, factor, offset, width=not (rname == "to_value" and form == "scalar"))
                    results[rname] = np.array(np.asarray(res.d if isinstance(res, unyt_array) else res), copy=True)
                    if not inplace and not np.array_equal(np.asarray(q.d), before):
                        ctx.violation(base + "|mode=copying-route-changed-its-input", case, before.tolist(), np.asarray(q.d).tolist())
                if "to" in results and "convert_to_units" in results:
                    a, b = results["to"], results["convert_to_units"]
                    if a.dtype != b.dtype or a.tobytes() != b.tobytes():
                        ctx.violation(
                            f"C17|agree|routes=to/convert_to_units|dtype={kcls(dt)}|pair={pcls(factor, offset, u_from, u_to)}|mode=copy-and-inplace-differ:" + ("dtype" if a.dtype != b.dtype else "values"),
                            {"part": "convert", "dtype": dt, "from": u_from, "to": u_to, "form": form, "values": [str(v) for v in vals]},
                            {"dtype": str(a.dtype), "values": a.reshape(-1)[:6].tolist()},
                            {"dtype": str(b.dtype), "values": b.reshape(-1)[:6].tolist()},
                        )
        # routes without a target
        for route in ("in_base", "in_mks", "in_cgs"):
            for u_from, tgt in BASE_PAIRS[route].items():
                if tgt is None:
                    continue
                tname, factor = tgt
                for form, vals in groups:
                    def mk():
                        if form == "scalar":
                            return unyt_quantity(np.array(vals[0], dtype=dt)[()], u_from)
                        data = build(dt, vals, "strided" if form == "strided" else "array")
                        return unyt_array(data if form == "strided" else data.copy(), u_from)

                    res2 = {}
                    for kind, table in (("copy", ROUTES_BASE_COPY), ("inplace", ROUTES_BASE_INPLACE)):
                        ctx.count("evaluations")
                        q = mk()
                        st, r, warned = run_call(lambda: table[route](q))
                        rname = route if kind == "copy" else {"in_base": "convert_to_base", "in_mks": "convert_to_mks", "in_cgs": "convert_to_cgs"}[route]
                        case = {"part": "convert", "dtype": dt, "route": rname, "from": u_from, "to": tname, "form": form, "values": [str(v) for v in vals]}
                        base = f"C17|convert|route={rname}|dtype={kcls(dt)}|pair={'identity' if factor == 1 else 'ratio'}|form={'scalar' if form == 'scalar' else 'array'}"
                        ctx.outcome(("convert", rname, dt, u_from, st, form))
                        if st == "raise":
                            if kind == "inplace" and d.kind in "iu" and d.itemsize == 1:
                                ctx.count("refused_no_float_type")
                                continue
                            ctx.violation(base + f"|mode=raises:{type(r).__name__}", case, "converted values", str(r)[:120])
                            continue
                        ctx.decided(("convert", rname, dt, u_from, form, tuple(map(str, vals))))
                        res = q if kind == "inplace" else r
                        judge_conversion(ctx, base, case, dt, vals, res, warned, factor, Fraction(0))
                        res2[kind] = np.array(np.asarray(res.d), copy=True)
                    if len(res2) == 2 and (res2["copy"].dtype != res2["inplace"].dtype or res2["copy"].tobytes() != res2["inplace"].tobytes()):
                        ctx.violation(
                            f"C17|agree|routes={route}/convert|dtype={kcls(dt)}|pair={'identity' if factor == 1 else 'ratio'}|mode=copy-and-inplace-differ:" + ("dtype" if res2["copy"].dtype != res2["inplace"].dtype else "values"),
                            {"part": "convert", "dtype": dt, "from": u_from, "route": route, "form": form, "values": [str(v) for v in vals]},
                            {"dtype": str(res2["copy"].dtype), "values": res2["copy"].reshape(-1)[:6].tolist()},
                            {"dtype": str(res2["inplace"].dtype), "values": res2["inplace"].reshape(-1)[:6].tolist()},
                        )
        # equivalence routes (mass_energy: E = m c^2, a pure factor)
        import unyt

        c2 = Fraction(299792458) ** 2
        # spectral: wavelength in m -> wavenumber in 1/cm = 1/(100 v): a reciprocal, which integer arithmetic would truncate to 0
        for form, vals in groups:
            nz = [v for v in vals if v not in (0, 0.0) and not isinstance(v, complex) and abs(v) < 2**53]
            if d.kind == "c" or not nz:
                continue
            for rname in ("to_equivalent", "to(equivalence=)", "in_units(equivalence=)", "to_value(equivalence=)", "convert_to_equivalent"):
                ctx.count("evaluations")
                if form == "scalar":
                    q = unyt_quantity(np.array(nz[0], dtype=dt)[()], "m")
                    use = nz[:1]
                else:
                    data = np.array(nz, dtype=dt)
                    q = unyt_array(data, "m")
                    use = nz
                f = {
                    "to_equivalent": lambda: q.to_equivalent("1/cm", "spectral"),
                    "to(equivalence=)": lambda: q.to("1/cm", equivalence="spectral"),
                    "in_units(equivalence=)": lambda: q.in_units("1/cm", equivalence="spectral"),
                    "to_value(equivalence=)": lambda: q.to_value("1/cm", equivalence="spectral"),
                    "convert_to_equivalent": lambda: (q.convert_to_equivalent("1/cm", "spectral"), q)[1],
                }[rname]
                st, r, warned = run_call(f)
                case = {"part": "convert", "dtype": dt, "route": rname, "from": "m", "to": "1/cm", "form": form, "values": [str(v) for v in use]}
                base = f"C17|equivalence|eq=spectral|route={rname}|dtype={kcls(dt)}|form={'scalar' if form == 'scalar' else 'array'}"
                ctx.outcome(("equiv-spectral", rname, dt, st, form))
                if st == "raise":
                    ctx.count("equivalence_refused")
                    ctx.note_set("equivalence_refused", f"spectral|{rname}|{dt}|{type(r).__name__}")
                    continue
                ctx.decided(("equiv-spectral", rname, dt, form, tuple(map(str, use))))
                arr = np.asarray(r.d if isinstance(r, unyt_array) else r)
                if arr.dtype.kind != "f":
                    ctx.violation(base + f"|mode=result-not-floating:{arr.dtype}", case, "float", str(arr.dtype))
                    continue
                for v, g in zip(use, arr.reshape(-1)):
                    pv = int(v) if d.kind in "iu" else float(np.array(v, dtype=dt))
                    want = Fraction(1) / (Fraction(pv) * 100)
                    if abs(want) < float(np.finfo(arr.dtype).tiny) * 64:
                        ctx.count("filtered_below_normal_range")
                        continue
                    if not close(g, want, arr.dtype, [want]) and not close(g, want, target_dtype(dt), [want]):
                        trunc = float(g) == 0.0
                        ctx.violation(base + ("|mode=integer-truncated" if trunc else "|mode=wrong-value"), case, str(float(want)), repr(g))
                        break
        # spectral, every ordered pair of its four members (w8: wavenumber -> wavelength used an integer reciprocal): exact
        # rational expectation from the library's own h and c; integer data only - the float rules are C09's
        if d.kind in "iu":
            from unyt import physical_constants as _pc

            hF, cF = Fraction(float(_pc.h_mks.v)), Fraction(float(_pc.clight.to("m/s").v))
            MEMB = {"L": ("cm", Fraction(1, 100)), "K": ("1/cm", Fraction(100)), "F": ("Hz", Fraction(1)), "E": ("J", Fraction(1))}
            SPEC = {
                ("L", "K"): lambda x: 1 / x, ("L", "F"): lambda x: cF / x, ("L", "E"): lambda x: hF * cF / x,
                ("K", "L"): lambda x: 1 / x, ("K", "F"): lambda x: cF * x, ("K", "E"): lambda x: hF * cF * x,
                ("F", "L"): lambda x: cF / x, ("F", "K"): lambda x: x / cF, ("F", "E"): lambda x: hF * x,
                ("E", "L"): lambda x: hF * cF / x, ("E", "K"): lambda x: x / (hF * cF), ("E", "F"): lambda x: x / hF,
            }
            for (ms, mt), law in SPEC.items():
                (us, ss), (ut, st_) = MEMB[ms], MEMB[mt]
                for form, vals in groups:
                    nz = [v for v in vals if v not in (0, 0.0) and not isinstance(v, complex) and abs(v) < 2**53]
                    if not nz:
                        continue
                    for rname in ("to_equivalent", "to(equivalence=)", "to_value(equivalence=)", "convert_to_equivalent"):
                        ctx.count("evaluations")
                        use = nz[:1] if form == "scalar" else nz
                        q = unyt_quantity(np.array(use[0], dtype=dt)[()], us) if form == "scalar" else unyt_array(np.array(use, dtype=dt), us)
                        f = {
                            "to_equivalent": lambda: q.to_equivalent(ut, "spectral"),
                            "to(equivalence=)": lambda: q.to(ut, equivalence="spectral"),
                            "to_value(equivalence=)": lambda: q.to_value(ut, equivalence="spectral"),
                            "convert_to_equivalent": lambda: (q.convert_to_equivalent(ut, "spectral"), q)[1],
                        }[rname]
                        st, r, warned = run_call(f)
                        case = {"part": "convert", "dtype": dt, "route": rname, "from": us, "to": ut, "form": form, "values": [str(v) for v in use]}
                        base = f"C17|equivalence|eq=spectral|pair={ms}->{mt}|route={rname}|dtype={kcls(dt)}|form={'scalar' if form == 'scalar' else 'array'}"
                        ctx.outcome(("equiv-spectral-pairs", ms, mt, rname, dt, st, form))
                        if st == "raise":
                            ctx.count("equivalence_refused")
                            ctx.note_set("equivalence_refused", f"spectral|{ms}->{mt}|{rname}|{dt}|{type(r).__name__}")
                            continue
                        ctx.decided(("equiv-spectral-pairs", ms, mt, rname, dt, form, tuple(map(str, use))))
                        arr = np.asarray(r.d if isinstance(r, unyt_array) else r)
                        if arr.dtype.kind != "f":
                            ctx.violation(base + f"|mode=result-not-floating:{arr.dtype}", case, "float", str(arr.dtype))
                            continue
                        for v, g in zip(use, arr.reshape(-1)):
                            want = law(Fraction(int(v)) * ss) / st_
                            fi = np.finfo(arr.dtype)
                            if abs(want) < float(fi.tiny) * 64 or abs(want) > float(fi.max) / 64:
                                ctx.count("filtered_outside_normal_range")
                                continue
                            if not close(g, want, arr.dtype, [want]) and not close(g, want, target_dtype(dt), [want]):
                                trunc = float(g) == 0.0 or float(g) == float(int(float(g)))
                                ctx.violation(base + ("|mode=integer-truncated" if trunc else "|mode=wrong-value"), case, str(float(want)), repr(g))
                                break
        # lorentz: velocity -> gamma needs v**2/c**2 - in floating point, whatever the width of the integer input
        if d.kind in "iuf" and d.itemsize >= 4:
            C_KMS = Fraction(299792458, 1000)
            for vlist in ([150000, 60000, 250000], [46341, 100000, 299000]):
                for rname in ("to_equivalent", "to(equivalence=)", "to_value", "convert_to_equivalent"):
                    ctx.count("evaluations")
                    q = unyt_array(np.array(vlist, dtype=dt), "km/s")
                    if rname == "to_equivalent":
                        st, r, _w = run_call(lambda: q.to_equivalent("dimensionless", "lorentz"))
                    elif rname == "to(equivalence=)":
                        st, r, _w = run_call(lambda: q.to("dimensionless", equivalence="lorentz"))
                    elif rname == "to_value":
                        st, r, _w = run_call(lambda: unyt_array(q.to_value("dimensionless", equivalence="lorentz"), "dimensionless"))
                    else:
                        st, r, _w = run_call(lambda: q.convert_to_equivalent("dimensionless", "lorentz"))
                        r = q
                    case = {"part": "convert", "dtype": dt, "route": rname, "from": "km/s", "to": "gamma", "form": "array", "values": [str(v) for v in vlist]}
                    base = f"C17|equivalence-lorentz|route={rname}|dtype={kcls(dt)}"
                    if st == "raise":
                        ctx.count("equivalence_refused")
                        continue
                    ctx.decided(("lorentz", rname, dt, tuple(vlist)))
                    got = np.asarray(r.d, dtype=float)
                    want = np.array([float(1 / (1 - (Fraction(v) / C_KMS) ** 2)) ** 0.5 for v in vlist])
                    tol = 64 * float(np.finfo(target_dtype(dt) if d.kind in "iu" else d).eps) * want**2
                    if got.shape != want.shape or np.any(np.abs(got - want) > tol * want):
                        ctx.violation(base + "|mode=wrong-value", case, want.tolist(), got.tolist())
        # sound_speed: velocity -> temperature / energy squares the velocity
        if d.kind in "iuf" and d.itemsize >= 4:
            import unyt.physical_constants as _pc

            kb, mh = float(_pc.kboltz.in_mks().d), float(_pc.mh.in_mks().d)
            for vlist in ([100000, 300000, 46341], [70000, 65536, 2000000]):
                for target in ("K", "erg"):
                    for rname in ("to_equivalent", "to(equivalence=)", "convert_to_equivalent"):
                        ctx.count("evaluations")
                        q = unyt_array(np.array(vlist, dtype=dt), "cm/s")
                        if rname == "to_equivalent":
                            st, r, _w = run_call(lambda: q.to_equivalent(target, "sound_speed"))
                        elif rname == "to(equivalence=)":
                            st, r, _w = run_call(lambda: q.to(target, equivalence="sound_speed"))
                        else:
                            st, r, _w = run_call(lambda: q.convert_to_equivalent(target, "sound_speed"))
                            r = q
                        case = {"part": "convert", "dtype": dt, "route": rname, "from": "cm/s", "to": target, "form": "array", "values": [str(v) for v in vlist]}
                        if st == "raise":
                            ctx.count("equivalence_refused")
                            continue
                        ctx.decided(("sound_speed", rname, dt, target, tuple(vlist)))
                        v_si = np.array(vlist, dtype=float) * 1e-2
                        kT = v_si**2 * 0.6 * mh / (5.0 / 3.0)
                        want = kT / kb if target == "K" else kT * 1e7
                        got = np.asarray(r.d, dtype=float)
                        tol = 256 * float(np.finfo(target_dtype(dt) if d.kind in "iu" else d).eps)
                        if got.shape != want.shape or np.any(np.abs(got - want) > tol * np.abs(want)):
                            ctx.violation(f"C17|equivalence-sound_speed|route={rname}|dtype={kcls(dt)}|mode=wrong-value", case, want.tolist(), got.tolist())
        # effective_temperature: temperature -> flux takes the fourth power; lorentz: gamma -> velocity squares gamma
        if d.kind in "iuf" and d.itemsize >= 4:
            SIGMA = 5.670373e-8
            import unyt.physical_constants as _pc2

            SIGMA = float(_pc2.stefan_boltzmann_constant_mks.d)
            for eqname, src_u, tgt_u, vlists, ref in (
                ("effective_temperature", "K", "W/m**2", ([100000, 60000, 5772], [55109, 300, 46341]), lambda v: SIGMA * v**4),
                ("effective_temperature-mK", "mK", "W/m**2", ([300000, 5772000, 100000],), lambda v: SIGMA * (v * 1e-3) ** 4),
                ("lorentz-gamma", "dimensionless", "m/s", ([1000, 200, 46341], [65536, 3, 100000]), lambda v: 299792458.0 * np.sqrt(1.0 - 1.0 / v**2)),
            ):
                for vlist in vlists:
                    if d.kind in "iu" and max(vlist) > np.iinfo(d).max:
                        continue
                    for rname in ("to_equivalent", "to(equivalence=)", "to_value", "convert_to_equivalent", "scalar-to_equivalent"):
                        ctx.count("evaluations")
                        q = unyt_array(np.array(vlist, dtype=dt), src_u)
                        eq = eqname.split("-")[0]
                        if rname == "to_equivalent":
                            st, r, _w = run_call(lambda: q.to_equivalent(tgt_u, eq))
                        elif rname == "to(equivalence=)":
                            st, r, _w = run_call(lambda: q.to(tgt_u, equivalence=eq))
                        elif rname == "to_value":
                            st, r, _w = run_call(lambda: unyt_array(q.to_value(tgt_u, equivalence=eq), tgt_u))
                        elif rname == "scalar-to_equivalent":
                            st, r, _w = run_call(lambda: unyt_array([float(q[0].to_equivalent(tgt_u, eq).d), float(q[1].to_equivalent(tgt_u, eq).d), float(q[2].to_equivalent(tgt_u, eq).d)], tgt_u))
                        else:
                            st, r, _w = run_call(lambda: q.convert_to_equivalent(tgt_u, eq))
                            r = q
                        case = {"part": "convert", "dtype": dt, "route": rname, "from": src_u, "to": tgt_u, "form": "array", "values": [str(v) for v in vlist], "equivalence": eqname}
                        if st == "raise":
                            ctx.count("equivalence_refused")
                            continue
                        ctx.decided((eqname, rname, dt, tuple(vlist)))
                        want = ref(np.array(vlist, dtype=float))
                        got = np.asarray(r.d, dtype=float)
                        tol = 256 * float(np.finfo(target_dtype(dt) if d.kind in "iu" else d).eps)
                        if got.shape != want.shape or not np.all(np.abs(got - want) <= tol * np.abs(want)):
                            ctx.violation(f"C17|equivalence-{eqname}|route={rname}|dtype={kcls(dt)}|mode=wrong-value", case, want.tolist(), got.tolist())
        for form, vals in groups:
            if d.kind == "c":
                continue
            for rname in ("to_equivalent", "to(equivalence=)", "convert_to_equivalent"):
                ctx.count("evaluations")
                if form == "scalar":
                    q = unyt_quantity(np.array(vals[0], dtype=dt)[()], "kg")
                else:
                    data = build(dt, vals, "strided" if form == "strided" else "array")
                    q = unyt_array(data if form == "strided" else data.copy(), "kg")
                if rname == "to_equivalent":
                    st, r, warned = run_call(lambda: q.to_equivalent("J", "mass_energy"))
                elif rname == "to(equivalence=)":
                    st, r, warned = run_call(lambda: q.to("J", equivalence="mass_energy"))
                else:
                    st, r, warned = run_call(lambda: q.convert_to_equivalent("J", "mass_energy"))
                    r = q
                case = {"part": "convert", "dtype": dt, "route": rname, "from": "kg", "to": "J", "form": form, "values": [str(v) for v in vals]}
                base = f"C17|equivalence|route={rname}|dtype={kcls(dt)}|form={'scalar' if form == 'scalar' else 'array'}"
                ctx.outcome(("equiv", rname, dt, st, form))
                if st == "raise":
                    ctx.count("equivalence_refused")
                    ctx.note_set("equivalence_refused", f"{rname}|{dt}|{type(r).__name__}")
                    continue
                ctx.decided(("equiv", rname, dt, form, tuple(map(str, vals))))
                arr = np.asarray(r.d)
                if arr.dtype.kind != "f":
                    ctx.violation(base + "|mode=result-not-floating", case, "float", str(arr.dtype))
                    continue
                tdt = target_dtype(dt)
                if arr.dtype.itemsize < tdt.itemsize:
                    ctx.violation(base + f"|mode=narrower-than-input:{arr.dtype}", case, str(tdt), str(arr.dtype))
                ctx.note_set("equivalence_result_dtype", f"{rname}|{dt}->{arr.dtype}")
                for v, g in zip(vals, arr.reshape(-1)):
                    pv = int(v) if d.kind in "iu" else float(np.array(v, dtype=dt))
                    want = Fraction(pv) * c2
                    if not close(g, want, arr.dtype, [want]) and not close(g, want, tdt, [want]):
                        ctx.violation(base + "|mode=wrong-value", case, str(float(want)), repr(g))
                        break


# ---- mixed-unit binary ufuncs ------------------------------------------------------------------------------
BIN = {
    "add": (np.add, lambda a, b: a + b),
    "subtract": (np.subtract, lambda a, b: a - b),
    "maximum": (np.maximum, max),
    "minimum": (np.minimum, min),
    "hypot": (np.hypot, None),
    "floor_divide": (np.floor_divide, None),
    "remainder": (np.remainder, None),
    "less": (np.less, lambda a, b: a < b),
    "equal": (np.equal, lambda a, b: a == b),
}
BIN_PAIRS = [("km", "m", Fraction(1, 1000)), ("m", "km", Fraction(1000)), ("ft", "inch", Fraction(1, 12))]  # right operand -> left unit
if _LPL is not None:
    BIN_PAIRS.append(("m", "l_pl", _LPL))
BIN_VALS = {"i": ([3, 100, 7], [25, 3, 12]), "u": ([3, 100, 7], [25, 3, 12]), "f": ([3.0, 100.5, -7.25], [25.0, 3.5, 12.0]), "c": ([3 + 1j, 100.5j, -7.25], [25.0 + 2j, 3.5, 12.0j])}


def part_binary(ctx, shard):
    world.reset_world()
    for dt0, dt1 in shard:
        d0, d1 = np.dtype(dt0), np.dtype(dt1)
        for (u0, u1, f1), (opname, (uf, pyf)) in itertools.product(BIN_PAIRS, BIN.items()):
            if (d0.kind == "c" or d1.kind == "c") and opname in ("maximum", "minimum", "hypot", "less", "floor_divide", "remainder"):
                continue
            v0 = BIN_VALS[d0.kind][0]
            v1 = BIN_VALS[d1.kind][1]
            if d0.kind in "iu" and d0.itemsize == 1 or d1.kind in "iu" and d1.itemsize == 1:
                v0 = [min(x, 100) if not isinstance(x, complex) else x for x in v0]
                v1 = [x % 100 + 1 if isinstance(x, int) else x for x in v1]
            for form in ("ufunc", "operator", "inplace", "out", "out_is_b", "scalar"):
                if form == "operator" and opname in ("maximum", "minimum", "hypot"):
                    continue
                if form in ("inplace",) and opname not in ("add", "subtract"):
                    continue
                if form in ("out", "out_is_b") and opname in ("less", "equal"):
                    continue
                ctx.count("evaluations")
                if form == "scalar":
                    a = unyt_quantity(np.array(v0[0], dtype=dt0)[()], u0)
                    b = unyt_quantity(np.array(v1[0], dtype=dt1)[()], u1)
                    n = 1
                else:
                    a = unyt_array(np.array(v0, dtype=dt0), u0)
                    b = unyt_array(np.array(v1, dtype=dt1), u1)
                    n = len(v0)
                a0 = np.array(np.asarray(a.d), copy=True)
                b0 = np.array(np.asarray(b.d), copy=True)
                if form in ("ufunc", "scalar"):
                    call = lambda: uf(a, b)
                elif form == "operator":
                    import operator as op

                    o = {"add": op.add, "subtract": op.sub, "less": op.lt, "equal": op.eq, "floor_divide": op.floordiv, "remainder": op.mod}[opname]
                    call = lambda: o(a, b)
                elif form == "inplace":
                    import operator as op

                    o = {"add": op.iadd, "subtract": op.isub}[opname]
                    call = lambda: o(a, b)
                elif form == "out_is_b":
                    call = lambda: uf(a, b, out=b)  # the buffer is the (rescaled) second operand itself
                else:
                    buf = unyt_array(np.zeros(n, dtype=dt0), u0)
                    call = lambda: uf(a, b, out=buf)
                st, r, warned = run_call(call)
                case = {"part": "binary", "op": opname, "form": form, "dt0": dt0, "dt1": dt1, "u0": u0, "u1": u1}
                base = f"C17|binary|op={opname}|form={form}|dt0={kcls(dt0)}|dt1={kcls(dt1)}"
                ctx.outcome(("binary", opname, form, dt0, dt1, st))
                if st == "raise":
                    # no float type of the target's size for an int8 in-place/out target is a legitimate refusal
                    if form in ("inplace", "out") and d0.kind in "iu" and d0.itemsize == 1 or form == "out_is_b" and d1.kind in "iu" and d1.itemsize == 1:
                        ctx.count("refused_no_float_type")
                        continue
                    ctx.count("binary_refused")
                    ctx.note_set("binary_refused", f"{opname}|{form}|{dt0}|{dt1}|{type(r).__name__}")
                    continue
                ctx.decided(("binary", opname, form, dt0, dt1, u0, u1))
                if (form != "out_is_b" and not np.array_equal(np.asarray(b.d), b0)) or (form != "inplace" and not np.array_equal(np.asarray(a.d), a0)):
                    ctx.violation(base + "|mode=operand-changed", case, None, None)
                res = np.asarray(r.d if isinstance(r, unyt_array) else r)
                flat = res.reshape(-1)
                xs = [complex(x) if d0.kind == "c" else Fraction(x) for x in (a0.reshape(-1).tolist())]
                ys = [complex(y) * float(f1) if d1.kind == "c" else Fraction(y) * f1 for y in (b0.reshape(-1).tolist())]
                cplx = d0.kind == "c" or d1.kind == "c"
                if opname in ("less", "equal"):
                    want = [(x < y) if opname == "less" else (x == y) for x, y in zip(xs, ys)]
                    if flat.dtype.kind != "b" or [bool(g) for g in flat] != want:
                        ctx.violation(base + "|mode=wrong-boolean", case, want, flat.tolist())
                    continue
                if flat.dtype.kind not in "fc":
                    ctx.violation(base + f"|mode=result-not-floating:{flat.dtype}", case, "floating", str(flat.dtype))
                    continue
                if cplx and flat.dtype.kind != "c":
                    ctx.violation(base + "|mode=complex-became-real", case, "complex", str(flat.dtype))
                    continue
                # width verdict only where the statement is unambiguous: both operands of one item size (per part);
                # an out=/in-place target keeps the float type of its own item size
                s0, s1 = target_dtype(dt0).itemsize, target_dtype(dt1).itemsize
                r0 = s0 // 2 if d0.kind == "c" else s0
                r1 = s1 // 2 if d1.kind == "c" else s1
                if form == "out_is_b":
                    if d1.kind != "c" and cplx:
                        pass
                    elif flat.dtype.itemsize != s1:
                        ctx.violation(base + f"|mode=wrong-float-width:{flat.dtype}", case, f"{s1} bytes", str(flat.dtype))
                elif r0 == r1 or form in ("inplace", "out"):
                    size = max(s0, s1) if form not in ("inplace", "out") else s0
                    if form in ("inplace", "out") and d0.kind != "c" and d1.kind == "c":
                        size = None  # complex into a real buffer: covered by complex-became-real / refusal
                    if size is not None and flat.dtype.itemsize != size:
                        ctx.violation(base + f"|mode=wrong-float-width:{flat.dtype}", case, f"{size} bytes", str(flat.dtype))
                else:
                    ctx.count("binary_width_unjudged_mixed_sizes")
                for x, y, g in zip(xs, ys, flat):
                    if cplx:
                        x, y = complex(x), complex(y)
                        want = x + y if opname == "add" else x - y
                        e1c = float(np.finfo(np.dtype("f" + str(max(2, target_dtype(dt1).itemsize // (2 if d1.kind == "c" else 1))))).eps)
                        if abs(complex(g) - want) > 4 * e1c * abs(y) + 1e-6 * max(abs(x), abs(y), 1e-30):
                            ctx.violation(base + "|mode=wrong-value", case, str(want), repr(g))
                            break
                        continue
                    want = {"add": x + y, "subtract": x - y, "maximum": max(x, y), "minimum": min(x, y)}.get(opname)
                    if opname in ("floor_divide", "remainder"):
                        if y == 0:
                            continue
                        if target_dtype(dt0).itemsize < 8 or target_dtype(dt1).itemsize < 8 or form in ("out", "out_is_b", "inplace") and flat.dtype.itemsize < 8:
                            # floor and remainder are discontinuous: the rounding of a narrow float moves results across
                            # integer boundaries; judged for 8-byte operands only
                            ctx.count("floor_remainder_narrow_unjudged")
                            continue
                        fl = (x / y).__floor__()
                        want = Fraction(fl) if opname == "floor_divide" else x - fl * y
                        ratio = x / y
                        if abs(ratio - round(ratio)) < Fraction(1, 10**6):
                            ctx.count("floor_on_integer_boundary_unjudged")
                            continue
                    # the converted (second) operand is rounded to its own float type, the result to the result type
                    e1 = float(np.finfo(target_dtype(dt1)).eps)
                    er = float(np.finfo(flat.dtype).eps)
                    if opname == "hypot":
                        want = None
                        w = (float(x) ** 2 + float(y) ** 2) ** 0.5
                        okv = abs(float(g) - w) <= 4 * e1 * abs(float(y)) + 8 * er * w
                    else:
                        okv = bool(np.isfinite(float(g))) and abs(float(Fraction(float(g)) - want)) <= 2 * e1 * abs(float(y)) + 2 * er * max(abs(float(x)), abs(float(y)), abs(float(want)))
                    if not okv:
                        trunc = want is not None and want != int(want) and float(g) == float(int(want))
                        ctx.violation(base + ("|mode=integer-truncated" if trunc else "|mode=wrong-value"), case, str(want), repr(g))
                        break
                if form in ("inplace", "out", "out_is_b"):
                    tgt = np.asarray((a if form == "inplace" else b if form == "out_is_b" else buf).d)
                    if tgt.dtype.kind not in "fc":
                        ctx.violation(base + f"|mode=target-not-floating:{tgt.dtype}", case, "floating", str(tgt.dtype))
                    elif not np.array_equal(tgt.reshape(-1), flat, equal_nan=True):
                        ctx.violation(base + "|mode=target-differs-from-result", case, flat.tolist(), tgt.reshape(-1).tolist())


# ---- lists of quantities in mixed units ---------------------------------------------------------------------------------
LIST_PAIRS = [("km", "m", Fraction(1, 1000)), ("m", "km", Fraction(1000)), ("ft", "inch", Fraction(1, 12)), ("hr", "s", Fraction(1, 3600))]


def part_lists(ctx, shard):
    """a list / tuple of integer quantities in different commensurable units, coerced by the constructor or taken as an
    operand: the converted values are kept (floats of that item size), never cut back to integers."""
    world.reset_world()
    for dt in shard:
        d = np.dtype(dt)
        tdt = target_dtype(dt) if d.kind in "iu" else d
        for (u0, u1, f1), order, cont in itertools.product(LIST_PAIRS, ("first-unit-first", "other-unit-first"), (list, tuple)):
            vals = [3, 500, 2, 1500, 7] if d.itemsize > 1 else [3, 50, 2, 15, 7]
            units = [u0, u1, u0, u1, u1] if order == "first-unit-first" else [u1, u0, u1, u0, u0]
            first = units[0]
            seq = cont(unyt_quantity(np.array(v, dtype=dt)[()], u) for v, u in zip(vals, units))
            # exact values in the first element's unit
            conv = {u0: Fraction(1), u1: f1} if first == u0 else {u1: Fraction(1), u0: 1 / f1}
            want = [Fraction(v) * conv[u] for v, u in zip(vals, units)]
            anchor = unyt_array(np.array([1, 1, 1, 1, 1], dtype=dt), first)
            calls = {
                "constructor": (lambda: unyt_array(seq), want),
                "add-right": (lambda: anchor + seq, [w + 1 for w in want]),
                "add-left": (lambda: seq + anchor, [w + 1 for w in want]),
                "np.add": (lambda: np.add(anchor, seq), [w + 1 for w in want]),
                "subtract": (lambda: anchor - seq, [1 - w for w in want]),
                "maximum": (lambda: np.maximum(anchor, seq), [max(w, Fraction(1)) for w in want]),
            }
            for cname, (f, wv) in calls.items():
                ctx.count("evaluations")
                st, r, _w = run_call(f)
                case = {"part": "lists", "dtype": dt, "units": [u0, u1], "order": order, "container": cont.__name__, "call": cname}
                base = f"C17|lists|call={cname}|dtype={kcls(dt)}|container={cont.__name__}"
                ctx.outcome(("lists", cname, dt, st))
                if st == "raise":
                    ctx.count("list_operand_refused")
                    continue
                if not isinstance(r, unyt_array):
                    ctx.count("list_result_not_a_quantity")
                    continue
                ctx.decided(("lists", dt, u0, u1, order, cont.__name__, cname))
                got = np.asarray(r.d)
                # the result may be labelled with either unit: read it back in the first element's unit, exactly
                ru = str(r.units)
                scale = Fraction(1) if ru == first else (conv[ru] if ru in conv else None)
                if scale is None:
                    ctx.count("list_result_in_third_unit")
                    continue
                if d.kind in "iu" and got.dtype.kind in "iu" and any((w / scale).denominator != 1 for w in wv):
                    ctx.violation(base + "|mode=integer-result-for-fractional-values", case, [float(w / scale) for w in wv], got.tolist())
                    continue
                if not np.all(np.isfinite(got.astype(complex))) or any(abs(w / scale) > Fraction(float(np.finfo(tdt).max)) for w in wv if np.dtype(tdt).kind == "f"):
                    ctx.count("list_values_overflow_the_narrow_float")
                    continue
                gv = [Fraction(float(x)) * scale for x in got.reshape(-1)]
                eps = Fraction(float(np.finfo(tdt if np.dtype(tdt).kind == "f" else np.float64).eps))
                if len(gv) != len(wv) or any(abs(g - w) > 8 * eps * max(abs(w), Fraction(1, 1000)) for g, w in zip(gv, wv)):
                    ctx.violation(base + "|mode=values-not-converted", case, [float(w) for w in wv], [float(g) for g in gv])


def run(ctx):
    harness.pmap(ctx, part_convert, [[d] for d in ALL_DT])
    pairs = list(itertools.product(ALL_DT, ALL_DT))
    harness.pmap(ctx, part_binary, [pairs[i::32] for i in range(32)])
    harness.pmap(ctx, part_lists, [[d] for d in INT_DT + ["float32", "float64"]])
    return {
        "coverage": {
            "rule": "convert: dtype x route x unit pair x value group (each value alone as a scalar, all values as an array and as a "
            "strided view, the exactly-representable values as an array) compared with exact rational arithmetic; binary: ordered "
            "dtype pair x ufunc x unit pair x call form {ufunc, operator, in-place, out=, scalar}; decided = call returned and every "
            "element was compared",
            "dtypes": ALL_DT,
            "routes": list(ROUTES_COPY) + list(ROUTES_INPLACE) + ["in_base", "in_mks", "in_cgs", "convert_to_base", "convert_to_mks", "convert_to_cgs", "to_equivalent", "to(equivalence=)", "convert_to_equivalent"],
            "unit_pairs": [f"{a}->{b}" for a, b, _, _ in PAIRS],
            "value_alphabet": {d: [str(v) for v in value_alphabet(d)] for d in ALL_DT},
            "binary_ops": list(BIN),
            "lists": "dtype x 4 unit pairs x element order x {list, tuple} x {constructor, add (both sides, ufunc), subtract, maximum}",
        },
        "assumptions": [
            "expected float type for integer input: float of the same item size, float16 for 8-bit integers; in-place routes on 8-bit integers may refuse",
            "value tolerance: 4 ulp of the result type at the largest magnitude involved (the factor is applied in that type)",
            "a RuntimeWarning is required when some integer input is not exactly representable in the target float type; a warning for representable input carries no verdict",
            "for mixed dtypes the prescribed width is the wider of the two operands' float types",
        ],
    }


def replay(case):
    ctx = harness.Ctx(PROPERTY, "quick", 0)
    if case.get("part") == "binary":
        part_binary(ctx, [(case["dt0"], case["dt1"])])
    elif case.get("part") == "lists":
        part_lists(ctx, [case["dtype"]])
    else:
        part_convert(ctx, [case["dtype"]])
    return list(ctx.violations.items())
