"""C19  Unit-checking helpers decide by physical equality, not by spelling.

Exhaustive product enumerations on the real code against a verdict computed on SI magnitudes:
  close     operand form pair x unit of actual x unit of desired x value relation x rtol spelling x atol spelling
            for allclose_units / assert_allclose_units / np.allclose / np.isclose, each case also with both arguments
            coherently re-expressed (the verdict must not change)
  equal     np.array_equal / np.array_equiv / assert_array_equal_units: equal values AND equal units
  decorate  every dimension exported by unyt.dimensions x argument spelling x usage form of accepts / returns
"""

import itertools

import numpy as np
import sympy

from mc import harness, world

PROPERTY = "C19"

import unyt
from unyt import dimensions as udims
from unyt import unyt_array, unyt_quantity
from unyt.array import allclose_units
from unyt.testing import assert_allclose_units, assert_array_equal_units
from unyt.unit_object import Unit

SI = {"m": 1.0, "km": 1000.0, "cm": 0.01, "mile": 1609.344, "s": 1.0, "hr": 3600.0, "dimensionless": 1.0, "percent": 0.01}
DIMOF = {"m": "L", "km": "L", "cm": "L", "mile": "L", "s": "T", "hr": "T", "dimensionless": "1", "percent": "1", None: "bare"}
BASE = np.array([1.5, 20.0, 300.0])
RTOL = 1e-3
# value relations: desired = actual * (1 + d) elementwise (far from every tolerance boundary used below)
RELS = {"equal": 0.0, "inside-rtol": RTOL / 4, "outside-rtol": RTOL * 4, "far": 0.5, "asym-up": 0.75, "asym-down": -0.4}
# asym-*: with rtol = 0.5 the difference lies between rtol*|actual| and rtol*|desired|: the verdict depends on WHICH operand
# the relative tolerance is measured against (NumPy's rule: the second, "desired")


def make(form, unit, si_values):
    """build an operand holding the physical values si_values (SI) written in `unit`, in the given form"""
    vals = np.asarray(si_values) / SI[unit] if unit else np.asarray(si_values)
    if form == "quantity":
        return unyt_quantity(vals[1], unit) if unit else float(vals[1])
    if form == "array":
        return unyt_array(vals.copy(), unit) if unit else vals.copy()
    if form == "list":
        return None  # lists carry no unit; handled by the caller
    if form == "qlist":
        return [unyt_quantity(v, unit) for v in vals]
    raise ValueError(form)


def si_of(form, si_values):
    return np.asarray(si_values)[1:2] if form == "quantity" else np.asarray(si_values)


def call_bool(f):
    try:
        return ("ok", f())
    except AssertionError:
        return ("assert", None)
    except Exception as e:  # noqa: BLE001
        return ("raise", type(e).__name__)


def verdict_of(fn_name, r):
    """map a call outcome to accept / refuse / other"""
    st, v = r
    if fn_name.startswith("assert"):
        return "accept" if st == "ok" else "refuse" if st == "assert" else "refuse-by-exception:" + str(v)
    if st == "ok":
        if isinstance(v, np.ndarray):
            return "accept" if bool(np.all(v)) else "refuse"
        return "accept" if bool(v) else "refuse"
    return "refuse-by-exception:" + str(v)


CLOSE_FUNCS = {
    "allclose_units": lambda a, d, rt, at: allclose_units(a, d, rt, at),
    "allclose_units_kw": lambda a, d, rt, at: allclose_units(a, d, rtol=rt, atol=at),
    "assert_allclose_units": lambda a, d, rt, at: assert_allclose_units(a, d, rt, at),
}
NP_CLOSE = {
    "np.allclose": lambda a, d, rt: np.allclose(a, d, rtol=rt, atol=0.0),
    "np.isclose": lambda a, d, rt: np.isclose(a, d, rtol=rt, atol=0.0),
}


def part_close(ctx, shard):
    world.reset_world()
    for fa, fd in shard:
        for ua, ud in itertools.product(["m", "km", "percent"], ["m", "km", "cm", "mile", "s", "dimensionless", "percent", None]):
            if fa == "bare" and fd == "bare":
                continue
            for rel, delta in RELS.items():
                A = BASE.copy()
                D = BASE * (1.0 + delta)
                act_unit = ua if fa != "bare" else None
                des_unit = ud if fd != "bare" else None
                a = make("array" if fa == "bare" else fa, act_unit, A)
                d = make("array" if fd == "bare" else fd, des_unit, D)
                As, Ds = si_of("array" if fa == "bare" else fa, A), si_of("array" if fd == "bare" else fd, D)
                if fa == "quantity" and fd != "quantity" or fd == "quantity" and fa != "quantity":
                    # a scalar broadcast against an array: compare that scalar with each element
                    pass
                dim_a, dim_d = DIMOF[act_unit], DIMOF[des_unit]
                dim_a = "1" if dim_a == "bare" else dim_a
                dim_d = "1" if dim_d == "bare" else dim_d
                commens = dim_a == dim_d
                # bare numbers are dimensionless numbers: their SI magnitude is the number itself
                As_b, Ds_b = np.broadcast_arrays(As, Ds)
                for rt_name in ("float", "dimless-q", "percent-q", "zero", "half", "half-percent-q"):
                    rt_val = {"float": RTOL, "dimless-q": unyt_quantity(RTOL, "dimensionless"), "percent-q": unyt_quantity(RTOL * 100, "percent"), "zero": 0.0,
                              "half": 0.5, "half-percent-q": unyt_quantity(50.0, "percent")}[rt_name]
                    rt_si = 0.0 if rt_name == "zero" else 0.5 if rt_name.startswith("half") else RTOL
                    for at_name in ("zero", "bare-small", "bare-large", "same-unit-large", "other-unit-large", "other-unit-small", "wrong-dimension",
                                    "other-unit-large-0darray", "other-unit-small-0darray", "other-unit-small-1array", "wrong-dimension-0darray"):
                        if rt_name.startswith("half") and at_name not in ("zero", "bare-small", "other-unit-small", "other-unit-small-0darray"):
                            continue
                        # sizes are relative to |D|: small = 1e-6 |D|max (irrelevant), large = 2 |D|max (accepts everything)
                        dmax_si = float(np.max(np.abs(Ds)))
                        du = des_unit
                        du_si = SI[du] if du else 1.0
                        if at_name == "zero":
                            at, at_si = 0, 0.0
                        elif at_name == "bare-small":
                            at, at_si = 1e-6 * dmax_si / du_si, 1e-6 * dmax_si  # bare: read in desired's unit
                        elif at_name == "bare-large":
                            at, at_si = 2.0 * dmax_si / du_si, 2.0 * dmax_si
                        elif at_name == "same-unit-large":
                            if du is None:
                                continue
                            at, at_si = unyt_quantity(2.0 * dmax_si / du_si, du), 2.0 * dmax_si
                        elif at_name.startswith("other-unit"):
                            other = {"L": "mile", "T": "hr", "1": "percent"}[dim_d]
                            f = 2.0 if "large" in at_name else 1e-6
                            at, at_si = unyt_quantity(f * dmax_si / SI[other], other), f * dmax_si
                            # the same tolerance held in a unyt_array that is not a unyt_quantity
                            if at_name.endswith("0darray"):
                                at = unyt_array(np.array(float(at.d)), other)
                            elif at_name.endswith("1array"):
                                at = unyt_array(np.array([float(at.d)]), other)
                        else:
                            wrong = "s" if dim_d != "T" else "m"
                            at, at_si = unyt_quantity(1e9, wrong), None
                            if at_name.endswith("0darray"):
                                at = unyt_array(np.array(1e9), wrong)
                        if not commens or at_si is None:
                            want = "refuse"
                        else:
                            diff, tol = np.abs(As_b - Ds_b), at_si + rt_si * np.abs(Ds_b)
                            noise = 1e-12 * np.maximum(np.abs(As_b), np.abs(Ds_b))  # unit conversion rounding
                            if np.all(diff <= tol * (1 - 1e-6) - noise):
                                want = "accept"
                            elif np.any(diff > tol * (1 + 1e-6) + noise):
                                want = "refuse"
                            else:
                                ctx.count("close_on_tolerance_boundary_unjudged")
                                continue
                        for fname, f in CLOSE_FUNCS.items():
                            ctx.count("evaluations")
                            r = call_bool(lambda: f(a, d, rt_val, at))
                            got = verdict_of(fname, r)
                            case = {"part": "close", "fa": fa, "fd": fd, "ua": act_unit, "ud": des_unit, "rel": rel, "rtol": rt_name, "atol": at_name, "func": fname}
                            ctx.outcome(("close", fname, fa, fd, dim_a, dim_d, rel, rt_name, at_name, got))
                            ctx.decided(("close", fname, fa, fd, act_unit, des_unit, rel, rt_name, at_name))
                            g = "refuse" if got.startswith("refuse") else got
                            if g != want:
                                ucls = "same-unit" if act_unit == des_unit else ("commensurable" if commens else "incommensurable")
                                ctx.violation(
                                    f"C19|close|func={fname.replace('_kw', '')}|units={ucls}|rtol={rt_name}|atol={at_name}|mode={got.split(':')[0]}-instead-of-{want}",
                                    case,
                                    want,
                                    got,
                                )
                # re-expression invariance + numpy functions (rtol only)
                for fname, f in NP_CLOSE.items():
                    ctx.count("evaluations")
                    bare_side = act_unit is None or des_unit is None or "dimensionless" in (act_unit, des_unit)
                    r = call_bool(lambda: f(a, d, RTOL))
                    got = verdict_of(fname, r)
                    g = "refuse" if got.startswith("refuse") else got
                    case = {"part": "close", "fa": fa, "fd": fd, "ua": act_unit, "ud": des_unit, "rel": rel, "func": fname}
                    ctx.outcome(("npclose", fname, fa, fd, dim_a, dim_d, rel, got))
                    if bare_side and act_unit != des_unit:
                        ctx.count("np_close_bare_or_dimensionless_operand_unjudged")
                        continue
                    ctx.decided(("npclose", fname, fa, fd, act_unit, des_unit, rel))
                    if not commens:
                        want = "refuse"
                    else:
                        want = "accept" if np.all(np.abs(As_b - Ds_b) <= RTOL * np.abs(Ds_b)) else "refuse"
                    if "qlist" in (fa, fd):
                        case["note"] = "a plain list of quantities carries no units NumPy or unyt can see"
                    if g != want:
                        ucls = "same-unit" if act_unit == des_unit else ("commensurable" if commens else "incommensurable")
                        ctx.violation(f"C19|close|func={fname}|units={ucls}|forms={fa}+{fd}|mode={got.split(':')[0]}-instead-of-{want}", case, want, got)
                if commens and act_unit and des_unit and fa in ("quantity", "array") and fd in ("quantity", "array"):
                    alts = {"L": ["cm", "mile"], "T": ["hr"], "1": ["percent", "dimensionless"]}[dim_a]
                    for u2, v2 in itertools.product(alts, alts):
                        a2, d2 = a.to(u2), d.to(v2)
                        for fname, f in list(CLOSE_FUNCS.items())[:1] + [("assert_allclose_units", CLOSE_FUNCS["assert_allclose_units"])]:
                            ctx.count("evaluations")
                            g1 = verdict_of(fname, call_bool(lambda: f(a, d, RTOL, 0)))
                            g2 = verdict_of(fname, call_bool(lambda: f(a2, d2, RTOL, 0)))
                            ctx.decided(("reexpress", fname, fa, fd, act_unit, des_unit, u2, v2, rel))
                            if g1.split(":")[0] != g2.split(":")[0]:
                                ctx.violation(
                                    f"C19|reexpress|func={fname}|mode=verdict-changes-with-units",
                                    {"part": "close", "fa": fa, "fd": fd, "ua": act_unit, "ud": des_unit, "rel": rel, "to": [u2, v2], "func": fname},
                                    g1,
                                    g2,
                                )


ALL_CLOSE = {
    "allclose_units": lambda a, d, rt, at: allclose_units(a, d, rt, at),
    "allclose_units_kw": lambda a, d, rt, at: allclose_units(a, d, rtol=rt, atol=at),
    "assert_allclose_units": lambda a, d, rt, at: assert_allclose_units(a, d, rt, at),
    "np.allclose": lambda a, d, rt, at: np.allclose(a, d, rt, at),
    "np.allclose_kw": lambda a, d, rt, at: np.allclose(a, d, rtol=rt, atol=at),
    "np.isclose": lambda a, d, rt, at: np.isclose(a, d, rt, at),
    "np.isclose_kw": lambda a, d, rt, at: np.isclose(a, d, atol=at, rtol=rt),
}
# kelvin per unit and the zero point of each temperature scale (reading 0 in kelvin)
TSCALE = {"K": (1.0, 0.0), "mK": (1e-3, 0.0), "R": (5.0 / 9.0, 0.0), "degC": (1.0, 273.15), "degF": (5.0 / 9.0, 459.67 * 5.0 / 9.0), "mdegC": (1e-3, 273.15)}
TOLU = {"K": 1.0, "mK": 1e-3, "R": 5.0 / 9.0, "delta_degC": 1.0, "delta_degF": 5.0 / 9.0}


def part_close_tolerances(ctx, shard):
    """tolerances given as quantities in their own units, on every helper including np.allclose / np.isclose:
    (a) temperatures on offset scales - a tolerance is a difference, its zero point plays no part;
    (b) lengths with atol in another unit / of another dimension, rtol as a percent quantity;
    (c) a genuinely dimensionless quantity as an operand is a quantity (never read in the other operand's unit)"""
    world.reset_world()
    for kind in shard:
        if kind == "temperature":
            TK = np.array([283.15, 300.0, 350.0])
            for ua, ud, dK, (tu, tk), big in itertools.product(TSCALE, TSCALE, (0.0, 0.5, -0.5), TOLU.items(), (True, False)):
                if ("deg" in ua) and ("deg" in ud) and ua.lstrip("m") != ud.lstrip("m"):
                    continue  # two different offset scales: unyt refuses to mix them
                a = unyt_array((TK - TSCALE[ua][1]) / TSCALE[ua][0], ua)
                d = unyt_array((TK + dK - TSCALE[ud][1]) / TSCALE[ud][0], ud)
                atol_K = 2.0 if big else 0.05
                at = unyt_quantity(atol_K / tk, tu)
                want = "accept" if abs(dK) <= atol_K else "refuse"
                for fname, f in ALL_CLOSE.items():
                    ctx.count("evaluations")
                    got = verdict_of(fname, call_bool(lambda: f(a, d, 0.0, at)))
                    case = {"part": "close-tolerances", "kind": kind, "ua": ua, "ud": ud, "dK": dK, "atol": [atol_K / tk, tu], "func": fname}
                    ctx.outcome(("close-T", fname, ua, ud, dK, tu, big, got))
                    ctx.decided(("close-T", fname, ua, ud, dK, tu, big))
                    g = got.split(":")[0]
                    g = "refuse" if g.startswith("refuse") else g
                    if g != want:
                        scales = "same-scale" if ua == ud else "offset-with-absolute" if ("deg" in ua) != ("deg" in ud) else "two-scales"
                        ctx.violation(f"C19|close-tolerance|kind=temperature|func={fname.replace('_kw', '')}|scales={scales}|mode={got.split(':')[0]}-instead-of-{want}", case, want, got)
        elif kind == "length":
            L = np.array([1.0, 2.0, 3.0])
            for ua, ud, rel, (aname, aval, a_si), rtname in itertools.product(("m", "cm", "km"), ("m", "cm", "mile"), (0.0, 1e-3, 0.2),
                    (("cm-small", lambda: unyt_quantity(1.0, "cm"), 0.01), ("km-large", lambda: unyt_quantity(0.002, "km"), 2.0), ("m-array", lambda: unyt_array([0.5, 0.5, 0.5], "m"), 0.5),
                     ("time", lambda: unyt_quantity(1e9, "s"), None), ("dimensionless-q", lambda: unyt_quantity(1e9, "dimensionless"), None)), ("zero", "percent-q")):
                a = unyt_array(L / SI[ua], ua)
                d = unyt_array(L * (1.0 + rel) / SI[ud], ud)
                rt, rt_si = (0.0, 0.0) if rtname == "zero" else (unyt_quantity(1.0, "percent"), 0.01)
                if a_si is None:
                    want = "refuse"
                else:
                    diff, tol = np.abs(L * rel), a_si + rt_si * np.abs(L * (1.0 + rel))
                    if np.all(diff <= tol * (1 - 1e-6)):
                        want = "accept"
                    elif np.any(diff > tol * (1 + 1e-6)):
                        want = "refuse"
                    else:
                        continue
                for fname, f in ALL_CLOSE.items():
                    ctx.count("evaluations")
                    got = verdict_of(fname, call_bool(lambda: f(a, d, rt, aval())))
                    case = {"part": "close-tolerances", "kind": kind, "ua": ua, "ud": ud, "rel": rel, "atol": aname, "rtol": rtname, "func": fname}
                    ctx.outcome(("close-L", fname, ua, ud, rel, aname, rtname, got))
                    ctx.decided(("close-L", fname, ua, ud, rel, aname, rtname))
                    g = "refuse" if got.startswith("refuse") else got
                    if g != want:
                        ctx.violation(f"C19|close-tolerance|kind=length|func={fname.replace('_kw', '')}|atol={aname}|rtol={rtname}|mode={got.split(':')[0]}-instead-of-{want}", case, want, got)
        else:
            V = np.array([1.0, 2.0, 3.0])
            ops = {"dimensionless": lambda v: unyt_array(v.copy(), "dimensionless"), "m/m": lambda v: unyt_array(v.copy(), "m") / unyt_quantity(1.0, "m"), "percent": lambda v: unyt_array(v * 100.0, "percent"),
                   "m": lambda v: unyt_array(v.copy(), "m"), "s": lambda v: unyt_array(v.copy(), "s"), "bare": lambda v: v.copy()}
            for (na, fa), (nd, fd), rel in itertools.product(ops.items(), ops.items(), (0.0, 0.5)):
                if "dimensionless" not in (na, nd) and "m/m" not in (na, nd):
                    continue
                if "bare" in (na, nd):
                    continue  # a bare operand against a dimensionless quantity: both readings coincide
                a, d = fa(V), fd(V * (1.0 + rel))
                pure = {"dimensionless", "m/m", "percent"}
                want = "refuse" if (na in pure) != (nd in pure) else ("accept" if rel == 0.0 else "refuse")
                for fname, f in ALL_CLOSE.items():
                    ctx.count("evaluations")
                    got = verdict_of(fname, call_bool(lambda: f(a, d, 1e-9, 0.0)))
                    case = {"part": "close-tolerances", "kind": kind, "a": na, "d": nd, "rel": rel, "func": fname}
                    ctx.outcome(("close-1", fname, na, nd, rel, got))
                    ctx.decided(("close-1", fname, na, nd, rel))
                    g = "refuse" if got.startswith("refuse") else got
                    if g != want:
                        ctx.violation(f"C19|close-tolerance|kind=dimensionless-operand|func={fname.replace('_kw', '')}|pair={na}+{nd}|mode={got.split(':')[0]}-instead-of-{want}", case, want, got)


def part_registries(ctx, shard):
    """the same unit NAME with different sizes in two registries: the verdict follows the sizes, not the spelling"""
    world.reset_world()
    from unyt.unit_registry import UnitRegistry

    sizes = {"A": 1.0, "B": 100.0}
    regs = {}
    for n, sz in sizes.items():
        r = UnitRegistry()
        r.add("code_length", sz, udims.length)
        regs[n] = r
    funcs = dict(CLOSE_FUNCS)
    funcs["np.allclose"] = lambda a, d, rt, at: np.allclose(a, d, rtol=rt)
    funcs["np.isclose"] = lambda a, d, rt, at: np.isclose(a, d, rtol=rt)
    for form in shard:
        for ra, rd in itertools.product(["A", "B", "default"], repeat=2):
            if ra == rd:
                continue
            for rel, delta in RELS.items():
                A = BASE.copy()
                D = BASE * (1.0 + delta)

                def mk(reg, si):
                    si = np.asarray(si)[1:2] if form == "quantity" else np.asarray(si)
                    if reg == "default":
                        v, u, r = si / 1000.0, "km", None
                    else:
                        v, u, r = si / sizes[reg], "code_length", regs[reg]
                    return (unyt_quantity(v[0], u, registry=r) if form == "quantity" else unyt_array(v.copy(), u, registry=r)), si

                a, As = mk(ra, A)
                d, Ds = mk(rd, D)
                want = "accept" if np.all(np.abs(As - Ds) <= RTOL * np.abs(Ds) * (1 - 1e-6)) else "refuse"
                for fname, f in funcs.items():
                    ctx.count("evaluations")
                    got = verdict_of(fname, call_bool(lambda: f(a, d, RTOL, 0)))
                    g = "refuse" if got.startswith("refuse") else got
                    ctx.outcome(("registries", fname, ra, rd, rel, got))
                    ctx.decided(("registries", fname, form, ra, rd, rel))
                    if g != want:
                        ctx.violation(
                            f"C19|registries|func={fname.replace('_kw', '')}|pair={ra}~{rd}|mode={got.split(':')[0]}-instead-of-{want}",
                            {"part": "registries", "form": form, "ra": ra, "rd": rd, "rel": rel, "func": fname},
                            want,
                            got,
                        )


def part_equal(ctx, shard):
    world.reset_world()
    pairs = [("m", "m"), ("m", "km"), ("km", "m"), ("m", "s"), ("J", "N*m"), ("N*m", "J"), ("m", None), (None, "m"), ("dimensionless", None), ("percent", "dimensionless"), ("Hz", "1/s")]
    scale = {"m": 1.0, "km": 1000.0, "s": 1.0, "J": 1.0, "N*m": 1.0, None: 1.0, "dimensionless": 1.0, "percent": 0.01, "Hz": 1.0, "1/s": 1.0}
    funcs = {
        "np.array_equal": lambda x, y: np.array_equal(x, y),
        "np.array_equiv": lambda x, y: np.array_equiv(x, y),
        "assert_array_equal_units": lambda x, y: assert_array_equal_units(x, y),
    }
    for shape in shard:
        base = np.arange(1.0, 1.0 + int(np.prod(shape))).reshape(shape)
        for (u1, u2), rel, same_numbers in itertools.product(pairs, ("equal", "different"), (True, False)):
            # same_numbers: the stored numbers coincide; otherwise the physical values coincide (numbers rescaled)
            x_num = base.copy()
            if same_numbers:
                y_num = base.copy()
            else:
                y_num = base * scale[u1] / scale[u2]
            if rel == "different":
                y_num = y_num * 1.5
            x = unyt_array(x_num, u1) if u1 else x_num
            y = unyt_array(y_num, u2) if u2 else y_num
            xu = Unit(u1) if u1 else Unit()
            yu = Unit(u2) if u2 else Unit()
            units_equal = xu.dimensions == yu.dimensions and abs(float(xu.base_value) / float(yu.base_value) - 1) < 1e-12
            numbers_equal = bool(np.array_equal(x_num, y_num))
            want = "accept" if units_equal and numbers_equal else "refuse"
            for fname, f in funcs.items():
                ctx.count("evaluations")
                got = verdict_of("assert" if fname.startswith("assert") else fname, call_bool(lambda: f(x, y)))
                g = "refuse" if got.startswith("refuse") else got
                ctx.outcome(("equal", fname, u1, u2, rel, same_numbers, got))
                ctx.decided(("equal", fname, shape, u1, u2, rel, same_numbers))
                if g != want:
                    ctx.violation(
                        f"C19|equal|func={fname}|units={u1}~{u2}|numbers={'same' if numbers_equal else 'differ'}|mode={got.split(':')[0]}-instead-of-{want}",
                        {"part": "equal", "shape": list(shape), "u1": u1, "u2": u2, "rel": rel, "same_numbers": same_numbers, "func": fname},
                        want,
                        got,
                    )


# ---- decorators -------------------------------------------------------------------------------------------
def all_dimensions():
    out = []
    for name in sorted(vars(udims)):
        v = getattr(udims, name)
        if isinstance(v, sympy.Basic) and not name.startswith("_"):
            out.append((name, v))
    return out


def units_for(dim):
    """three spellings of a unit with this dimension + a unit of another dimension"""
    from unyt.unit_systems import cgs_unit_system, mks_unit_system

    res = []
    for sysm in (mks_unit_system, cgs_unit_system):
        try:
            res.append(Unit(sysm[dim]))
        except Exception:  # noqa: BLE001
            pass
    if dim == udims.dimensionless:
        res = [Unit(), Unit("percent")]
    return res


def part_decorate(ctx, shard):
    world.reset_world()
    from unyt.dimensions import accepts, returns

    for name, dim in shard:
        good_units = units_for(dim)
        if not good_units:
            ctx.count("dimension_without_unit")
            continue
        spellings = []
        for u in good_units:
            spellings.append(("good", unyt_quantity(2.0, u)))
            spellings.append(("good-scaled", unyt_quantity(3.0, u) * 1000.0))
            spellings.append(("good-array", unyt_array([1.0, 2.0], u)))
        wrong_u = Unit("kg") if dim != udims.mass else Unit("m")
        spellings.append(("wrong", unyt_quantity(2.0, wrong_u)))
        try:
            spellings.append(("wrong-product", unyt_quantity(2.0, good_units[0] * Unit("kg") if dim != udims.dimensionless else Unit("m"))))
            spellings.append(("wrong-power", unyt_quantity(2.0, good_units[0] ** 2 if dim != udims.dimensionless else Unit("s"))))
        except Exception:  # noqa: BLE001  (logarithmic / offset units refuse multiplication)
            ctx.count("no_product_spelling_for_dimension")
        # the other unit system's electromagnetic counterpart (T vs G, C vs statC ...) has ANOTHER dimension: convertible,
        # but not what the decorator states (w9: a counterpart table consulted by the dimension test)
        for si_u, gauss_u in (("T", "G"), ("A", "statA"), ("C", "statC"), ("V", "statV"), ("ohm", "statohm")):
            for mine, other in ((si_u, gauss_u), (gauss_u, si_u)):
                if Unit(mine).dimensions == dim:
                    spellings.append(("wrong-em-counterpart", unyt_quantity(2.0, other)))
        spellings.append(("bare", 2.0))
        for label, val in spellings:
            ok = label.startswith("good") or (label == "bare" and dim == udims.dimensionless)
            calls = []
            sentinel = object()

            def mk_accepts():
                log = []

                @accepts(a=dim)
                def f(a, b=None, *extra):
                    log.append(1)
                    return sentinel

                return f, log

            def mk_accepts_default():
                log = []

                @accepts(a=dim, c=udims.time)
                def f(a, b=None, c=unyt_quantity(1.0, "s")):
                    log.append(1)
                    return sentinel

                return f, log

            def mk_returns(n):
                log = []
                ret = (val, unyt_quantity(1.0, "s")) if n == 2 else val

                if n == 2:

                    @returns(dim, udims.time)
                    def f():
                        log.append(1)
                        return ret

                else:

                    @returns(dim)
                    def f():
                        log.append(1)
                        return ret

                return f, log, ret

            def mk_nested():
                log = []

                @returns(dim)
                @accepts(a=dim)
                def f(a):
                    log.append(1)
                    return a

                return f, log

            usages = []
            f, log = mk_accepts()
            usages.append(("accepts-positional", lambda f=f: f(val), log, sentinel, 0))
            f, log = mk_accepts()
            usages.append(("accepts-keyword", lambda f=f: f(a=val), log, sentinel, 0))
            f, log = mk_accepts()
            usages.append(("accepts-extra-unchecked", lambda f=f: f(val, unyt_quantity(1.0, "kg"), 5, "x"), log, sentinel, 0))
            f, log = mk_accepts_default()
            usages.append(("accepts-default", lambda f=f: f(val), log, sentinel, 0))
            f, log = mk_accepts_default()
            usages.append(("accepts-keyword-order", lambda f=f: f(c=unyt_quantity(2.0, "hr"), a=val), log, sentinel, 0))
            f, log, ret = mk_returns(1)
            usages.append(("returns-single", lambda f=f: f(), log, ret, 1))
            f, log, ret = mk_returns(2)
            usages.append(("returns-multiple", lambda f=f: f(), log, ret, 1))
            f, log = mk_nested()
            usages.append(("nested", lambda f=f: f(val), log, val, 0))

            def mk_returns_tuple_one_dim():
                log = []
                ret = (val, unyt_quantity(1.0, "kg"))  # ONE stated dimension, a tuple result: the first value is the checked one

                @returns(dim)
                def f():
                    log.append(1)
                    return ret

                return f, log, ret

            f, log, ret = mk_returns_tuple_one_dim()
            usages.append(("returns-one-dimension-tuple-result", lambda f=f: f(), log, ret, 1))
            # every usage is also exercised as the SECOND and THIRD call of the same decorated function (after calls with a
            # matching argument): a decorator that keeps per-function state must not wear out
            good_val = spellings[0][1]
            warm_usages = []
            f, log = mk_accepts()
            warm_usages.append(("accepts-positional-after-earlier-calls", f, lambda f=f: f(val), log, sentinel, 0))
            f, log = mk_accepts()
            warm_usages.append(("accepts-keyword-after-earlier-calls", f, lambda f=f: f(a=val), log, sentinel, 0))
            f, log = mk_nested()
            warm_usages.append(("nested-after-earlier-calls", f, lambda f=f: f(val), log, val, 0))
            for uname, f, call, log, expect_obj, calls_on_fail in warm_usages:
                try:
                    f(good_val)
                    f(a=good_val)
                except Exception:  # noqa: BLE001
                    pass
                del log[:]
                usages.append((uname, call, log, expect_obj, calls_on_fail))
            for uname, call, log, expect_obj, calls_on_fail in usages:
                ctx.count("evaluations")
                try:
                    r = call()
                    st = "ok"
                except TypeError:
                    r, st = None, "TypeError"
                except Exception as e:  # noqa: BLE001
                    r, st = None, "other:" + type(e).__name__
                case = {"part": "decorate", "dim": name, "arg": label, "usage": uname}
                base = f"C19|decorate|usage={uname}|arg={label}"
                ctx.outcome(("decorate", uname, label, st))
                ctx.decided(("decorate", name, label, uname))
                if ok:
                    if st != "ok":
                        ctx.violation(base + f"|mode=rejected-matching-dimension:{st}", case, "call goes through", st)
                    elif r is not expect_obj:
                        ctx.violation(base + "|mode=result-altered", case, "the wrapped function's own result object", repr(r)[:80])
                    elif len(log) != 1:
                        ctx.violation(base + "|mode=wrapped-function-called-%d-times" % len(log), case, 1, len(log))
                else:
                    if st == "ok":
                        ctx.violation(base + "|mode=accepted-wrong-dimension", case, "TypeError", "returned")
                    elif st != "TypeError":
                        ctx.violation(base + f"|mode=wrong-exception:{st}", case, "TypeError", st)
                    elif len(log) != calls_on_fail:
                        ctx.violation(base + "|mode=wrapped-function-called-on-rejected-argument", case, calls_on_fail, len(log))


            # stacked decorators: each layer keeps checking what it was asked to check
            def stack(outer_kw, inner):
                def deco(fn):
                    return accepts(**outer_kw)(inner(fn))

                return deco

            tq, lq = unyt_quantity(2.0, "s"), unyt_quantity(2.0, "m")
            stacked = []

            @stack({"a": dim}, returns(udims.time))
            def s1(a):
                return lq  # a length is returned where a time is promised: the inner layer must still refuse

            stacked.append(("accepts-over-returns-violated", lambda: s1(val), False))

            @stack({"a": dim}, returns(udims.time))
            def s2(a):
                return tq

            stacked.append(("accepts-over-returns-kept", lambda: s2(val), ok))

            @stack({"a": dim}, accepts(b=udims.time))
            def s3(a, b):
                return sentinel

            stacked.append(("accepts-over-accepts-inner-violated", lambda: s3(a=val, b=lq), False))
            stacked.append(("accepts-over-accepts-inner-kept", lambda: s3(a=val, b=tq), ok))

            @returns(udims.time)
            @stack({"a": dim}, accepts(b=udims.time))
            def s4(a, b):
                return b

            stacked.append(("returns-over-accepts-over-accepts", lambda: s4(a=val, b=tq), ok))
            stacked.append(("returns-over-accepts-over-accepts-inner-violated", lambda: s4(a=val, b=lq), False))
            # signatures with *args, keyword-only parameters and local names that coincide with a checked name
            oth = lq if dim is udims.time or dim == udims.time else tq

            @accepts(scale=dim)
            def g1(x, *more, scale):
                return sentinel

            stacked.append(("varargs-then-keyword-only", lambda: g1(oth, oth, scale=val), ok))
            stacked.append(("varargs-then-keyword-only-violated", lambda: g1(val, val, scale=oth), False))

            @accepts(a=dim, tmp=dim)
            def g2(a, *rest):
                tmp = 1  # noqa: F841 - a local that shares its name with a checked (absent) argument
                return sentinel

            stacked.append(("surplus-positionals-vs-local-name", lambda: g2(val, oth, oth), ok))

            @accepts(k=dim)
            def g3(a, *, k):
                return sentinel

            stacked.append(("keyword-only", lambda: g3(oth, k=val), ok))
            stacked.append(("keyword-only-violated", lambda: g3(val, k=oth), False))

            @accepts(b=dim)
            def g4(a, b=None, **extra):
                return sentinel

            stacked.append(("var-keywords", lambda: g4(oth, val, c=oth), ok))
            stacked.append(("var-keywords-violated", lambda: g4(val, b=oth, c=val), False))
            for uname, call, want_ok in stacked:
                ctx.count("evaluations")
                try:
                    call()
                    st = "ok"
                except TypeError:
                    st = "TypeError"
                except Exception as e:  # noqa: BLE001
                    st = "other:" + type(e).__name__
                case = {"part": "decorate", "dim": name, "arg": label, "usage": uname}
                ctx.outcome(("decorate", uname, label, st))
                ctx.decided(("decorate", name, label, uname))
                if want_ok and st != "ok":
                    ctx.violation(f"C19|decorate|usage={uname}|arg={label}|mode=rejected-matching-dimension:{st}", case, "call goes through", st)
                elif not want_ok and st == "ok":
                    ctx.violation(f"C19|decorate|usage={uname}|arg={label}|mode=accepted-wrong-dimension", case, "TypeError", "returned")
                elif not want_ok and st != "TypeError":
                    ctx.violation(f"C19|decorate|usage={uname}|arg={label}|mode=wrong-exception:{st}", case, "TypeError", st)


def run(ctx):
    forms = ["quantity", "array", "qlist", "bare"]
    harness.pmap(ctx, part_close, [[(a, d)] for a in forms for d in forms])
    harness.pmap(ctx, part_equal, [[s] for s in [(), (3,), (2, 2), (1,)]])
    harness.pmap(ctx, part_registries, [["quantity"], ["array"]])
    harness.pmap(ctx, part_close_tolerances, [["temperature"], ["length"], ["dimensionless-operand"]])
    dims = all_dimensions()
    harness.pmap(ctx, part_decorate, [dims[i::16] for i in range(16)])
    return {
        "coverage": {
            "rule": "close: (form of actual, form of desired) x units x value relation x rtol spelling x atol spelling x function, "
            "verdict compared with |A-D| <= atol + rtol|D| on SI magnitudes; equal: unit pair x relation x function; decorate: "
            "dimension x argument spelling x usage form; decided = the call's accept/refuse outcome was compared with the reference",
            "forms": forms,
            "value_relations": RELS,
            "dimensions": len(dims),
        },
        "assumptions": [
            "value relations are a factor 4 away from every tolerance boundary, so rounding cannot flip a verdict",
            "a bare atol is read in desired's unit (statement and docstring); a refusal may be False, AssertionError or any exception",
            "np.allclose/np.isclose with a bare or explicitly dimensionless operand against a dimensional one carry no verdict (counted)",
            "accepts() checks the arguments that are passed; defaults are not judged",
        ],
    }


def replay(case):
    ctx = harness.Ctx(PROPERTY, "quick", 0)
    p = case["part"]
    if p == "close":
        part_close(ctx, [(case["fa"], case["fd"])])
    elif p == "equal":
        part_equal(ctx, [tuple(case["shape"])])
    elif p == "registries":
        part_registries(ctx, [case["form"]])
    elif p == "close-tolerances":
        part_close_tolerances(ctx, [case["kind"]])
    else:
        part_decorate(ctx, [x for x in all_dimensions() if x[0] == case["dim"]])
    return list(ctx.violations.items())
