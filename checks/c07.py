"""C07  NumPy functions propagate units covariantly and never drop them silently.

Every catalogue template (the same 1400+ call templates as C06: every function dispatching through
__array_function__ plus the ndarray methods) is executed on the real code with all inputs of each
dimension slot expressed coherently in a baseline unit and again in every alternative unit:

  (i)  dyadic: a custom registry with units L1=1 m, Lp=1/64 m, Lq=64 m (and T*, M* likewise); the
       numbers are rescaled by the exact power of 64, so the same physical quantities go in, and the
       results must denote the same physical quantity BIT FOR BIT (unit-carrying results compared as
       value x base_value, bare results compared as they are).  Templates flagged `tol` (LAPACK / FFT /
       LU backed) are compared under a relative tolerance instead.
  (ii) ordinary units (m -> cm, km, mile; s -> hr; kg -> lb) under tolerance.

Second oracle (hand-typed result class column of the catalogue, `cls == "same"`): the result is a unyt
object whose dimension is the dimension of the input slot - never a bare or dimensionless array.
"""

import itertools

import numpy as np

from mc import harness, world
from mc.catalog import core, run as R
from mc.ref.dims import dim_of

PROPERTY = "C07"

from unyt import dimensions as udims
from unyt.array import unyt_array
from unyt.unit_registry import UnitRegistry

RTOL_TOL = 1e-9  # LAPACK/FFT-backed templates and non-dyadic units
SLOT_DIM = {"X": udims.length, "Y": udims.time, "W": udims.mass}
SLOT_LETTER = {"X": "L", "Y": "T", "W": "M"}
DY = {"1": 1.0, "p": 1.0 / 64, "q": 64.0, "h": 0.5}  # h: integer data are only doubled (products of 64s would leave int64)
ORD = {
    "X": [("m", 1.0), ("cm", 0.01), ("km", 1000.0), ("mile", 1609.344)],
    "Y": [("s", 1.0), ("hr", 3600.0)],
    "W": [("kg", 1.0), ("lb", 0.45359237)],
}


def make_registry():
    reg = UnitRegistry()
    for slot, letter in SLOT_LETTER.items():
        for tag, sc in DY.items():
            reg.add(letter + tag, sc, SLOT_DIM[slot], tex_repr=letter + tag)
    return reg


def split_tid(tid):
    if "|" in tid:
        form, sh = tid.rsplit("|", 1)
        return form, sh.replace(" ", "")
    return tid, "-"


def key(t, dt, sysname, mode, leaf=""):
    form, sh = split_tid(t.tid)
    return f"C07|func={t.func}|form={form}|shape={sh}|dt={dt}|units={sysname}{leaf}|mode={mode}"


def slots_of(t):
    return sorted({s[0] for (s, _, _) in t.inputs.values() if s})


def si_leaf(leaf):
    """('arr', data, unit, cls) -> (SI-valued ndarray or raw data, RDim or None)"""
    _, a, u, _cls = leaf
    if u is None:
        return a, None
    bv = float(u.base_value)
    if a.dtype.kind in "fc":
        return a * bv, dim_of(u.dimensions)
    if a.dtype.kind in "iu":
        return a.astype(float) * bv, dim_of(u.dimensions)
    return a, dim_of(u.dimensions)


def cmp_arr(a, b, exact):
    if a.shape != b.shape:
        return "wrong-shape"
    if a.dtype.kind in "biuSUO?" and b.dtype.kind in "biuSUO?":
        return None if np.array_equal(a, b) else "wrong-values"
    if a.size == 0:
        return None
    fa = np.asarray(a, dtype=complex if a.dtype.kind == "c" or b.dtype.kind == "c" else float)
    fb = np.asarray(b, dtype=fa.dtype)
    na, nb = np.isnan(fa), np.isnan(fb)
    if not np.array_equal(na, nb):
        return "wrong-values"
    ia = np.isinf(fa)
    if not np.array_equal(ia, np.isinf(fb)) or not np.array_equal(fa[ia], fb[ia]):
        return "wrong-values"
    m = ~(na | ia)
    if not m.any():
        return None
    if exact:
        return None if np.array_equal(fa[m], fb[m]) else "wrong-values"
    scale = max(np.max(np.abs(fb[m])), np.max(np.abs(fa[m])))
    rtol = RTOL_TOL
    for x in (a, b):  # narrow float results (dtype=float32 templates) carry their own rounding
        if x.dtype.kind in "fc" and x.dtype.itemsize // (2 if x.dtype.kind == "c" else 1) < 8:
            rtol = max(rtol, 256 * float(np.finfo(x.dtype).eps))
    if scale == 0 or np.max(np.abs(fa[m] - fb[m])) <= rtol * scale:
        return None
    return "wrong-values"


def compare(tb, ta, exact, path=()):
    """baseline tree tb vs alternative tree ta -> yields (path, mode)"""
    if tb[0] != ta[0]:
        yield path, f"structure-{ta[0]}-vs-{tb[0]}"
        return
    if tb[0] == "seq":
        if len(tb[1]) != len(ta[1]):
            yield path, "structure-length"
            return
        for i, (cb, ca) in enumerate(zip(tb[1], ta[1])):
            yield from compare(cb, ca, exact, path + (i,))
    elif tb[0] == "arr":
        vb, db = si_leaf(tb)
        va, da = si_leaf(ta)
        if (db is None) != (da is None):
            yield path, "unit-presence-differs"
            return
        if db is not None and db != da:
            yield path, "dimension-differs"
            return
        if _INT_DIV0["on"] and tb[1].dtype.kind in "iu" and ta[1].dtype.kind == "f" and va.shape == vb.shape:
            # integer division by zero has no defined value in the integer path (NumPy stores 0) and inf/nan in the
            # float path an int -> float unit conversion moves the computation to: those positions are not compared
            sel = np.isfinite(va)
            va, vb = va[sel], vb[sel]
        m = cmp_arr(va, vb, exact)
        if m:
            yield path, ("bare-result-" if db is None else "quantity-") + m
    elif tb[0] in ("val", "str"):
        pass  # strings / dtypes: not a C07 matter


_INT_DIV0 = {"on": False}


def check_same_class(ctx, t, dt, sysname, tree, slotdim, case):
    """second oracle: every array leaf of a `same`-class result carries the slot's dimension"""
    for path, leaf in core.leaves(tree):
        if leaf[0] != "arr":
            continue
        ctx.count("same_class_leaves")
        lf = "|leaf=" + ".".join(map(str, path)) if path else ""
        if leaf[2] is None:
            ctx.violation(key(t, dt, sysname, "units-dropped", lf), case, "unyt object with the input's dimension", leaf[3])
        elif dim_of(leaf[2].dimensions) != slotdim:
            ctx.violation(
                key(t, dt, sysname, "wrong-dimension", lf), case, repr(slotdim), str(leaf[2].dimensions)
            )


def short(tr):
    if tr is None:
        return None
    if tr[0] == "arr":
        return {"shape": list(tr[1].shape), "head": harness.jsonable(tr[1].reshape(-1)[:4].tolist()), "unit": str(tr[2]), "cls": tr[3]}
    if tr[0] == "seq":
        return [short(c) for c in tr[1][:4]]
    return harness.jsonable(tr[:2])


def run_one(ctx, t, dt, pack, sysname, reg, base_units, alts):
    """alts: list of (label, units dict, factors dict)"""
    data = core.build_data(t, pack, dt)
    exact_sys = sysname == "dyadic"
    exact = exact_sys and not t.flags.get("tol")
    noncov = t.flags.get("noncov")
    kb = R.mk_unyt(t, data, base_units, registry=reg)
    stb, tb, _ = R.execute(t, kb)
    ctx.count("evaluations")
    case0 = {"func": t.func, "tid": t.tid, "dt": dt, "pack": pack, "sys": sysname}
    same = t.cls == "same"
    slotdim = dim_of(SLOT_DIM[t.flags.get("same_slot", "X")]) if same else None
    if stb == "ok" and same:
        check_same_class(ctx, t, dt, sysname, tb, slotdim, dict(case0, chg="baseline"))
    inpl = t.flags.get("inplace", ())
    tgt_b = {n: core.tree(kb[n]) for n in inpl} if stb == "ok" else {}
    # third oracle: an out= buffer handed over in ANOTHER unit of the same dimension must come back denoting the
    # same quantities as with a buffer in the inputs' unit (handlers relabel or convert, never keep a stale label)
    if exact_sys and stb == "ok" and "out" in inpl and t.inputs["out"][0] is not None and not noncov:
        slot = t.inputs["out"][0][0]
        alt_unit = SLOT_LETTER[slot] + "q"
        ctx.count("evaluations")
        ko = R.mk_unyt(t, data, base_units, registry=reg)
        o = ko["out"]
        ko["out"] = unyt_array(np.array(np.asarray(o), copy=True), alt_unit, registry=reg)
        sto, to, _ = R.execute(t, ko)
        case = dict(case0, chg=f"out-buffer:{alt_unit}")
        if sto == "ok":
            ctx.decided((t.func, t.tid, dt, pack, sysname, "out-buffer"))
            for path, mode in compare(tgt_b["out"], core.tree(ko["out"]), exact):
                ctx.violation(key(t, dt, sysname, "out-buffer-in-other-unit-" + mode, "|target=out"), case, short(tgt_b["out"]), short(core.tree(ko["out"])))
            for path, mode in compare(tb, to, exact):
                lf = "|leaf=" + ".".join(map(str, path)) if path else ""
                ctx.violation(key(t, dt, sysname, "out-buffer-in-other-unit-result-" + mode, lf), case, short(_at(tb, path)), short(_at(to, path)))
        else:
            ctx.count("out_buffer_other_unit_refused")
    for label, units, factors in alts:
        ctx.count("evaluations")
        case = dict(case0, chg=label)
        ka = R.mk_unyt(t, data, units, registry=reg, factors=factors)
        sta, ta, _ = R.execute(t, ka)
        ctx.outcome((t.func, t.tid, dt, stb, sta, label))
        if sta == "ok" and same:
            check_same_class(ctx, t, dt, sysname, ta, slotdim, case)
        if noncov:
            ctx.count("noncovariant_by_definition")
            continue
        if stb == "raise" and sta == "raise":
            ctx.count("both_raise")
            continue
        if stb != sta:
            # an integer template cannot be rescaled down exactly; only listed combos reach here
            ctx.violation(
                key(t, dt, sysname, "raises-in-one-unit-only"),
                case,
                f"baseline {stb}: {tb if stb == 'raise' else ''!r}"[:200],
                f"alternative {sta}: {ta if sta == 'raise' else ''!r}"[:200],
            )
            continue
        ctx.decided((t.func, t.tid, dt, pack, sysname, label))
        for path, mode in compare(tb, ta, exact):
            lf = "|leaf=" + ".".join(map(str, path)) if path else ""
            ctx.violation(key(t, dt, sysname, mode, lf), case, short(_at(tb, path)), short(_at(ta, path)))
        for n in inpl:
            for path, mode in compare(tgt_b[n], core.tree(ka[n]), exact):
                ctx.violation(key(t, dt, sysname, "target-" + mode, "|target=" + n), case, short(tgt_b[n]), short(core.tree(ka[n])))
        if ctx.counters["evaluations"] % 211 == 0:
            ctx.sample({"case": case, "baseline": short(tb), "alternative": short(ta)})


def split_alts(t, dt):
    """one input re-expressed on its own while the other inputs of its dimension keep their unit"""
    byslot = {}
    for name, (slot, _shape, _gen) in t.inputs.items():
        if slot:
            byslot.setdefault(slot[0], []).append(name)
    out = []
    for slot, names in byslot.items():
        if len(names) < 2 or slot not in SLOT_LETTER:
            continue
        for n in names[:4]:
            tag = "h" if dt == "i" else "q"
            f = 1.0 / DY[tag]
            out.append((f"only:{n}:{tag}", {n: (SLOT_LETTER[slot] + tag, int(f) if dt == "i" else f)}))
    return out


def run_split(ctx, t, dt, pack, reg, base_units):
    if t.flags.get("noncov"):
        return
    alts = split_alts(t, dt)
    if not alts:
        return
    data = core.build_data(t, pack, dt)
    exact = not t.flags.get("tol")
    kb = R.mk_unyt(t, data, base_units, registry=reg)
    stb, tb, _ = R.execute(t, kb)
    if stb != "ok":
        return
    inpl = t.flags.get("inplace", ())
    tgt_b = {n: core.tree(kb[n]) for n in inpl}
    _INT_DIV0["on"] = dt == "i"
    for label, by_name in alts:
        ctx.count("evaluations")
        ka = R.mk_unyt(t, data, base_units, registry=reg, by_name=by_name)
        sta, ta, _ = R.execute(t, ka)
        case = {"func": t.func, "tid": t.tid, "dt": dt, "pack": pack, "sys": "split", "chg": label}
        ctx.outcome((t.func, t.tid, dt, "split", sta))
        if sta != "ok":
            ctx.count("split_units_refused")  # a function may insist on identical units: refusing is not a C07 matter
            continue
        ctx.decided((t.func, t.tid, dt, pack, "split", label))
        for path, mode in compare(tb, ta, exact):
            lf = "|leaf=" + ".".join(map(str, path)) if path else ""
            ctx.violation(key(t, dt, "split", mode, lf), case, short(_at(tb, path)), short(_at(ta, path)))
        for n in inpl:
            for path, mode in compare(tgt_b[n], core.tree(ka[n]), exact):
                ctx.violation(key(t, dt, "split", "target-" + mode, "|target=" + n), case, short(tgt_b[n]), short(core.tree(ka[n])))
    _INT_DIV0["on"] = False


def _at(tr, path):
    for p in path:
        tr = tr[1][p]
    return tr


def dyadic_alts(t, dt, tier):
    sl = slots_of(t)
    tags = ["1", "h"] if dt == "i" else ["1", "p", "q"]
    out = []
    for combo in itertools.product(tags, repeat=len(sl)):
        if all(c == "1" for c in combo):
            continue
        units = {s: SLOT_LETTER[s] + c for s, c in zip(sl, combo)}
        factors = {s: 1.0 / DY[c] for s, c in zip(sl, combo)}
        if dt == "i":
            factors = {s: int(f) for s, f in factors.items()}
        out.append((",".join(f"{s}:{c}" for s, c in zip(sl, combo)), units, factors))
    for s in ("X", "Y", "W"):
        if s not in sl:
            pass
    return out


def ordinary_alts(t, dt, tier):
    sl = slots_of(t)
    if dt == "i":
        return []
    menus = [ORD[s] if tier == "thorough" else ORD[s][:1] + ORD[s][-1:] for s in sl]
    out = []
    for combo in itertools.product(*menus):
        if all(c[1] == 1.0 for c in combo):
            continue
        units = {s: c[0] for s, c in zip(sl, combo)}
        factors = {s: 1.0 / c[1] for s, c in zip(sl, combo)}
        out.append((",".join(f"{s}:{c[0]}" for s, c in zip(sl, combo)), units, factors))
    return out


def plan(tier, seed):
    packs = [seed % 4] if tier == "quick" else [0, 1, 2, 3]
    return packs


def run_template(ctx, t, dt, pack, reg, tier, only=None):
    full = {"X": "L1", "Y": "T1", "W": "M1"}
    if only in (None, "dyadic"):
        run_one(ctx, t, dt, pack, "dyadic", reg, full, dyadic_alts(t, dt, tier))
    if only in (None, "split"):
        run_split(ctx, t, dt, pack, reg, full)
    if only in (None, "ordinary"):
        oa = ordinary_alts(t, dt, tier)
        if oa:
            run_one(ctx, t, dt, pack, "ordinary", None, {"X": "m", "Y": "s", "W": "kg"}, oa)


def shard_fn(ctx, shard):
    world.reset_world()
    reg = make_registry()
    for i in shard:
        t = R.TEMPLATES[i]
        if t.cls == "refuse":
            continue
        for dt in R.template_dts(t):
            for pack in plan(ctx.tier, ctx.seed):
                run_template(ctx, t, dt, pack, reg, ctx.tier)


def run(ctx):
    idx = list(range(len(R.TEMPLATES)))
    shards = [idx[i::64] for i in range(64)]
    harness.pmap(ctx, shard_fn, shards)
    return {
        "coverage": {
            "rule": "one evaluation = one template x dtype x payload pack executed on the real code with all inputs of each dimension slot in one unit; every alternative unit assignment is compared leaf by leaf with the baseline (SI magnitudes of unit-carrying leaves, raw numbers of bare leaves); decided = both executions returned",
            "templates": len(R.TEMPLATES),
            "functions_catalogued": len({t.func for t in R.TEMPLATES}),
            "dyadic_units": {k: DY for k in SLOT_LETTER.values()},
            "ordinary_units": {k: [u for u, _ in v] for k, v in ORD.items()},
            "packs": plan(ctx.tier, ctx.seed),
            "noncovariant_templates": sorted({f"{t.func}|{t.tid}" for t in R.TEMPLATES if t.flags.get("noncov")})[:200],
            "tolerance_templates": len([t for t in R.TEMPLATES if t.flags.get("tol")]),
        },
        "assumptions": [
            "dyadic rescaling by 64^k is exact in IEEE-754 for the payload magnitudes used (no overflow/underflow), so any bit difference is the implementation's",
            "templates flagged tol (LAPACK/FFT/LU) and all non-dyadic unit changes are compared at relative 1e-9 of the largest magnitude in the leaf",
            "templates flagged noncov (rounding family, transcendental-of-value, string/IO producers, bare parameters read in the array's current unit) are exempt from the covariance oracle only",
            "result class `same` is typed by hand from NumPy's documentation (mc/catalog), not from unyt's handlers",
        ],
    }


def replay(case):
    t = [x for x in R.TEMPLATES if x.func == case["func"] and x.tid == case["tid"]][0]
    ctx = harness.Ctx(PROPERTY, "thorough", 0)
    world.reset_world()
    run_template(ctx, t, case["dt"], case["pack"], make_registry(), "thorough", only=case["sys"])
    return list(ctx.violations.items())
