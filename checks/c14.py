"""C14  Every documented unit name resolves to exactly one, correctly scaled unit.

Complete enumeration of (1) every exposed name, (2) every attribute of unyt.unit_symbols and every
Unit attribute of the top-level namespace, (3) a custom registry's add_symbols namespace, (4) the
universe {prefix symbol, prefix word, ''} x {symbol, listed alias, title-case form}: every string of
it is read by an independent name reader (table symbol / listed alias first, then prefix+unit
split) and by unyt.
"""

import itertools

import numpy as np

from mc import harness, world
from mc.ref import rparse
from mc.ref.dims import dim_of

PROPERTY = "C14"

import unyt
import unyt.unit_symbols as usym
from unyt._unit_lookup_table import (
    default_unit_name_alternatives,
    default_unit_symbol_lut,
    name_alternatives,
    unit_prefixes,
)
from unyt.exceptions import UnitParseError
from unyt.unit_object import Unit
from unyt.unit_registry import UnitRegistry

EPS = 2.0**-52
PREFIX_SYMS = dict(rparse.PREFIXES)
PREFIX_WORDS = {w: PREFIX_SYMS[p] for w, p in rparse.PREFIX_WORDS.items()}


# ---- independent name reader -------------------------------------------------------------------------
def base_names():
    B = {}
    clashes = []
    for s in default_unit_symbol_lut:
        B.setdefault(s, set()).add(s)
    for s, alts in default_unit_name_alternatives.items():
        if s not in default_unit_symbol_lut:
            continue  # reported by part_alias_table: an alias row must hang on a table symbol
        for a in alts:
            B.setdefault(a, set()).add(s)
    return B


BASE = base_names()
PREFIXABLE = {s for s, r in default_unit_symbol_lut.items() if r[4]}
ALIASES_OF = {s: tuple(default_unit_name_alternatives.get(s, ())) for s in default_unit_symbol_lut}


def readings_plain(s):
    """-> (tier1 set, tier2 set) of (prefix_value, symbol)."""
    t1, t2 = set(), set()
    for S in BASE.get(s, ()):
        t1.add((1, S))
    for p, pv in PREFIX_SYMS.items():
        if s.startswith(p) and len(s) > len(p):
            rest = s[len(p) :]
            for S in BASE.get(rest, ()):
                if S in PREFIXABLE and (rest == S or len(rest) < 4):
                    t2.add((pv, S))
    for w, pv in PREFIX_WORDS.items():
        if s.startswith(w) and len(s) > len(w):
            rest = s[len(w) :]
            for S in BASE.get(rest, ()):
                if S in PREFIXABLE and rest != S:
                    t2.add((pv, S))
    return t1, t2


def universe():
    names = set(BASE)
    out = set()
    for n in names:
        out.add(n)
        for p in PREFIX_SYMS:
            out.add(p + n)
        for w in PREFIX_WORDS:
            out.add(w + n)
    titled = set()
    for s in out:
        t = s.title()
        if t != s:
            titled.add(t)
    return sorted(out | titled)


_TITLE_SRC = None


def title_sources():
    global _TITLE_SRC
    if _TITLE_SRC is None:
        m = {}
        for s in universe():
            t = s.title()
            if t != s:
                m.setdefault(t, []).append(s)
        _TITLE_SRC = m
    return _TITLE_SRC


def expected_units(s):
    """-> (list of distinct (prefix_value, symbol) readings after tier priority, via_title flag)."""
    t1, t2 = readings_plain(s)
    if t1:
        return sorted(t1, key=repr), False
    if t2:
        return sorted(t2, key=repr), False
    # title-case variant of something readable
    r = set()
    for x in title_sources().get(s, ()):
        a, b = readings_plain(x)
        r |= a or b
    return sorted(r, key=repr), True


def unit_of_reading(pv, S):
    row = default_unit_symbol_lut[S]
    return float(row[0]) * float(pv), dim_of(row[1]), float(row[2])


def real(s, registry=None):
    try:
        u = Unit(s, registry=registry) if registry is not None else Unit(s)
    except UnitParseError:
        return ("unknown",)
    except Exception as e:  # noqa: BLE001
        return ("raise", type(e).__name__)
    return ("ok", float(u.base_value), dim_of(u.dimensions), float(u.base_offset), str(u.expr))


def same_unit(got, exp):
    sc, dim, off = exp
    return (
        got[2] == dim
        and abs(got[1] - sc) <= 4 * EPS * abs(sc)
        and abs(got[3] - off) <= 1e-12 * max(1.0, abs(off))
    )


def sym_key(S):
    return S


# ---- parts -------------------------------------------------------------------------------------------------
EXPOSED = None


def exposed_names():
    global EXPOSED
    if EXPOSED is None:
        EXPOSED = {}
        for canon, alts in name_alternatives.items():
            for a in alts:
                EXPOSED[a] = canon
    return EXPOSED


def part_universe(ctx, shard):
    world.reset_world()
    exposed = exposed_names()
    for s in shard:
        ctx.count("evaluations")
        ctx.count("transitions")
        exp, via_title = expected_units(s)
        got = real(s)
        units = {unit_of_reading(pv, S) for pv, S in exp}
        ctx.outcome((got[0], len(exp), len(units), via_title, s in exposed))
        case = {"part": "universe", "string": s}
        syms = "+".join(sorted({S for _pv, S in exp})) or "-"
        if s in exposed:
            ctx.decided(s)
            # every exposed name must be usable and have exactly one reading
            if got[0] != "ok":
                ctx.violation(f"C14|exposed|sym={_canon_sym(exposed[s])}|spelling={_spelling(s)}|mode=name-not-usable-as-string", case, "resolves", got)
                continue
            if not exp:
                ctx.violation(f"C14|exposed|sym={_canon_sym(exposed[s])}|mode=exposed-name-has-no-reading", case, None, got)
                continue
        if len(units) > 1:
            ctx.decided(s)
            if got[0] == "ok":
                ctx.violation(f"C14|ambiguous|syms={syms}|mode=two-readings", case, sorted(map(repr, units)), got)
            continue
        if not exp:
            # no legitimate reading: must not be accepted when it is prefix + non-prefixable unit name
            if got[0] == "ok" and _is_prefix_plus_unit(s):
                ctx.decided(s)
                ctx.violation(
                    f"C14|nonprefixable|sym={_rest_sym(s)}|mode=prefix-accepted-on-non-prefixable-unit",
                    case,
                    "UnitParseError",
                    got,
                )
            continue
        if via_title and s not in exposed:
            # a title-case form that unyt does not expose carries no obligation
            ctx.count("unexposed_title_forms")
            continue
        ctx.decided(s)
        (pv, S) = exp[0]
        if got[0] != "ok":
            if s in exposed or not via_title:
                # a readable prefix+unit string that is not exposed: only symbol-prefix + symbol is promised
                if s in exposed or _is_symbol_prefix_plus_symbol(s):
                    ctx.violation(f"C14|resolve|sym={S}|mode=readable-name-rejected", case, exp, got)
            continue
        if not same_unit(got, unit_of_reading(pv, S)):
            ctx.violation(f"C14|resolve|sym={S}|mode=wrong-unit-for-name", case, unit_of_reading(pv, S), got)
    ctx.sample({"strings": shard[:5]})


def _is_symbol_prefix_plus_symbol(s):
    """the spellings the statement promises for a prefixable unit, read off the RAW tables (not off the generated name lists):
    prefix symbol + table symbol, prefix symbol + short listed alias (< 4 characters), prefix word + listed alias"""
    for p in PREFIX_SYMS:
        rest = s[len(p) :]
        if s.startswith(p) and rest in default_unit_symbol_lut:
            return True
        if s.startswith(p) and len(rest) < 4 and any(S in PREFIXABLE and rest in ALIASES_OF.get(S, ()) for S in BASE.get(rest, ())):
            return True
    for w in PREFIX_WORDS:
        rest = s[len(w) :]
        if s.startswith(w) and any(S in PREFIXABLE and rest in ALIASES_OF.get(S, ()) for S in BASE.get(rest, ())):
            return True
    return False


def part_define_export(ctx, shard):
    """define_unit on the default registry also exports an attribute `unyt.<symbol>`: attribute and string denote one unit
    (scale, dimension AND zero point), for every form of the definition"""
    from unyt.unit_object import define_unit

    for variant in shard:
        world.reset_world()
        try:
            if variant == "tuple":
                define_unit("zork", (3.0, "m"))
            elif variant == "quantity":
                define_unit("zork", unyt.unyt_quantity(3.0, "km"))
            elif variant == "offset":
                define_unit("zork", (1.25, "K"), offset=-218.52)
            elif variant == "offset-prefixable":
                define_unit("zork", (0.5, "K"), offset=100.0, prefixable=True)
            elif variant == "prefixable":
                define_unit("zork", (2.0, "s"), prefixable=True)
        except Exception as e:  # noqa: BLE001
            ctx.count("define_refused:" + type(e).__name__)
            world.reset_world()
            continue
        for name in ("zork",) + (("kzork", "mzork") if "prefixable" in variant else ()):
            ctx.count("evaluations")
            ctx.decided(("define-export", variant, name))
            s_ = real(name)
            case = {"part": "define-export", "variant": variant, "name": name}
            attr = getattr(unyt, name, None)
            if name == "zork" and not isinstance(attr, Unit):
                ctx.violation(f"C14|define-export|variant={variant}|mode=no-attribute-exported", case, "Unit", repr(attr))
                continue
            if s_[0] != "ok":
                ctx.violation(f"C14|define-export|variant={variant}|mode=defined-name-not-usable-as-string", case, "resolves", s_)
                continue
            if isinstance(attr, Unit):
                a = ("ok", float(attr.base_value), dim_of(attr.dimensions), float(attr.base_offset))
                if a[1:4] != s_[1:4]:
                    ctx.violation(f"C14|define-export|variant={variant}|mode=attribute-differs-from-string", case, s_[1:4], a[1:4])
                # conversions by name and through the attribute agree
                try:
                    q = unyt.unyt_quantity(300.0, Unit(name).get_base_equivalent("mks"))
                    v1, v2 = float(q.to(name).d), float(q.to(attr).d)
                    if abs(v1 - v2) > 1e-12 * max(abs(v1), 1.0):
                        ctx.violation(f"C14|define-export|variant={variant}|mode=conversion-by-attribute-differs-from-by-name", case, v1, v2)
                except Exception:  # noqa: BLE001
                    ctx.count("define_export_conversion_refused")
    world.reset_world()


def part_alias_reference(ctx):
    """the library's alias table against the independent reference (mc/ref/aliases.py), in both directions, and every
    reference alias resolved against the definition of the symbol the REFERENCE gives for it"""
    from mc.ref.aliases import ALIAS_OF

    lib = {}
    for key, alts in default_unit_name_alternatives.items():
        for a in alts:
            lib.setdefault(a, []).append(key)
    for a, sym in sorted(ALIAS_OF.items()):
        ctx.count("evaluations")
        ctx.decided(("alias-ref", a))
        case = {"part": "alias-reference", "alias": a, "symbol": sym}
        if lib.get(a) != [sym]:
            ctx.violation("C14|alias-reference|mode=alias-listed-under-another-symbol-or-missing", case, sym, lib.get(a))
        if sym not in default_unit_symbol_lut:
            ctx.violation("C14|alias-reference|mode=reference-symbol-missing-from-table", case, sym, None)
            continue
        g = real(a)
        if g[0] != "ok":
            if not (a in ("°C", "°F") and False):
                ctx.violation(f"C14|alias-reference|sym={sym}|mode=listed-name-not-usable-as-string", case, "resolves", g)
        elif not same_unit(g, unit_of_reading(1, sym)):
            ctx.violation(f"C14|alias-reference|sym={sym}|mode=alias-denotes-another-unit", case, unit_of_reading(1, sym), g)
    for a, keys in sorted(lib.items()):
        if a not in ALIAS_OF:
            ctx.violation("C14|alias-reference|mode=alias-not-in-reference", {"part": "alias-reference", "alias": a}, None, keys)


def part_alias_table(ctx, shard):
    """the raw alias table: every row hangs on a table symbol, every listed alias is usable and denotes that symbol's unit"""
    for key in shard:
        alts = default_unit_name_alternatives[key]
        ctx.count("evaluations")
        case = {"part": "alias-table", "key": key}
        if key not in default_unit_symbol_lut:
            ctx.violation("C14|alias-table|mode=alias-row-for-a-name-that-is-not-a-table-symbol", case, "table symbol", key)
            for a in (key,) + tuple(alts):
                g = real(a)
                if g[0] != "ok":
                    ctx.violation("C14|alias-table|mode=listed-name-not-usable-as-string", dict(case, name=a), "resolves", g)
            continue
        want = unit_of_reading(1, key)
        for a in alts:
            ctx.count("evaluations")
            ctx.decided(("alias", key, a))
            g = real(a)
            if g[0] != "ok":
                ctx.violation(f"C14|alias-table|sym={key}|mode=listed-name-not-usable-as-string", dict(case, name=a), "resolves", g)
            elif not same_unit(g, want):
                ctx.violation(f"C14|alias-table|sym={key}|mode=alias-denotes-another-unit", dict(case, name=a), want, g)
            if not hasattr(usym, a) and a.isidentifier():
                ctx.violation(f"C14|alias-table|sym={key}|mode=listed-name-missing-from-unit_symbols", dict(case, name=a), "attribute", None)


def _is_prefix_plus_unit(s):
    for p in list(PREFIX_SYMS) + list(PREFIX_WORDS):
        if s.startswith(p) and s[len(p) :] in BASE:
            return True
    return False


def _rest_sym(s):
    for p in list(PREFIX_SYMS) + list(PREFIX_WORDS):
        if s.startswith(p) and s[len(p) :] in BASE:
            return "+".join(sorted(BASE[s[len(p) :]]))
    return "?"


def _spelling(name):
    """how a name is put together: <prefix kind>+<the name the prefix is attached to> (part of violation keys, so that a
    known defect of one spelling family cannot hide a new one of another)"""
    for w in sorted(PREFIX_WORDS, key=len, reverse=True):
        for ww, kind in ((w, "word"), (w.title(), "Word")):
            if name.startswith(ww) and name[len(ww) :] in BASE:
                return f"{kind}+{name[len(ww):]}"
    for ps in sorted(PREFIX_SYMS, key=len, reverse=True):
        if name.startswith(ps) and name[len(ps) :] in BASE and name not in BASE:
            return f"symbol+{name[len(ps):]}"
    return "plain"


def _canon_sym(canon):
    if canon in default_unit_symbol_lut:
        return canon
    sp = rparse.split_prefix(canon, {k: (0, 0, 0, v[4]) for k, v in default_unit_symbol_lut.items()})
    return sp[1] if sp else canon


def part_attrs(ctx, shard):
    """attribute vs string vs custom-registry namespace."""
    world.reset_world()
    reg = UnitRegistry()
    ns = {}
    from unyt.unit_systems import add_symbols

    add_symbols(ns, reg)
    # a registry whose built-in symbols were redefined: its namespace must follow ITS table, not the default one
    reg2 = UnitRegistry()
    for sym_, val_ in (("pc", 3.0e16), ("Msun", 2.0e30), ("yr", 3.0e7), ("eV", 1.5e-19), ("Hz", 2.0), ("lb", 0.5)):
        reg2.modify(sym_, val_)
    ns2 = {}
    add_symbols(ns2, reg2)
    top = vars(unyt)
    for name in shard:
        n2 = ns2.get(name)
        if n2 is not None:
            ctx.count("evaluations")
            r2 = real(name, registry=reg2)
            nn2 = ("ok", float(n2.base_value), dim_of(n2.dimensions), float(n2.base_offset), str(n2.expr))
            if r2[0] == "ok" and (r2[2:4] != nn2[2:4] or abs(r2[1] - nn2[1]) > 1e-12 * abs(r2[1])):
                ctx.violation(f"C14|attr|sym={_canon_sym(exposed_names().get(name, name))}|mode=edited-registry-string-differs-from-its-namespace", {"part": "attrs", "name": name}, r2, nn2)
            if n2.registry is not reg2:
                ctx.violation(f"C14|attr|sym={_canon_sym(exposed_names().get(name, name))}|mode=namespace-unit-bound-to-other-registry", {"part": "attrs", "name": name}, "reg2", None)
        ctx.count("evaluations")
        ctx.count("transitions", 3)
        attr = getattr(usym, name)
        case = {"part": "attrs", "name": name}
        a = ("ok", float(attr.base_value), dim_of(attr.dimensions), float(attr.base_offset), str(attr.expr))
        s = real(name)
        ctx.outcome((s[0], name in ns, name in top))
        ctx.decided(name)
        sym = _canon_sym(exposed_names().get(name, name))
        if s[0] != "ok":
            ctx.violation(f"C14|attr|sym={sym}|spelling={_spelling(name)}|mode=attribute-name-not-usable-as-string", case, a, s)
        elif s[1:4] != a[1:4]:
            ctx.violation(f"C14|attr|sym={sym}|mode=attribute-differs-from-string", case, a, s)
        t = top.get(name)
        if isinstance(t, Unit):
            tt = ("ok", float(t.base_value), dim_of(t.dimensions), float(t.base_offset), str(t.expr))
            if tt[1:4] != a[1:4]:
                ctx.violation(f"C14|attr|sym={sym}|mode=toplevel-differs-from-unit_symbols", case, a, tt)
        elif t is None:
            ctx.violation(f"C14|attr|sym={sym}|mode=missing-from-toplevel", case, a, None)
        else:
            ctx.count("toplevel_name_is_constant")
        n = ns.get(name)
        if n is None:
            ctx.violation(f"C14|attr|sym={sym}|mode=missing-from-registry-namespace", case, a, None)
        else:
            nn = ("ok", float(n.base_value), dim_of(n.dimensions), float(n.base_offset), str(n.expr))
            if nn[1:4] != a[1:4]:
                ctx.violation(f"C14|attr|sym={sym}|mode=registry-namespace-differs", case, a, nn)
            if n.registry is not reg:
                ctx.violation(f"C14|attr|sym={sym}|mode=namespace-unit-bound-to-other-registry", case, "reg", None)
            r = real(name, registry=reg)
            if r[0] == "ok" and r[1:4] != nn[1:4]:
                ctx.violation(f"C14|attr|sym={sym}|mode=registry-string-differs-from-namespace", case, nn, r)


UNICODE_PAIRS = [
    ("µm", "um"), ("μm", "um"), ("µs", "us"), ("μg", "ug"), ("Ω", "ohm"), ("kΩ", "kohm"), ("mΩ", "mohm"),
    ("Å", "angstrom"), ("°C", "degC"), ("°F", "degF"), ("°", "degree"), ("Δ°C", "delta_degC"),
    ("Δ°F", "delta_degF"), ("μ_0", "mu_0"),
]  # fmt: skip


def part_unicode(ctx, shard):
    for a, b in shard:
        ctx.count("evaluations")
        ra, rb = real(a), real(b)
        ctx.outcome((ra[0], rb[0]))
        ctx.decided((a, b))
        if rb[0] != "ok" or a not in exposed_names():
            # only unicode spellings that unyt itself lists as names carry an obligation here
            # (the printed forms of the delta units are C20's business)
            ctx.count("unicode_pairs_without_obligation")
            continue
        if ra[0] != "ok" or ra[1:4] != rb[1:4]:
            ctx.violation(f"C14|unicode|ascii={b}|mode=unicode-spelling-differs", {"part": "unicode", "pair": [a, b]}, rb, ra)


def part_bytes(ctx, shard):
    """a documented name handed over as UTF-8 bytes (np.bytes_ headers, HDF5 attributes) denotes what the str denotes"""
    for name in shard:
        ctx.count("evaluations")
        rs = real(name)
        if rs[0] != "ok":
            continue  # unusable as a string: reported elsewhere
        for form, mk in (("bytes", lambda: name.encode("utf-8")), ("np.bytes_", lambda: np.bytes_(name.encode("utf-8")))):
            try:
                u = Unit(mk())
                rb = ("ok", float(u.base_value), dim_of(u.dimensions), float(u.base_offset), str(u.expr))
            except UnitParseError:
                rb = ("unknown",)
            except Exception as e:  # noqa: BLE001
                rb = ("raise", type(e).__name__)
            ctx.decided(("bytes", name, form))
            if rb[0] != "ok" or rb[1:4] != rs[1:4]:
                ctx.violation(f"C14|bytes|form={form}|ascii={int(name.isascii())}|mode=bytes-spelling-differs-from-str", {"part": "bytes", "name": name}, rs, rb)


def chunks(seq, n):
    return [seq[i : i + n] for i in range(0, len(seq), n)]


def part_order(ctx, shard):
    """resolution must not depend on which prefixed spelling of a symbol was looked up first in a registry: for every
    prefixable symbol and every ordered pair of prefix symbols, a fresh registry resolves p1+S and then p2+S"""
    from unyt.unit_registry import UnitRegistry

    from unyt import dimensions as _ud

    for S in shard:
        # user symbols that END in "cm" (comoving units, yt's pccm) get special treatment in the prefix lookup: resolving
        # p+S+"cm" must not change what p+S resolves to
        row = default_unit_symbol_lut[S]
        if S != "cm" and not float(row[2]):
            for p in PREFIX_SYMS:
                ctx.count("evaluations")
                reg = UnitRegistry()
                reg.add(S + "cm", float(row[0]) / 3.0, row[1], prefixable=True)
                first = real(p + S + "cm", reg)
                got = real(p + S, reg)
                exp2, _ = expected_units(p + S)
                if len(exp2) != 1:
                    continue
                ctx.decided(("order-comoving", S, p))
                exp = unit_of_reading(*exp2[0])
                if got[0] != "ok" or not same_unit(got, exp):
                    ctx.violation(f"C14|order|first={p}+S+cm|second={p}+S|mode=resolution-depends-on-earlier-lookup", {"part": "order", "symbol": S, "first": p + S + "cm", "second": p + S}, exp[:1], got[:2])
                want_first = float(row[0]) / 3.0 * PREFIX_SYMS[p]
                if first[0] != "ok" or abs(first[1] - want_first) > 1e-12 * abs(want_first):
                    ctx.violation(f"C14|order|name={p}+S+cm|mode=prefixed-comoving-symbol-wrong", {"part": "order", "symbol": S, "first": p + S + "cm"}, want_first, first[:2])
        for p1, p2 in itertools.permutations(list(PREFIX_SYMS), 2):
            s1, s2 = p1 + S, p2 + S
            exp2, _ = expected_units(s2)
            if len(exp2) != 1:
                continue  # ambiguous or unreadable strings are judged by the universe part
            ctx.count("evaluations")
            reg = UnitRegistry()
            real(s1, reg)
            got = real(s2, reg)
            ctx.decided(("order", S, p1, p2))
            ctx.outcome(("order", got[0]))
            exp = unit_of_reading(*exp2[0])
            if got[0] != "ok" or not same_unit(got, exp):
                ctx.violation(
                    f"C14|order|first={p1}|second={p2}|mode=resolution-depends-on-earlier-lookup",
                    {"part": "order", "symbol": S, "first": s1, "second": s2},
                    exp[:1],
                    got[:2],
                )


def collision_candidates():
    """strings S such that prefix+S is itself a table symbol: registering S must not take that table symbol away"""
    out = {}
    for t in default_unit_symbol_lut:
        for p in PREFIX_SYMS:
            if t.startswith(p) and len(t) > len(p):
                rest = t[len(p):]
                if rest not in default_unit_symbol_lut and rest.isidentifier():
                    out.setdefault(rest, set()).add(t)
    return out


def part_collide(ctx, shard):
    from unyt import dimensions as udims
    from unyt.unit_registry import UnitRegistry

    cands = collision_candidates()
    for S in shard:
        for prefixable, then in itertools.product((True, False), ("add", "add+modify", "add+remove")):
            ctx.count("evaluations")
            reg = UnitRegistry()
            try:
                reg.add(S, 2.0, udims.length, prefixable=prefixable)
                if then == "add+modify":
                    reg.modify(S, 3.0)
                elif then == "add+remove":
                    reg.remove(S)
            except Exception as e:  # noqa: BLE001
                ctx.count("collision_symbol_not_addable")
                continue
            for t in sorted(cands[S]):
                got = real(t, reg)
                row = default_unit_symbol_lut[t]
                exp = (float(row[0]), dim_of(row[1]), float(row[2]))
                ctx.decided(("collide", S, prefixable, then, t))
                if got[0] != "ok" or not same_unit(got, exp):
                    ctx.violation(
                        f"C14|collide|after={then}|prefixable={int(prefixable)}|mode=table-symbol-lost-to-a-user-symbol",
                        {"part": "collide", "symbol": S, "table_symbol": t, "then": then, "prefixable": prefixable},
                        exp[:1],
                        got[:2],
                    )
                # aliases and a prefixed form of the table symbol follow it
                if row[4]:
                    g2 = real("k" + t, reg)
                    if g2[0] == "ok" and abs(g2[1] - 1000.0 * exp[0]) > 1e-9 * abs(exp[0]) * 1000:
                        ctx.violation(f"C14|collide|after={then}|prefixable={int(prefixable)}|mode=prefixed-table-symbol-changed", {"part": "collide", "symbol": S, "table_symbol": "k" + t, "then": then, "prefixable": prefixable}, 1000.0 * exp[0], g2[1])


DOUBLE_BASES = ["m", "g", "s", "eV", "Hz", "pc", "K", "J", "W", "N", "Pa", "yr", "G", "V"]


def part_double(ctx, shard):
    """prefix + (prefix + prefixable symbol): a prefixed unit is not itself prefixable, so the string has a reading only
    if the table / alias list / single-prefix rule gives it one (dam, mmHg ...); asked cold and after the inner unit
    has been resolved (the table row written back for km must not make km prefixable)."""
    world.reset_world()
    for S in shard:
        for q in PREFIX_SYMS:
            inner = q + S
            for warm in (False, True):
                if warm:
                    real(inner)
                for pfx in PREFIX_SYMS:
                    s2 = pfx + inner
                    exp, _t = expected_units(s2)
                    ctx.count("evaluations")
                    if exp:
                        ctx.count("double_prefix_string_has_a_legitimate_reading")
                        continue
                    got = real(s2)
                    ctx.outcome(("double", got[0], warm))
                    ctx.decided(("double", s2, warm))
                    if got[0] == "ok":
                        ctx.violation(f"C14|nonprefixable|sym={S}|warm={int(warm)}|mode=prefix-accepted-on-prefixed-unit", {"part": "double", "sym": S, "string": s2}, "UnitParseError", got)


def run(ctx):
    harness.pmap(ctx, part_order, [[S] for S in sorted(PREFIXABLE)])
    cands = sorted(collision_candidates())
    harness.pmap(ctx, part_collide, chunks(cands, 4))
    uni = universe()
    harness.pmap(ctx, part_universe, chunks(uni, 800))
    attrs = sorted(k for k, v in vars(usym).items() if not k.startswith("_") and isinstance(v, Unit))
    harness.pmap(ctx, part_attrs, chunks(attrs, 600))
    part_unicode(ctx, UNICODE_PAIRS)
    akeys = sorted(default_unit_name_alternatives)
    harness.pmap(ctx, part_alias_table, chunks(akeys, 20))
    part_alias_reference(ctx)
    harness.pmap(ctx, part_define_export, [["tuple"], ["quantity"], ["offset"], ["offset-prefixable"], ["prefixable"]])
    bnames = sorted(n for n in exposed_names() if not n.isascii()) + sorted(n for n in exposed_names() if n.isascii())[::7]
    harness.pmap(ctx, part_bytes, chunks(bnames, 100))
    harness.pmap(ctx, part_double, [[S] for S in DOUBLE_BASES])
    # every exposed name must be inside the universe (otherwise the reader has no opinion on it)
    missing = sorted(set(exposed_names()) - set(uni))
    for m in missing:
        ctx.violation("C14|coverage|mode=exposed-name-outside-universe", {"part": "coverage", "name": m}, None, m)
    return {
        "coverage": {
            "rule": "complete enumeration of the string universe {prefix symbol, prefix word, ''} x {table symbol, "
            "listed alias} plus title-case forms, and of every attribute of unyt.unit_symbols; a decided case is "
            "a distinct string with an obligation (exposed name, readable prefix+symbol string, ambiguous string "
            "or prefix on a non-prefixable unit)",
            "axes": {
                "universe_strings": len(uni),
                "exposed_names": len(exposed_names()),
                "attributes": len(attrs),
                "unicode_pairs": len(UNICODE_PAIRS),
                "double_prefix_strings": len(DOUBLE_BASES) * len(PREFIX_SYMS) ** 2 * 2,
            },
        },
        "assumptions": [
            "the symbol table, the listed-alternatives table and the prefix table are data; the reading rules "
            "(table symbol or listed alias first, then one prefix + prefixable unit) are typed from the statement"
        ],
    }


def replay(case):
    ctx = harness.Ctx(PROPERTY, "quick", 0)
    if case["part"] == "order":
        part_order(ctx, [case["symbol"]])
    elif case["part"] == "collide":
        part_collide(ctx, [case["symbol"]])
    elif case["part"] == "universe":
        part_universe(ctx, [case["string"]])
    elif case["part"] == "attrs":
        part_attrs(ctx, [case["name"]])
    elif case["part"] == "unicode":
        part_unicode(ctx, [tuple(case["pair"])])
    elif case["part"] == "define-export":
        part_define_export(ctx, [case["variant"]])
    elif case["part"] == "bytes":
        part_bytes(ctx, [case["name"]])
    elif case["part"] == "alias-reference":
        part_alias_reference(ctx)
    elif case["part"] == "alias-table":
        part_alias_table(ctx, [case["key"]])
    elif case["part"] == "double":
        part_double(ctx, [case["sym"]])
    return list(ctx.violations.items())
