#!/bin/bash
# usage: try_patch.sh <patch.diff> <Cxx> [<Cxx>...]   -- apply to /repo, run quick checks, always revert
set -u
patch="$1"; shift
cd /repo || exit 2
if ! git diff --quiet; then echo "repo dirty, refusing"; exit 2; fi
git apply "$patch" || { echo "patch does not apply"; exit 2; }
trap 'git -C /repo checkout -- . ' EXIT
for c in "$@"; do
  out=$(cd /verif && VERIF_TIER=${VERIF_TIER:-quick} /venv/bin/python run.py "$c" --tier ${VERIF_TIER:-quick} 2>&1)
  rc=$?
  nv=$(echo "$out" | grep -c '^VIOLATION')
  echo "== $c exit=$rc violations=$nv"
  echo "$out" | grep -E "^  key=" | head -${SHOW:-6}
  echo "$out" | grep -E "HARNESS|Traceback" | head -3
done
