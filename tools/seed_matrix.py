#!/usr/bin/env python3
"""Re-confirm every filed seeded change against /repo's current HEAD and the current checks.

usage: seed_matrix.py [--only Cxx-m1,...] [--checks own|all]
For each /verif/seeded/<id>/: a scratch worktree at /repo HEAD (/tmp/seed_matrix_wt), `git apply` (falls back to -3way),
the pinned test suite must keep the baseline failure set, demo.py must fail, and the checks recorded in meta.caught_by
(or the property's own check) are run with VERIF_REPO=<worktree>.  Updates meta.json's "reconfirmed" block and prints one
line per change.  /repo itself is never touched.
"""
import glob
import json
import os
import subprocess
import sys

VERIF = os.path.dirname(os.path.dirname(os.path.abspath(__file__)))
WT = "/tmp/seed_matrix_wt"
PY = "/venv/bin/python"


def sh(cmd, cwd=None, env=None, timeout=7200):
    r = subprocess.run(cmd, shell=True, cwd=cwd, env=env, capture_output=True, text=True, timeout=timeout)
    return r.returncode, r.stdout + r.stderr


def main():
    global WT
    only = None
    shard = None
    if "--wt" in sys.argv:
        WT = sys.argv[sys.argv.index("--wt") + 1]
    if "--shard" in sys.argv:
        i, n = sys.argv[sys.argv.index("--shard") + 1].split("/")
        shard = (int(i), int(n))
    if "--only" in sys.argv:
        only = set(sys.argv[sys.argv.index("--only") + 1].split(","))
    head = sh("git -C /repo rev-parse HEAD")[1].strip()
    if not os.path.isdir(WT):
        sh(f"git -C /repo worktree add --detach {WT} {head}")
    sh(f"git reset -q --hard && git clean -fdq && git checkout -q --detach {head}", cwd=WT)
    base_failed = open("/tmp/mut/baseline_failed.txt").read() if os.path.exists("/tmp/mut/baseline_failed.txt") else None
    summary = []
    for k, d in enumerate(sorted(glob.glob(os.path.join(VERIF, "seeded", "*")))):
        sid = os.path.basename(d)
        if only and sid not in only:
            continue
        if shard and k % shard[1] != shard[0]:
            continue
        meta = json.load(open(os.path.join(d, "meta.json")))
        sh("git reset -q --hard && git clean -fdq", cwd=WT)
        rc, o = sh(f"git apply {d}/patch.diff", cwd=WT)
        how = "apply"
        if rc != 0:
            rc, o = sh(f"git apply -3 {d}/patch.diff", cwd=WT)
            how = "apply-3way"
        if rc != 0:
            sh("git reset -q --hard && git clean -fdq", cwd=WT)
            summary.append((sid, "PATCH-DOES-NOT-APPLY", ""))
            print(sid, "PATCH-DOES-NOT-APPLY")
            continue
        env = {k: v for k, v in os.environ.items() if k != "PYTHONPATH"}
        rc, o = sh(f"{PY} -m pytest -q -p no:cacheprovider --color=no 2>&1 | grep -E '^(FAILED|ERROR)' | sed 's/ - .*//' | sort", cwd=WT, env=env)
        tests_same = base_failed is None or o == base_failed
        env2 = dict(env, PYTHONPATH=WT, PYTHONDONTWRITEBYTECODE="1")
        rc_demo, _ = sh(f"{PY} {d}/demo.py", cwd=WT, env=env2, timeout=900)
        checks = meta.get("caught_by") or [meta.get("property")]
        caught = []
        for c in checks:
            env3 = dict(os.environ, VERIF_REPO=WT, VERIF_EVIDENCE_DIR=WT + "_ev", VERIF_REPLAY_DIR=WT + "_rp")
            env3.pop("VERIF_REEXEC", None)
            rc, o = sh(f"{PY} {VERIF}/run.py {c} --tier quick", cwd=VERIF, env=env3)
            if rc == 1 and "VIOLATION" in o:
                caught.append(c)
            elif rc not in (0, 1):
                caught.append(f"{c}:exit{rc}")
        status = "CAUGHT" if any(":" not in c for c in caught) else "MISSED"
        meta["reconfirmed"] = {"repo_head": head, "patch": how, "tests_same_as_baseline": tests_same, "demo_exit_with_change": rc_demo, "checks": checks, "caught_by": caught, "status": status}
        json.dump(meta, open(os.path.join(d, "meta.json"), "w"), indent=1)
        line = f"{sid} {status} by={caught} tests_same={tests_same} demo_rc={rc_demo} ({how})"
        print(line, flush=True)
        summary.append((sid, status, line))
    sh("git checkout -q -- . && git clean -fdq", cwd=WT)
    sh(f"git -C /repo worktree remove --force {WT}")
    sh("rm -rf /tmp/seed_matrix_ev /tmp/seed_matrix_rp")
    n = len(summary)
    print(f"{n} changes: {sum(1 for s in summary if s[1] == 'CAUGHT')} caught, {sum(1 for s in summary if s[1] == 'MISSED')} missed, {sum(1 for s in summary if s[1].startswith('PATCH'))} not applicable to HEAD")


if __name__ == "__main__":
    main()
