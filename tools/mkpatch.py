#!/venv/bin/python
"""mkpatch.py <out.diff> <file-relative-to-repo> <old> <new> [<file> <old> <new> ...]  -- build a git patch by literal replacement"""
import subprocess, sys, os, tempfile, shutil
out = sys.argv[1]
args = sys.argv[2:]
tmp = tempfile.mkdtemp(dir="/tmp")
diffs = []
try:
    for i in range(0, len(args), 3):
        rel, old, new = args[i:i+3]
        src = open(os.path.join("/repo", rel)).read()
        if src.count(old) < 1:
            sys.exit(f"pattern not found in {rel}: {old!r}")
        dst = os.path.join(tmp, "b", rel); os.makedirs(os.path.dirname(dst), exist_ok=True)
        a = os.path.join(tmp, "a", rel); os.makedirs(os.path.dirname(a), exist_ok=True)
        if os.path.exists(dst):
            src2 = open(dst).read()
        else:
            src2 = src
            open(a, "w").write(src)
        open(dst, "w").write(src2.replace(old, new, 1))
    r = subprocess.run(["diff", "-ruN", "a", "b"], cwd=tmp, capture_output=True, text=True)
    open(out, "w").write(r.stdout)
finally:
    shutil.rmtree(tmp)
print("wrote", out, len(open(out).read().splitlines()), "lines")
