#!/venv/bin/python
"""Run the repository's pinned test suite (guard off) and compare with BASELINE.json's stable_pass."""
import json, os, subprocess, sys, tempfile
import xml.etree.ElementTree as ET

base = json.load(open("/root/.vp/BASELINE.json"))
out = tempfile.mktemp(suffix=".xml", dir="/tmp")
env = {k: v for k, v in os.environ.items() if k not in ("UNYT_VERIF", "PYTHONPATH")}
cmd = base["cmd"].replace("<file>", out)
r = subprocess.run(cmd, shell=True, env=env, capture_output=True, text=True)
passed = set()
for tc in ET.parse(out).getroot().iter("testcase"):
    if not any(c.tag in ("failure", "error", "skipped") for c in tc):
        passed.add(f"{tc.get('classname')}::{tc.get('name')}")
os.remove(out)
want = set(base["stable_pass"])
missing = sorted(want - passed)
print(f"baseline stable_pass={len(want)} passed_now={len(passed)} missing={len(missing)}")
for m in missing[:40]:
    print("  MISSING", m)
sys.exit(1 if missing else 0)
