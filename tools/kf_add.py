#!/venv/bin/python
"""Append entries to known_findings.json.
  kf_add.py known  <prop> <what> <witness> <key> [<key> ...]
  kf_add.py fixed  <prop> <commit> <what>
"""
import json, sys

p = "/verif/known_findings.json"
d = json.load(open(p))
kind = sys.argv[1]
if kind == "known":
    prop, what, witness, keys = sys.argv[2], sys.argv[3], sys.argv[4], sys.argv[5:]
    have = {e.get("key") for e in d["entries"]}
    for k in keys:
        if k in have:
            print("already listed", k)
            continue
        d["entries"].append({"status": "known", "property": prop, "key": k, "what": what, "witness": witness})
elif kind == "fixed":
    prop, commit, what = sys.argv[2:5]
    d["entries"].append({"status": "fixed", "property": prop, "commit": commit, "what": what})
else:
    sys.exit("known|fixed")
json.dump(d, open(p, "w"), indent=1, ensure_ascii=False)
open(p, "a").write("\n")
print("entries:", len(d["entries"]))
