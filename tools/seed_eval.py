#!/usr/bin/env python3
"""Confirm a seeded property-breaking change and run the checks against it.

usage: seed_eval.py <dir-with-mK.diff,mK_demo.py,mK_meta.json> <K> <worktree> <Cxx> [<Cyy> ...] [--tier quick]
                    [--keep <seeded-id>]

Steps (all in the scratch worktree, /repo itself is never touched):
  1. worktree must be clean; demo must pass on the clean tree
  2. apply the diff; the pinned test suite must give the baseline result (same failures as the clean tree)
  3. demo must fail with the change
  4. each named check is run with VERIF_REPO=<worktree> (the checks import unyt from there); a check
     "catches" the change when it exits 1 with a VIOLATION line
  5. revert; with --keep the change is filed under /verif/seeded/<seeded-id>/
"""
import json
import os
import shutil
import subprocess
import sys

VERIF = os.path.dirname(os.path.dirname(os.path.abspath(__file__)))
PY = "/venv/bin/python"


def sh(cmd, cwd=None, env=None, timeout=3600):
    r = subprocess.run(cmd, shell=True, cwd=cwd, env=env, capture_output=True, text=True, timeout=timeout)
    return r.returncode, r.stdout + r.stderr


def demo(wt, path):
    env = {k: v for k, v in os.environ.items() if k not in ("PYTHONPATH",)}
    env["PYTHONPATH"] = wt
    env["PYTHONDONTWRITEBYTECODE"] = "1"
    return sh(f"{PY} {path}", cwd=wt, env=env, timeout=600)


def main():
    args = sys.argv[1:]
    tier = "quick"
    keep = None
    if "--tier" in args:
        i = args.index("--tier")
        tier = args[i + 1]
        del args[i : i + 2]
    if "--keep" in args:
        i = args.index("--keep")
        keep = args[i + 1]
        del args[i : i + 2]
    d, k, wt = args[0], args[1], args[2]
    checks = args[3:]
    diff = os.path.join(d, f"m{k}.diff")
    dem = os.path.join(d, f"m{k}_demo.py")
    meta = json.load(open(os.path.join(d, f"m{k}_meta.json")))
    out = {"seed": f"{os.path.basename(d.rstrip('/'))}-m{k}", "meta": meta, "ran": []}
    rc, head = sh("git -C /repo rev-parse HEAD")
    sh(f"git checkout -q --detach {head.strip()}", cwd=wt)  # seeded changes are always evaluated on /repo's current HEAD
    rc, o = sh("git status --porcelain", cwd=wt)
    if o.strip():
        print("worktree dirty:", o)
        return 2
    rc, o = demo(wt, dem)
    out["demo_clean_rc"] = rc
    if rc != 0:
        print("REJECT: demo fails on the clean tree\n", o[-800:])
        return 3
    rc, o = sh(f"git apply {diff}", cwd=wt)
    if rc != 0:
        print("REJECT: patch does not apply", o)
        return 3
    try:
        runner = os.path.join(os.path.dirname(os.path.abspath(d.rstrip("/"))), "run_tests.sh")
        rc, o = sh(f"{runner} {wt}")
        out["tests_same_as_baseline"] = rc == 0
        if rc != 0:
            print("REJECT: test-suite result differs from baseline\n", o[-1500:])
            return 3
        rc, o = demo(wt, dem)
        out["demo_mutant_rc"] = rc
        if rc == 0:
            print("REJECT: demo passes with the change")
            return 3
        out["demo_mutant_tail"] = o.strip().splitlines()[-1][:300] if o.strip() else ""
        caught = []
        for c in checks:
            env = dict(os.environ)
            env["VERIF_REPO"] = wt
            scratch = f"/tmp/seed_eval_{os.getpid()}"
            env["VERIF_EVIDENCE_DIR"] = scratch + "/evidence"
            env["VERIF_REPLAY_DIR"] = scratch + "/replays"
            env.pop("VERIF_REEXEC", None)
            rc, o = sh(f"{PY} {VERIF}/run.py {c} --tier {tier}", cwd=VERIF, env=env, timeout=7200)
            viol = [l for l in o.splitlines() if l.startswith("VIOLATION")]
            keys = [l.strip() for l in o.splitlines() if l.strip().startswith("key=")]
            summ = [l for l in o.splitlines() if l.startswith(c + " tier=")]
            rec = {"check": c, "tier": tier, "exit": rc, "violation_lines": len(viol), "first_keys": keys[:4], "summary": summ[-1] if summ else o[-300:]}
            out["ran"].append(rec)
            if rc == 1 and viol:
                caught.append(c)
            print(f"  {c} [{tier}] exit={rc} violations={len(viol)}")
            for kk in keys[:3]:
                print("     ", kk[:220])
            if rc not in (0, 1):
                print(o[-1500:])
        out["caught_by"] = caught
    finally:
        sh("git checkout -- .", cwd=wt)
        sh("git clean -fdq", cwd=wt)
    shutil.rmtree(f"/tmp/seed_eval_{os.getpid()}", ignore_errors=True)
    print("CAUGHT by", out["caught_by"] if out.get("caught_by") else "NOTHING")
    if keep:
        dst = os.path.join(VERIF, "seeded", keep)
        os.makedirs(dst, exist_ok=True)
        shutil.copy(diff, os.path.join(dst, "patch.diff"))
        shutil.copy(dem, os.path.join(dst, "demo.py"))
        m = {
            "id": keep,
            "property": meta.get("property"),
            "summary": meta.get("summary"),
            "needs_to_manifest": meta.get("needs_to_manifest"),
            "files": meta.get("files"),
            "origin": "independent sub-agent given only the property text and a scratch worktree",
            "confirmed": {
                "tests_same_as_baseline": out.get("tests_same_as_baseline"),
                "demo_exit_clean_tree": out.get("demo_clean_rc"),
                "demo_exit_with_change": out.get("demo_mutant_rc"),
                "demo_failure": out.get("demo_mutant_tail"),
                "how": "tools/seed_eval.py: demo on clean worktree, git apply, pinned test suite vs baseline failure set, demo again, checks with VERIF_REPO=<worktree>, revert",
            },
            "checks_run": out["ran"],
            "caught_by": out.get("caught_by", []),
        }
        with open(os.path.join(dst, "meta.json"), "w") as f:
            json.dump(m, f, indent=1)
        print("filed", dst)
    return 0


if __name__ == "__main__":
    sys.exit(main())
