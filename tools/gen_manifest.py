#!/venv/bin/python
"""Regenerate /verif/MANIFEST.json from the table below (kept in one place so it stays valid)."""
import json
import os

HERE = os.path.dirname(os.path.dirname(os.path.abspath(__file__)))
ALL = [f"C{i:02d}" for i in range(1, 21)]

# id -> (technique, level text, level note, design ref)
CHECKS = {
    "C11": (
        "bounded exhaustive exploration object x persistence-hop sequence (deviation bound: 1 hop quick, every ordered pair "
        "thorough) x follow-up operation x execution order, each execution rebuilt from a reset world on the real code; "
        "differential oracle original vs restored",
        "Objects: arrays, quantities and Unit objects over a unit alphabet chosen for the identity-sensitive branches (degree, "
        "lat, degC, delta_degC, mdegC, dB, km, g*cm/s**2, percent, statC, Msun, K/m, dimensionless; 26 units in thorough) in the "
        "default registry and in five custom registries (added code units, re-defined built-in symbols, a prefixable user "
        "symbol used with a prefix, an offset temperature symbol and a user angle, a cgs unit-system registry). Hops: pickle "
        "protocols, pickled containers, copy.copy, copy.deepcopy (plain and inside containers), .copy(), Unit.copy(deep=True), "
        "np.copy, rebuild from str(units) and repr(units), registry to_json/from_json, savetxt/loadtxt, and two sibling-edit "
        "hops (the same JSON text / pickle bytes restored twice with the first restoration's registry edited in between). "
        "After the hops the restored numbers, class, unit (scale, offset, dimension, ==) and the registry's user rows and "
        "unit system must equal the original's, and each of 28 follow-up operations on quantities (16 on Unit objects) - "
        "angle-aware sin/cos, offset-temperature and logarithmic guards, sums, products, roots, comparisons, conversions by "
        "name and to a second unit, in_base/in_cgs/in_mks/galactic, an equivalence, unit algebra - must have the same outcome "
        "(class, numbers, unit, or the same refusal) on original and restored, with the original run first and with the "
        "restored run first.",
        "HDF5 is not exercised (h5py absent). loadtxt cannot carry a registry, so that hop is applied to default-registry "
        "objects only. Outcomes are compared exactly except through the decimal text of savetxt (1e-12).",
        "DESIGN.md section 6 C11",
    ),
    "C13": (
        "explicit-state breadth-first search over interleaved event histories on two custom registries and the default "
        "registry, executed on the real code (world reset + replay per state, canonical state digest), with a per-registry "
        "reference table as oracle and invariants evaluated in every reached state",
        "Registry 1 (created plain; also from a caller-owned table and with unit_system='cgs' in thorough) is born with one user "
        "symbol; registry 2 is created during the history by every route that yields an independent registry (fresh, fresh "
        "table, from_json(to_json), unpickling, deepcopy of the registry, deepcopy of a Unit, deepcopy of a quantity, "
        "Unit.copy(deep=True)). Events: add / modify / remove of a user symbol and re-definition of a built-in symbol in either "
        "registry, construction of prefixed and compound units, arithmetic inside one registry, UnitSystem creation and "
        "add_symbols/add_constants namespaces bound to a registry, mixed operations between the registries and with the default "
        "registry, pickle round trips, modify/remove on the default registry. All histories up to depth 3 with <= 2 edits "
        "(quick) / depth 4 with <= 3 edits (thorough) are explored with canonical-state merging. In EVERY state: each "
        "registry resolves 10 probe strings as its own reference table says (edited only by events addressed to it); the "
        "default table, the unyt namespace sample and built-in conversions are pristine and user symbols are unknown there; "
        "default modify/remove refused; arithmetic and in_base (mks, cgs, a unit system bound to the OTHER registry) done "
        "inside one registry convert back by name with that registry's definitions; mixed sums and quantity*Unit products "
        "follow the left operand's registry and write to neither table.",
        "Staleness of a registry's own memo after its own edits (or inherited by a copy from its source's history before the "
        "copy) is C12's property: such answers are attributed there and counted. Whether a copy carries user content "
        "faithfully is C11's: a derived registry's reference table is read off it at birth.",
        "DESIGN.md section 6 C13",
    ),
    "C10": (
        "exhaustive product enumeration unit system x unit x entry point on the real code with an oracle typed from the "
        "statement, plus explicit-state BFS over histories of conversions / dimension requests / declarations per unit system "
        "(state = canonical units_map) with a cold-world differential in every state",
        "13 unit systems (7 built-in; 6 generated: prefixed base units, quantity-valued base units, non-SI temperature and angle "
        "bases, no current unit, overrides for energy/pressure/velocity, a registry-bound code-unit system) x every atomic unit "
        "of the table x {none, k, u} prefixes x all products and quotients of a 12-atom (25 in thorough) alphabet x operands in "
        "the default and in a custom registry (code units, re-defined Msun): in_base either raises UnitsNotReducible or returns "
        "a quantity whose unit uses only symbols of the system's base units or of units it declares by name, is the monomial of "
        "the base units for undeclared dimensions, denotes the same physical quantity (or the independently typed CGS/SI "
        "electromagnetic counterpart factor), converts back by Unit and by unit name, equals get_base_equivalent, is idempotent, "
        "and equals convert_to_base / in_cgs / in_mks / convert_to_cgs / convert_to_mks. Every base slot given each of 10 wrong "
        "units must raise IllDefinedUnitSystem. BFS (depth 3, 2 declarations quick; 4/3 thorough) over 16 events on a fresh user "
        "system, galactic and cgs: in every distinct units_map state the 12-probe battery equals that of a cold world which only "
        "received the declarations (probes asked in reverse order).",
        "Trusted base: the EM counterpart factor table typed from the Gaussian definitions; allowed symbols are read from "
        "S.base_units and the names S declared (S._dims), never from memoised rows.",
        "DESIGN.md section 6 C10",
    ),
    "C18": (
        "bounded exhaustive enumeration with a deviation bound on injected invalid operands (0 and 1, each operand position "
        "in turn) over conversion routes, all ufuncs x call forms, methods with out=, in-place equivalence chains, item "
        "assignment, the array-function catalogue and Unit arithmetic, on operands that are views; before/after snapshots "
        "of every operand and parent",
        "Every call is made on freshly built operands that are strided or transposed views of parent arrays, with the "
        "numbers, dtype, shape, unit and name of every operand and the numbers/unit of every parent snapshotted before and "
        "after. 5 copying and 3 in-place conversion routes x 8 target kinds (valid string/Unit, same, equivalence target, "
        "wrong dimension, unknown and malformed string, offset unit) plus 19 argument-free copying calls and 9 in-place ones "
        "(unknown unit system/equivalence, bad keyword, uncovered request) x 7 dtypes x 5 operand forms x 3 source units; "
        "every ufunc of unyt's table in call / out= / wrong-shaped out / integer out / out-aliases-an-operand / in-place-"
        "operator form x 7 second-operand kinds; 26 methods and functions with out= x 10 unit combinations incl. refused "
        "ones; every in-place equivalence chain (9 equivalences x all dimension pairs of an 11-dimension alphabet x default "
        "and bad keywords x 3 dtypes); 5 index forms x 9 assigned-value kinds; all catalogue templates valid and with each "
        "quantity operand made incommensurable; 21 unary and 7 binary Unit operations over 18 units. Copying calls leave "
        "every input bit-identical (dtype included) whether they return or raise; a raising in-place call leaves the numbers "
        "and unit of its target and parent; a succeeding one changes only its target (parent bytes outside the view survive) "
        "to the copying call's numbers and unit.",
        "Deviation bound completed: 1 invalid operand per call. Faults inside NumPy are not injected. dtype relabelling of an "
        "integer target that preserves its numbers is not counted as a change of numbers or unit.",
        "DESIGN.md section 6 C18",
    ),
    "C09": (
        "exhaustive product enumeration equivalence x keyword set x ordered member-dimension pair x input unit x target unit "
        "x dtype x shape x entry point on the real code, against closed-form formulas on SI magnitudes; algebraic laws "
        "(inverse, via-intermediate); complete enumeration of uncovered requests over an 11-dimension alphabet",
        "All 9 registered equivalences (a gate fails the harness if the registry holds one without a reference formula) x "
        "every ordered pair of member dimensions x 2-7 unit spellings per dimension for input and target (SI, CGS, prefixed, "
        "compound spellings such as kg*m**2/s**2, imperial/astronomical) x default and non-default mu/gamma x float64 (all "
        "units) and float32 (SI spellings) x scalar/array x 7 entry points (to keyword/positional, in_units, to_value, "
        "to_equivalent, convert_to_units, convert_to_equivalent): value equals the formula evaluated with the library's "
        "constants; copying forms leave bytes/unit/dtype/name of the input untouched; in-place forms reach the copying "
        "form's unit and numbers; there-and-back returns the input; every path via a third member agrees with the direct "
        "conversion (spectral, sound_speed). Every ordered pair of the 11 dimensions that an equivalence does not relate x "
        "2x2 units x 7 entry points must raise InvalidUnitEquivalence and leave its input alone.",
        "float32 cases whose constants or intermediates leave float32's normal range are filtered and counted. Same-dimension "
        "requests are plain conversions (no verdict). Offset-scale sources may refuse.",
        "DESIGN.md section 6 C09",
    ),
    "C19": (
        "exhaustive product enumeration operand form pair x unit pair x value relation x rtol spelling x atol spelling x "
        "helper function, registry pair x relation, unit pair x relation for the equality helpers, and dimension x argument "
        "spelling x usage form for the decorators, on the real code; verdict computed on SI magnitudes",
        "allclose_units (positional and keyword), assert_allclose_units, np.allclose and np.isclose over 16 ordered pairs "
        "of operand forms (quantity, array, list of quantities, bare) x 3 units of actual x 8 units of desired (same, "
        "commensurable, incommensurable, dimensionless, percent, bare) x 4 value relations (equal, inside, outside, far - all "
        "a factor 4 from every boundary) x 4 rtol spellings (float, dimensionless quantity, percent quantity, zero) x 7 "
        "atol spellings (zero, bare small/large, same unit, other commensurable unit small/large, wrong dimension): accept "
        "exactly when commensurable and |A-D| <= atol + rtol|D| in SI with a bare atol read in desired's unit, otherwise "
        "refuse (False, AssertionError or exception); every commensurable case repeated with both arguments re-expressed in "
        "every other unit (verdict must not change); the same unit name with different sizes in two registries; array_equal/"
        "array_equiv/assert_array_equal_units over 11 unit pairs incl. equal-but-differently-spelled units; accepts/returns "
        "over all 64 dimensions of unyt.dimensions x good/scaled/array/wrong/wrong-power/bare arguments x 8 usage forms "
        "(pass iff dimension matches, TypeError otherwise, wrapped function called exactly once / not at all, result object "
        "returned unchanged).",
        "np.allclose/np.isclose with a bare or explicitly dimensionless operand against another unit carry no verdict "
        "(the statement's exceptions overlap; counted). accepts() is judged on the arguments actually passed.",
        "DESIGN.md section 6 C19",
    ),
    "C17": (
        "exhaustive product enumeration dtype x conversion route x unit pair x value alphabet (dtype limits and float-"
        "precision thresholds) x {scalar, array, strided view}, and ordered dtype pair x mixed-unit binary ufunc x call "
        "form, on the real code; oracle = exact rational arithmetic (fractions.Fraction) rounded to the prescribed float type",
        "13 dtypes (8 integer, 3 float, 2 complex) x 13 routes (to, to(Unit), in_units, to_value, convert_to_units, in_base/"
        "in_mks/in_cgs and their in-place twins, three equivalence entry points) x 6 unit pairs (ratios, an offset pair, "
        "identity) x every value of an alphabet holding 0, small numbers, the dtype limits and 2**p-1 .. 2**p+2 for the "
        "significand widths p of float16/32/64 - each value alone as a scalar, all of them as an array and as a strided view. "
        "Result dtype must be the float of the input's item size (float16 for 8-bit; in-place on 8-bit may refuse), floats "
        "keep their width, complex stays complex, values must equal the exact rational product rounded to that type (2 "
        "spacings; truncation is a separate failure mode), copy and in-place routes must agree bit for bit, and a RuntimeWarning "
        "must accompany any integer the target float cannot hold. All 169 ordered dtype pairs x 7 binary ufuncs x 3 unit pairs "
        "x {ufunc, operator, in-place, out=, scalar}: no truncation, floating (complex if either is) result, exact values to "
        "the precision of the converted operand, targets equal to results.",
        "For operands of different item sizes the statement does not fix the width: counted, not judged. A warning issued for "
        "representable input carries no verdict. Equivalence routes are judged on floating-ness, width not narrower than the "
        "input, and values.",
        "DESIGN.md section 6 C17",
    ),
    "C16": (
        "exhaustive product enumeration shape x dtype x index form (to depth 2) / accessor / constructor route / "
        "catalogue template / ufunc x call form on the real code; NumPy on the bare data is the reference for shapes, "
        "values and aliasing (np.shares_memory), the class rule comes from the statement",
        "9 shapes (0-d to 3-d, size-1 non-scalar, empty) x 3 dtypes x a generated menu of ~35 index forms per shape "
        "(ints, NumPy ints, slices with steps, Ellipsis, newaxis, boolean masks all/none/mixed/full, integer fancy "
        "lists/arrays, tuples of those), each followed by a second index, plus iteration: result class, shape, values, "
        "unit, name, and aliasing of the parent exactly where NumPy aliases; every unit-stripping accessor (.d .ndview "
        "ndarray_view() must alias, .v .value to_ndarray() to_value() must not), 15 converting/copying calls (never "
        "alias, even for a same-unit conversion) and 18 reshaping calls on base arrays and on reversed, transposed and "
        "strided views; 30 constructor routes (ndarray view, lists, lists/tuples of quantities or arrays in mixed "
        "commensurable units, number/ndarray times Unit in both orders, quantity times ndarray); the class of every "
        "unit-carrying leaf of every catalogue template and of every ufunc in call/outer/reduce/accumulate/reduceat form "
        "over shape pairs.",
        "Size-<=1 non-scalar results ((1,), (1,1), (0,)) may be either class per the statement: listed in the evidence, "
        "not judged. A 0-d unyt_array obtained only by asking the constructor for that class is not used as an input.",
        "DESIGN.md section 6 C16",
    ),
    "C07": (
        "exhaustive enumeration of the complete call-template catalogue x dtype x payload pack x every coherent "
        "change of units (exact dyadic rescalings in a custom registry and ordinary units) on the real code; "
        "metamorphic oracle F(x) vs F(x re-expressed) leaf by leaf, plus a hand-typed result-class column",
        "Every template of the C06 catalogue (all functions dispatching through __array_function__ + ndarray "
        "methods, ~1450 templates) is executed with all inputs of each dimension slot in a baseline unit and again "
        "for every assignment of alternative units per slot: powers-of-64 units of a custom registry (numbers "
        "rescaled exactly, so unit-carrying results must denote the same quantity BIT FOR BIT and bare results must "
        "be identical; LAPACK/FFT/LU/pow-backed templates under 1e-9) and ordinary units (cm, km, mile, hr, lb; "
        "1e-9). For the hand-typed class of functions whose result has the dimension of an input (selection, "
        "reshaping, sorting, rounding, interpolation, location/spread statistics) every array leaf of the result "
        "must be a unyt object of that dimension. in-place/out= targets are compared the same way.",
        "Templates whose mathematics is not scale-covariant (rounding family, bare parameters read in the array's "
        "current unit, string/IO producers) are exempt from the covariance oracle only and are listed in the "
        "evidence. The result-class column is typed by hand from NumPy's documentation.",
        "DESIGN.md section 6 C07, Appendix A",
    ),
    "C06": (
        "exhaustive enumeration of a complete catalogue of call templates (every function dispatching through "
        "__array_function__ and the ndarray methods) x dtype x payload pack x unit assignment on the real code, "
        "differential against NumPy on the stripped data",
        "All 261 NumPy functions that dispatch through __array_function__ (numpy, numpy.linalg, numpy.fft; a "
        "completeness gate fails the harness if one has no template) and ~50 ndarray methods are exercised by "
        "1438 call templates - positional, keyword and out= forms with non-default axis/decimals/mode/side/k/"
        "ddof/keepdims/endpoint/... arguments chosen so that dropping or mis-forwarding one changes the result - "
        "over 0-d, size-1, 1-d, 2-d, square, stacked and empty shapes, float/int/complex data, 1 (quick) or 4 "
        "(thorough) payload packs and 2 (quick) or 4 (thorough) unit assignments. Each template is executed on "
        "bare ndarrays and on unyt arrays holding the same numbers: both raise, or every leaf of the result "
        "tree has the same shape, dtype kind and values and every out=/in-place target holds the same numbers.",
        "A call unyt refuses while NumPy succeeds is allowed by the statement; the refused templates are listed in "
        "the evidence. Float results are compared to 64 eps of the largest reference magnitude (re-association), "
        "integer/bool/index results exactly.",
        "DESIGN.md section 6 C06, Appendix A",
    ),
    "C15": (
        "complete enumeration of the finite constant table x names x suffixes x unit-system registries, plus all "
        "defining relations, against independent reference values and EM counterpart factors",
        "All 34 constants x all alias names x {plain, _mks, _cgs} are compared as quantities (SI magnitude and "
        "dimension, or the independently typed CGS/SI electromagnetic counterpart factor) in the default namespace "
        "and in namespaces built by add_constants for a registry with each of the 7 built-in and 2 generated unit "
        "systems; 15 defining relations (hbar, eps_0*mu_0*c^2, sigma, a, R_inf, Ry, Planck and geometrized units) are "
        "evaluated; every name that is both a unit string and a constant is found by intersection and compared; each "
        "value is compared with an independently typed reference within its uncertainty class. The space is finite "
        "and enumerated completely.",
        "Trusted base: reference values (CODATA 2018, IAU, Standish 1995 ratios) and class tolerances in "
        "/verif/mc/ref/deftable.py; EM factors typed from the Gaussian definitions.",
        "DESIGN.md section 6 C15",
    ),
    "C20": (
        "exhaustive enumeration of the token language up to a length, of the 1-edit neighbourhood of a corpus and of "
        "the printed forms of an algebraic closure, under a harness-side vocabulary monitor",
        "Every token sequence up to length 5 (6 in thorough) over a 16-token alphabet, concatenated and space "
        "separated (2.3M strings), every single-character edit of a 200-string corpus, and a hostile list (str and "
        "bytes) is given to Unit(): only UnitParseError may escape, and the code string handed to eval is parsed "
        "with ast to assert that every name that would resolve is in the parser's vocabulary and that no import/"
        "open/os/subprocess audit event fires during evaluation. str() and repr() of every unit in a closure over "
        "57 atoms are parsed back and compared (expr and hash when coefficient-free); spelling variants of one "
        "expression must denote equal units.",
        "The monitor wraps sympy.parsing.sympy_parser.eval_expr (module-global lookup verified) and installs a "
        "sys.addaudithook; lazy imports of sympy's own submodules are allowed. Byte-level fuzzing is replaced by "
        "the complete token language and 1-edit neighbourhood.",
        "DESIGN.md section 6 C20",
    ),
    "C01": (
        "exhaustive product enumeration operation x call form x operand-kind pair x dimension pair x shape "
        "on the real code, verdict table derived from the statement, operand snapshots before/after",
        "Every commensurability-requiring ufunc (call/out=/outer/reduce(initial=)/at), operator (plain, reflected "
        "via bare-left operands, in-place), merging array function, item assignment form and .to() route is run "
        "for all 81 ordered operand-kind pairs, several dimension pairs (all registry dimension pairs in thorough) "
        "and three shapes; whenever the reference dimensions differ the call must raise (==/!= answer), and "
        "every operand must be bit-identical afterwards. A single table entry mapped to a pass-through rule or a "
        "handler that forgets its unit validation is necessarily visited.",
        "The list of operations that need commensurable operands is typed from NumPy semantics. No verdict for "
        "cells where the statement's exceptions overlap (== with a dimensionless operand, bare scalars in "
        "value-into-array positions, plain lists NumPy converts before unyt is called).",
        "DESIGN.md section 6 C01",
    ),
    "C02": (
        "exhaustive enumeration of all unit names, all same-dimension name pairs and the complete "
        "compound-expression grammar up to 3 factors, against an independently typed definition table and "
        "an independent expression evaluator",
        "All 3872 resolvable names and all 145x22 symbol-prefix strings are resolved by unyt and by a hand-typed "
        "definition table with per-class tolerances; every ordered pair of names sharing a dimension is converted "
        "and compared with the scale ratio / affine map; every expression tree of the stated grammar is evaluated "
        "three ways (string parser, reference parser, Unit operator algebra). A wrong digit in any row, a wrong "
        "prefix value or a mistake in how powers/products accumulate scale is necessarily visited.",
        "Trusted base: /verif/mc/ref/deftable.py (hand-typed legal/SI/IAU/CODATA definitions with class "
        "tolerances) and the 120-line reference parser; alias->canonical map taken from unyt (C14 checks it). "
        "'Random 5-factor expressions' is replaced by the complete language up to 3 factors.",
        "DESIGN.md section 6 C02",
    ),
    "C14": (
        "exhaustive enumeration of the name universe (prefix symbol/word x symbol/alias/title form) and of all "
        "exported attributes, against an independent name reader",
        "Every string of {prefix symbol, prefix word, ''} x {table symbol, listed alias} plus title-case forms "
        "(about 28k strings) is read by an independent reader that implements the stated precedence (table symbol "
        "or listed alias first, then one prefix + prefixable unit) and by unyt; every exported attribute is "
        "compared with the string route and with a custom registry's add_symbols namespace. The space is finite and "
        "is enumerated completely, so a retargeted spelling, a prefix accepted on a non-prefixable unit or a "
        "two-reading string cannot hide.",
        "The symbol, listed-alternatives and prefix tables are taken as data; the reading rules are typed from the "
        "statement. Scale of the base symbols themselves is C02's business.",
        "DESIGN.md section 6 C14",
    ),
    "C03": (
        "exhaustive enumeration of ordered unit pairs and triples per dimension x dtype x shape x conversion route on "
        "the real code; algebraic laws as oracle (identity, inverse, composition, route agreement)",
        "For every dimension the alphabet is every table symbol plus k/m/µ prefixed forms (all 22 prefixes for "
        "temperature), compounds, the five CGS<->SI electromagnetic pairs with prefixes and a custom registry "
        "holding a 6x5 affine scale/offset grid (prefixable and not). Every ordered pair is converted on six routes "
        "(to, in_units, to(Unit), to_value, convert_to_units, factor by hand) with four dtypes and two shapes; identity "
        "must be exact, there-and-back and composition through every third unit must hold within 64 eps measured in "
        "SI; in_base/convert_to_base/in_cgs/in_mks twins must agree for every unit in 7 systems.",
        "The symbolic 'all real scale/offset' quantifier is replaced by the stated affine grid (a proof is a different "
        "family). float32 cases whose float64 twin leaves float32's normal range are filtered and counted.",
        "DESIGN.md section 6 C03",
    ),
    "C04": (
        "exhaustive enumeration of expression programs up to depth 2 x all leaf-unit assignments x call forms, "
        "differential against a reference interpreter on SI magnitudes with rounding-error propagation",
        "Every program of depth <= 2 over 18 binary operations, 18 unary operations and 10 reductions is run with "
        "every assignment of leaf units from a 14-unit alphabet (lengths, times, masses, velocities, angles, "
        "dimensionless, a custom-registry unit) in operator, ufunc, in-place and out= form, and compared with a "
        "reference interpreter that does the same mathematics on SI magnitudes with dimensional analysis; sums and "
        "differences must come back in the left operand's unit. Comparisons and max/min between offset-scale and "
        "absolute units are enumerated over all ordered pairs. Re-expression of any leaf is covered because every "
        "unit assignment is compared with the same unit-free reference.",
        "Reference interpreter and first-order rounding-error bounds are in checks/c04.py; programs rejected by the "
        "reference type-checker belong to C01; floor/mod/comparison cases within 1e-6 of a rounding boundary are "
        "filtered and counted. Depth 6 random DAGs are replaced by the complete depth-2 space.",
        "DESIGN.md section 6 C04",
    ),
    "C05": (
        "explicit-state closure of the unit algebra (all atoms, depth 2; depth 3 on a 20-unit alphabet) with a "
        "three-representation invariant in every reached state and exhaustive law checking on pairs/triples",
        "From all 145 atomic, 20 prefixed and 6 custom-registry units every product, quotient and 16 rational/float "
        "powers is formed; in each of the ~66k distinct reached units expr, scale and dimension are re-derived by the "
        "library's evaluator and by the independent reference parser and must agree. Commutativity, identity, inverse "
        "and the scale/dimension homomorphism are checked on all ordered pairs; associativity, power-of-power, "
        "power distribution, simplify and as_coeff_unit on all triples of a 20-unit alphabet; equality/hash on "
        "families of equal units.",
        "Law instances where either side refuses (offset and logarithmic units) are skipped, refusal must be "
        "symmetric. 'Random associativity' is replaced by the complete small-scope enumeration.",
        "DESIGN.md section 6 C05",
    ),
    "C08": (
        "exhaustive enumeration of all ordered pairs of temperature spellings x operations x call forms "
        "against an affine reference model in kelvin",
        "All 72x72 ordered pairs of temperature spellings (K, R, degC, degF, delta units, every SI prefix where "
        "allowed) are combined by + and - in operator, ufunc, out=, in-place and outer form and converted on five "
        "routes; every multiplicative and power operation is applied to every offset-scale spelling; diff, ediff1d "
        "and ptp to every spelling. Each returned value is compared with affine arithmetic done in kelvin and "
        "each returned label with the kind (point/difference) the statement fixes. The pair table is visited "
        "cell by cell, so an asymmetric mislabel cannot hide.",
        "Reference: 30-line affine model (scale, zero point, point/difference kind) typed from the definitions of "
        "the scales. point+point on one scale and difference-point are not demanded by the statement and are "
        "only recorded.",
        "DESIGN.md section 6 C08",
    ),
    "C12": (
        "explicit-state BFS over registry-edit/cache-seeding histories on the real code, "
        "warm-vs-cold-vs-reference differential in every state",
        "Every history of registry edits (add, re-add, modify by float/quantity, remove, define_unit) "
        "interleaved with Unit construction, array arithmetic and conversion up to the stated length "
        "and edit bound is executed on the real UnitRegistry; in every distinct canonical state all "
        "probe strings and array programs are evaluated warm, against a cold registry built from the "
        "reference table, and by an independent evaluator. Exhaustive within the bound, so any memo "
        "layer that survives an edit it should not survive is found with the shortest history.",
        "Alphabet: 3 user symbols (prefixable, non-prefixable, prefix-colliding); bounds in evidence. "
        "lru-cache contents are over-approximated by the ordered list of lru-touching events; the "
        "reference table tracks user-level registry contents.",
        "DESIGN.md section 6 C12",
    ),
}

NOT_YET = "check not built yet in this round (work in progress; see DESIGN.md section 6 for the planned design)"


# sentences appended to the level text of checks that were extended after the seeded-change waves
EXTRA_TEXT = {
    "C13": " Round 3: 15 paths from default-bound data to a registry object x modify/remove; two objects restored from one pickle (registries 2 and 3). Round 4: products across registries in every spelling, read back by name. Round 5: quotient carry-on and dimensionless left operands across registries; constructors given a Unit of another registry plus registry=. Round 6: quantities handed to modify / define_unit stay bit-for-bit what they were. Round 7: constructors on the bypass_validation path; the unit argument and exported units stay bound to their registry.",
    "C10": " Round 3: a rejected UnitSystem leaves no trace (name absent, unusable, holder of the same name untouched). Round 4: a user system with an offset base unit; inconsistent systems without a current unit and with a wrong logarithmic unit. Round 5: a system re-created under its name with other base units. Round 7: units declared on a system after its first use, electromagnetic dimensions included.",
    "C01": " Added: every np.clip bound position/spelling, out= forms of the merging functions, and 'namesake' operands - units spelled alike but of different dimension (a unit object kept across remove+add of its symbol; one symbol defined differently in two registries), cold and after a warm-up call, through every operation x form. Round 3: empty operands of another dimension, lists mixing quantities with a non-zero bare number, reduce(initial=) forms made effective. Round 4: boundary / fill values (ediff1d, diff, interp) in keyword and positional spelling. Round 5: electromagnetic triples in the quick tier. Round 7: zero-valued quantities and lists of quantities as operands and as values put into arrays; np.pad fill values.",
    "C02": " Added: numeric coefficients under roots and powers; user units defined by define_unit/add/modify(quantity) in registries with cgs, imperial, galactic and mks default systems (atom, prefixed, compound, conversion). Round 7: user units defined by electromagnetic (SI and Gaussian) quantities; Earth mass from an independent source.",
    "C03": " Added: every spelling of one target (name, alias, parenthesised, trivial power, empty string, Unit object) x 5 routes; argument-free base-conversion routes of registries with a non-default unit system vs the routes that name the system. Round 3: source and target spelled alike but defined differently (Unit object of another registry / built before an edit) through every route; routes that name their system (in_mks, convert_to_cgs, get_mks_equivalent) under registries with another default system. Round 4: the label of a namesake conversion's result. Round 7: the source's own unit rebuilt by unit algebra (u**1, copies, Unit(u)) as target; x**1, +x, x*1 as sources.",
    "C04": " Added: .dot method and udot helper, trigonometry on the offset angle scales lat/lon, all ordered pairs of 15 compound / inverse / self-cancelling leaf units, and operands whose units are spelled alike but differ in size (stale unit object after modify; two registries). Round 3: reductions over every axis spelling incl. tuples with negative members; array-valued exponents (uniform, rows-equal, one-off; scalar and broadcast bases); operands of different item sizes in different units judged at each operand's own float width. Round 4: reductions with a quantity start value in another unit (quantity and 0-d array) for the whole ufunc family and the function / method spellings. Round 5: leaf pairs that are both tiny or both huge in SI. Round 6: one physical temperature compared across scales (==, !=, <=, >=); integer operands whose units cancel into a large pure number. Round 7: reductions without an axis, with where= masks, reduceat / accumulate; exponents that are quantities in scaled dimensionless units.",
    "C05": " Added: == / != decided for all ordered atom pairs, equal units with equal expression hash equally whatever algebraic route built them, as_coeff_unit keeps the zero point. Round 3: the same symbols in registries that define them differently and before/after modify - all ordered pairs under *, /, inverse, powers, and each quotient as an operand again. Round 5: hash of a unit simplified in place after it was hashed. Round 7: units with numeric coefficients under powers and roots.",
    "C06": " Added: large tied arrays for stable sorts, out= templates with axis-symmetric result shapes, ufunc templates on operands that carry one unit through two Unit objects (integer data, zero divisors), unyt's u* helpers. Round 3: 0-d out= buffers, searchsorted across dtypes, same-object equality with NaN, flat range= of the histogram family. Round 5: non-degenerate boolean masks; an angle unit set. Round 6: dot / matmul / inner / tensordot with 3-d operands; non-commuting out= products. Round 7: histogramdd on one (N, D) array, einsum keyword arguments, integer diff boundary values.",
    "C07": " Added: out= buffers handed over in another unit of the same dimension must come back denoting the same quantities. Round 3: each input of a dimension re-expressed on its own (split oracle), bit-for-bit for dyadic units. Round 7: rint judged (known finding); histogram_bin_edges with quantity limits.",
    "C08": " Added: products through 14 array functions and through Unit objects with the offset-scale operand on either side. Round 3: lists and tuples of readings on mixed scales coerced by the constructor. Round 5: item-assignment routes between temperature scales. Round 6: the Unit object of an offset scale divided by plain data. Round 7: sum / add.reduce with a start value, operators applied to slices of a larger array.",
    "C09": " Added: operands and target names living in a custom registry (re-defined Msun, code units). Round 3: '' and '1' spellings of the dimensionless target, Unit-object targets, integer data. Round 4: offset-scale temperature targets through every entry point.",
    "C11": " Added: sibling-edit hops and savetxt/loadtxt of several columns read back in every order and selection. Round 3: registries serialised once before their last edit; files with one value, one row, one column. Round 4: follow-ups on units parsed after the hop from the restored table. Round 5: quotients by differently spelled commensurable quantities; scaled dimensionless units through text files. Round 6: comment markers other than '#' in text files. Round 7: registries with removed built-in symbols.",
    "C12": " Added: a second search from a populated registry, doubly prefixed probes, cancellation programs compared also through the printed unit, modify(sym, quantity in sym), kept Unit.copy() objects probed through their own registry, freshness of the memoised registry id after every edit. Round 3: NumPy-function programs (prod, var, std, det, inv, dot, trapezoid, cross) judged in every state against the model's definitions; UnitSystem objects bound to the edited registry. Round 4: 10 built-in symbols x every spelling x 5 edits x cold/warm against the raw tables; staleness keyed by cause. Round 5: define_unit / membership of already resolvable spellings, cold vs warm. Round 6: arrays kept across an edit and their later copies (keeparr / copykept events).",
    "C14": " Added: resolution independent of the order of earlier prefixed lookups in a fresh registry (all ordered prefix pairs x all prefixable symbols, comoving ...cm symbols) and table symbols surviving the registration of a user symbol S with prefix+S = table symbol. Round 3: namespace of a registry with redefined built-ins; prefix on an already prefixed unit, cold and warm; violation keys carry the spelling family. Round 4: promised spellings read off the raw tables; every alias row of the raw table. Round 5: independent alias reference (184 lines) compared both ways; UTF-8 bytes spellings. Round 6: units exported by define_unit - attribute and string denote one unit.",
    "C15": " Added: namespaces filled by add_symbols then add_constants, and by add_constants twice. Round 3: one unit-system name over registries with different code units, and after modify. Round 7: a 1e-8 tolerance class for spectroscopic constants (R_inf).",
    "C16": " Added: in-place operators and out= on whole / first-element / first-two views stay attached to the parent; list coercion across two registries; constructor keyword variants. Round 3: ufunc operand units that combine to a number times a unit; gufunc contractions (matmul, vecdot, matvec, vecmat). Round 4: converting calls on a unit that is already the system's own; ua / unit_array / **0 / bypass_validation constructors. Round 5: constructor inputs with unusual memory layout; unorm / norms / all-axes reductions. Round 7: in-place operators on views of INTEGER data judged through the parent; 0-d out= through clip / around / choose; one-element quantity parents; attempted multi-element quantities.",
    "C17": " Added: an out= buffer that is the second operand; spectral wavelength->wavenumber (a reciprocal) for every integer dtype; floor_divide and remainder of 8-byte operands in different units against the exact rational floor. Round 3: SI<->Gaussian pairs; lists/tuples of integer quantities in mixed units (constructor and operand). Round 5: electromagnetic units in the argument-free base routes; lorentz and sound_speed on integer velocities. Round 6: Planck units in the width / warning / route-agreement oracle. Round 7: fourth powers / squares of integer data inside equivalences (effective_temperature, lorentz gamma).",
    "C18": " Added: operands with unsimplified unit expressions; Unit-object targets of another registry / exported units snapshotted with the identity of their registry. Round 3: separate integer out= buffers of binary ufuncs; data (op) Unit results never alias the data; argument-free in-place/copy twins under registries with another default system. Round 4: fractional-power operands, NumPy-level refusals with misfit out= buffers, Unit operands with cancelling factors. Round 5: the returned object of in-place / out= calls; targets on offset and logarithmic scales. Round 6: non-commuting operands in out= products. Round 7: read-only and bool operands of in-place conversions; simplify among the non-mutating Unit calls incl. the registry's unit for the string; bare out= buffers.",
    "C19": " Added: every decorator usage repeated as a later call of the same decorated function. Round 3: differences between rtol*|actual| and rtol*|desired|; atol held in a unyt_array that is not a unyt_quantity. Round 4: stacked decorators. Round 5: one stated return dimension with a tuple result. Round 7: tolerances as quantities on all helpers incl. np.allclose / np.isclose, temperature scales, dimensionless operands; decorator signatures with *args / keyword-only / locals.",
    "C20": " Added: printed forms of products with self-cancelling unit ratios. Round 3: unit text persisted by pickle (protocols 2-5) and savetxt under registries with redefined built-ins. Round 5: two-column text files under every delimiter. Round 7: negative bases under fractional powers; empty symbol names.",
}



# rounds 8-10 (waves w8, w9, w10 of seeded changes): appended to the level texts
ROUNDS_8_10 = {
    "C01": " Rounds 8-10: a dimension triple on offset scales (degC, degF, s); a symbol redefined with another dimension at the same scale.",
    "C03": " Rounds 8-10: the same source object converted to another unit of the target's name just before the judged conversion.",
    "C04": " Rounds 8-10: where= masks that broadcast (lower rank, lists, leading flags) in product reductions; .dot / np.dot with out= (buffer and returned object); in-place operators on 0-d quantities and reductions of one leaf whose unit cancels into a number.",
    "C06": " Rounds 8-10: np.pad with fill values handed over as quantities (single, pair, nested pairs, lists).",
    "C07": " Rounds 8-10: np.pad with fill values handed over as quantities (single, pair, nested pairs, lists), each re-expressed on its own.",
    "C10": " Rounds 8-10: a dimension declared AGAIN with another unit after the system was used.",
    "C11": " Rounds 8-10: to_string()/from_string() as a hop for quantities (texts from_string refuses carry no verdict).",
    "C12": " Rounds 8-10: conversions whose TARGET string is the edited symbol as history events.",
    "C15": " Rounds 8-10: every constant name of the unyt.physical_constants module present in every namespace filled by add_constants.",
    "C17": " Rounds 8-10: all twelve ordered member pairs of the spectral equivalence on integer data against exact rationals.",
    "C18": " Rounds 8-10: the copying equivalence call right after the in-place call with the same equivalence leaves its operand alone.",
    "C19": " Rounds 8-10: the other unit system's electromagnetic counterpart as a wrong-dimension argument of the decorators.",
}
for _k, _v in ROUNDS_8_10.items():
    EXTRA_TEXT[_k] = EXTRA_TEXT.get(_k, "") + _v

def main():
    checks = []
    for pid in ALL:
        if pid not in CHECKS:
            continue
        tech, text, note, ref = CHECKS[pid]
        checks.append(
            {
                "property_id": pid,
                "quick_cmd": f"/venv/bin/python /verif/run.py {pid} --tier quick",
                "thorough_cmd": f"/venv/bin/python /verif/run.py {pid} --tier thorough",
                "evidence_file": f"/verif/evidence/{pid}.json",
                "replay_cmd_template": "/venv/bin/python /verif/run.py --replay {path}",
                "engine": "mc",
                "level_claimed": {"category": "model_checking", "text": text + EXTRA_TEXT.get(pid, ""), "design_ref": ref},
                "level_note": note,
                "technique": tech,
            }
        )
    man = {
        "version": 1,
        "setup_cmd": "/venv/bin/python -c \"import numpy, sympy; print('setup ok: pure-python harness, nothing to build')\"",
        "hooks": {
            "guard": "UNYT_VERIF",
            "enable": "no source hooks are needed: checks import /repo's working tree via PYTHONPATH=/repo "
            "(run.py sets UNYT_VERIF=1, PYTHONHASHSEED=0) and reset unyt's global state from outside",
            "baseline_off_cmd": "/venv/bin/python /verif/tools/baseline_check.py",
            "source_commits": [],
            "add_only": True,
        },
        "engines": [
            {
                "name": "mc",
                "path": "/verif/mc",
                "serves_properties": sorted(CHECKS),
                "kind_free_text": "hand-written bounded-exhaustive explorer for Python: explicit-state BFS "
                "over the real transition function (world reset + replay + canonical digest) and "
                "exhaustive product enumeration against an independent reference model",
            }
        ],
        "checks": checks,
        "not_applicable": [{"property_id": p, "reason": NOT_YET} for p in ALL if p not in CHECKS],
        "notes": "Run with /venv/bin/python; run.py re-executes itself with PYTHONPATH=/repo:/verif, "
        "PYTHONHASHSEED=0. Known genuine defects are listed in /verif/known_findings.json.",
    }
    with open(os.path.join(HERE, "MANIFEST.json"), "w") as f:
        json.dump(man, f, indent=1)
    print("checks:", [c["property_id"] for c in checks])


if __name__ == "__main__":
    main()
