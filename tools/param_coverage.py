#!/venv/bin/python
"""Which parameters of unyt's array-function handlers does no catalogue template pass (with a non-default value)?

Harness-side only: every handler in unyt._array_functions._HANDLED_FUNCTIONS is wrapped to record the arguments it is
called with while all catalogue templates run once on unyt inputs.  Output: handler -> parameters never passed /
only ever passed at their default.  Used to decide which templates to add (it is not a verdict)."""
import inspect, os, sys, warnings
sys.path.insert(0, os.path.dirname(os.path.dirname(os.path.abspath(__file__))))
sys.path.insert(0, os.environ.get("VERIF_REPO", "/repo"))
warnings.simplefilter("ignore")
import numpy as np
import unyt._array_functions as af
from mc.catalog import core, run as R

seen = {}
for func, handler in list(af._HANDLED_FUNCTIONS.items()):
    try:
        sig = inspect.signature(handler)
    except (TypeError, ValueError):
        continue
    rec = seen.setdefault(getattr(func, "__name__", str(func)), {"sig": sig, "passed": {}, "calls": 0})
    def wrap(handler=handler, rec=rec, sig=sig):
        def w(*a, **k):
            rec["calls"] += 1
            try:
                b = sig.bind(*a, **k)
                for n, v in b.arguments.items():
                    p = sig.parameters[n]
                    if p.kind in (p.VAR_POSITIONAL, p.VAR_KEYWORD):
                        if v:
                            rec["passed"].setdefault(n, set()).add(repr(v)[:40])
                        continue
                    d = p.default
                    nd = d is inspect._empty or not (v is d or (not isinstance(v, np.ndarray) and not hasattr(v, "units") and v == d))
                    if nd:
                        rec["passed"].setdefault(n, set()).add("x")
            except Exception:
                pass
            return handler(*a, **k)
        return w
    af._HANDLED_FUNCTIONS[func] = wrap()

for t in R.TEMPLATES:
    for dt in R.template_dts(t)[:1]:
        data = core.build_data(t, 0, dt)
        kw = R.mk_unyt(t, data, {"X": "m", "Y": "s", "W": "g"})
        R.execute(t, kw)
n = 0
for name in sorted(seen):
    rec = seen[name]
    params = [p for p in rec["sig"].parameters.values()]
    missing = [p.name for p in params if p.name not in rec["passed"] and p.default is not inspect._empty and p.kind not in (p.VAR_POSITIONAL, p.VAR_KEYWORD)]
    if rec["calls"] == 0:
        print(f"{name}: NEVER CALLED")
        n += 1
    elif missing:
        print(f"{name}: {', '.join(missing)}")
        n += len(missing)
print("unexercised:", n)
