#!/usr/bin/env python3
"""Rewrite the two tables of DESIGN.md section 11 (repaired / known findings) from known_findings.json.
Only the table rows between the header row and the next blank line are replaced; surrounding prose is kept."""
import collections
import json
import os
import re

V = os.path.dirname(os.path.dirname(os.path.abspath(__file__)))
d = json.load(open(os.path.join(V, "known_findings.json")))
fixed = [e for e in d["entries"] if e.get("status") == "fixed"]
known = [e for e in d["entries"] if e.get("status") == "known"]


def esc(t):
    return t.replace("|", "\\|").replace("\n", " ")


rows1 = [f"| {e['property']} | `{e.get('commit', '?')}` | {esc(e['what'])} |" for e in sorted(fixed, key=lambda e: e["property"])]
grp = collections.OrderedDict()
for e in sorted(known, key=lambda e: e["property"]):
    grp.setdefault((e["property"], e["what"]), []).append(e["key"])
rows2 = [f"| {p} | {esc(w)} | {len(k)} |" for (p, w), k in grp.items()]

p = os.path.join(V, "DESIGN.md")
s = open(p).read()


def replace_table(s, header, rows):
    i = s.index(header)
    j = s.index("\n", s.index("\n", i) + 1) + 1  # after header row and separator row
    k = s.index("\n\n", j)
    return s[:j] + "\n".join(rows) + s[k:]


s = replace_table(s, "| property | commit | what failed |", rows1)
s = replace_table(s, "| property | defect (one line per distinct defect", rows2)
open(p, "w").write(s)
print(len(rows1), "repaired,", len(rows2), "known defects,", len(known), "key patterns")
