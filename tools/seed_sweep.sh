#!/bin/bash
# usage: seed_sweep.sh <tier> <seed> [<seed>...]  -- run every claimed check under each VERIF_SEED (scratch evidence dir), print one line each
tier="$1"; shift
cd /verif
checks=$(python3 -c "import json;print(' '.join(c['property_id'] for c in json.load(open('MANIFEST.json'))['checks']))")
for sd in "$@"; do
  for c in $checks; do
    out=$(VERIF_SEED=$sd VERIF_EVIDENCE_DIR=/tmp/sweep_ev_$sd VERIF_REPLAY_DIR=/tmp/sweep_rp_$sd /venv/bin/python run.py $c --tier $tier 2>&1)
    rc=$?
    echo "seed=$sd $c exit=$rc $(echo "$out" | grep -E "^$c tier" | tail -1 | sed -E 's/evaluations.*violations=/violations=/')"
    if [ $rc -ne 0 ]; then echo "$out" | grep -E "key=|HARNESS|Error" | head -5; fi
  done
done
rm -rf /tmp/sweep_ev_* /tmp/sweep_rp_*
