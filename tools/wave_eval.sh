#!/bin/bash
# usage: wave_eval.sh <wave-dir> <tag> <Cxx> [extra checks...]   -- evaluate m1..m3 of one property, file them as <Cxx>-<tag>m<k>
wd="$1"; tag="$2"; c="$3"; shift 3
for k in 1 2 3; do
  [ -f "$wd/$c/m$k.diff" ] || continue
  out=$(python3 /verif/tools/seed_eval.py "$wd/$c" $k "$wd/$c/wt" $c "$@" --keep "$c-${tag}m$k" 2>&1)
  echo "$c-${tag}m$k: $(echo "$out" | grep -E 'REJECT|CAUGHT' | tr '\n' ' ') $(echo "$out" | grep -E 'key=' | head -1 | cut -c1-170)"
done
