#!/usr/bin/env python3
"""Write /verif/SEEDED.md: one row per seeded change (what it breaks, what it needs, which checks caught it)."""
import glob, json, os
HERE = os.path.dirname(os.path.dirname(os.path.abspath(__file__)))
rows = []
for mp in sorted(glob.glob(os.path.join(HERE, "seeded", "*", "meta.json"))):
    m = json.load(open(mp))
    ran = ", ".join(f"{r['check']}:{'caught' if r['exit'] == 1 and r['violation_lines'] else 'silent'}" for r in m.get("checks_run", []))
    first = ""
    for r in m.get("checks_run", []):
        if r.get("first_keys"):
            first = r["first_keys"][0].replace("key=", "").split(" cases=")[0]
            break
    rc = m.get("reconfirmed") or {}
    caught_now = [c for c in rc.get("caught_by", []) if ":" not in c]
    if rc:
        m["caught_by"] = sorted(set(m.get("caught_by", [])) | set(caught_now)) if rc.get("status") == "CAUGHT" else m.get("caught_by", [])
    rows.append((m["id"], m.get("property"), (m.get("summary") or "").replace("\n", " ").replace("|", "/")[:260],
                 (m.get("needs_to_manifest") or "").replace("\n", " ").replace("|", "/")[:220], ", ".join(m.get("caught_by", [])) or "-", ran, first.replace("|", "/")[:150]))
with open(os.path.join(HERE, "SEEDED.md"), "w") as f:
    f.write("# Seeded property-breaking changes (written by independent sub-agents, confirmed with tools/seed_eval.py)\n\n")
    f.write("Each change keeps the 652 baseline tests green, fails its own demonstration and passes it on the clean tree.\n")
    f.write("`caught by` = checks that exit 1 with a VIOLATION line when run against a worktree with the change applied (quick tier).\n\n")
    f.write("| id | what was changed | needs | caught by | first violation key |\n|---|---|---|---|---|\n")
    for r in rows:
        f.write(f"| {r[0]} | {r[2]} | {r[3]} | {r[4]} | `{r[6]}` |\n")
    caught = sum(1 for r in rows if r[4] != "-")
    f.write(f"\n{len(rows)} changes, {caught} caught.\n")
# compact table inside DESIGN.md section 13
dp = os.path.join(HERE, "DESIGN.md")
d = open(dp).read()
b, e = d.index("<!-- seeded-table-begin -->"), d.index("<!-- seeded-table-end -->")
lines = ["| seeded change | caught by | needs, in order to manifest |", "|---|---|---|"]
for r in rows:
    lines.append(f"| {r[0]} | {r[4]} | {r[3][:160]} |")
d = d[:b] + "<!-- seeded-table-begin -->\n" + "\n".join(lines) + "\n" + d[e:]
open(dp, "w").write(d)
print(len(rows), "rows")
